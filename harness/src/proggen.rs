//! Grammar-directed generator of whole Blots programs: well-formed, mostly evaluating, over the whole expression
//! language, with a small name pool so that names are often bound, and with deliberate weight on the odd corners
//! (assignments as sub-expressions, immediately invoked and parameterless lambdas, `inputs` / `#name` references,
//! shadowing parameters and do-locals, spreads, optional and rest parameters, callbacks).
use crate::rng::Rng;

const NAMES: &[&str] = &["a", "b", "c", "t", "x", "y"];
const BUILTINS: &[&str] = &["sum", "max", "min", "len", "map", "filter", "reduce", "every", "some", "sort", "sort_by", "range", "keys", "values", "to_string",
                            "abs", "round", "head", "tail", "slice", "unique", "reverse", "flatten", "typeof", "avg", "median", "entries", "join", "format", "any", "all", "includes", "count_by", "group_by"];
const BINOPS: &[&str] = &["+", "-", "*", "/", "%", "^", "==", "!=", "<", "<=", ">", ">=", "&&", "||", "and", "or", "??", ".==", ".<", ".>=", "via", "where", "into"];

fn atom(r: &mut Rng) -> String {
    match r.below(16) {
        0..=3 => r.range(-2, 9).to_string(),
        4 => ["0.5", "1e2", "2.5e-3", "999999999999999.9", "0x1F", "0b101", "1_000", "inf", "-inf", "0/0"][r.below(10) as usize].to_string(),
        5 => ["\"s\"", "'q'", "\"\"", "\"a b\"", "\"\u{e9}\u{1f600}\"", "\"it's\""][r.below(6) as usize].to_string(),
        6 => ["true", "false", "null"][r.below(3) as usize].to_string(),
        7..=10 => r.pick(NAMES).to_string(),
        11 => ["inputs.a", "#a", "inputs", "#b", "inputs.f", "#missing", "inputs[\"a\"]"][r.below(7) as usize].to_string(),
        12 => ["constants.pi", "constants.e", "constants.max_value", "constants"][r.below(4) as usize].to_string(),
        13 => r.pick(BUILTINS).to_string(),
        14 => "[]".to_string(),
        _ => "{}".to_string(),
    }
}

fn params(r: &mut Rng) -> (String, Vec<&'static str>) {
    let a = *r.pick(NAMES);
    let b = *r.pick(NAMES);
    match r.below(9) {
        0 | 1 => ("()".into(), vec![]),
        2 | 3 => (a.to_string(), vec![a]),
        4 => (format!("({a})"), vec![a]),
        5 => (format!("({a}, {b})"), vec![a, b]),
        6 => (format!("({a}, {b}?)"), vec![a, b]),
        7 => (format!("(...{a})"), vec![a]),
        _ => (format!("({a}?, ...{b})"), vec![a, b]),
    }
}

pub fn expr(r: &mut Rng, depth: usize) -> String {
    if depth == 0 || r.chance(1, 5) { return atom(r); }
    let d = depth - 1;
    match r.below(22) {
        0..=3 => format!("({} {} {})", expr(r, d), r.pick(BINOPS), expr(r, d)),
        4 => format!("{}{}", ["-", "!", "not "][r.below(3) as usize], expr_p(r, d)),
        5 => format!("{}!", expr_p(r, d)),
        6 | 7 => {
            let n = r.below(4);
            let items: Vec<String> = (0..n).map(|_| if r.chance(1, 5) { format!("...{}", expr_p(r, d)) } else { expr(r, d) }).collect();
            format!("[{}]", items.join(", "))
        }
        8 | 9 => {
            let n = r.below(4);
            let items: Vec<String> = (0..n).map(|_| match r.below(6) {
                0 => r.pick(NAMES).to_string(),
                1 => format!("...{}", expr_p(r, d)),
                2 => format!("[{}]: {}", expr(r, d), expr(r, d)),
                3 => format!("\"k {}\": {}", r.below(3), expr(r, d)),
                _ => format!("{}: {}", r.pick(NAMES), expr(r, d)),
            }).collect();
            format!("{{{}}}", items.join(", "))
        }
        10 | 11 => { let (p, _) = params(r); format!("({} => {})", p, expr(r, d)) }
        12..=14 => {
            // calls: a name, a built-in, an immediately invoked lambda, anything
            let callee = match r.below(6) { 0 | 1 => r.pick(NAMES).to_string(), 2 | 3 => r.pick(BUILTINS).to_string(), 4 => { let (p, _) = params(r); format!("({} => {})", p, expr(r, d)) } _ => expr_p(r, d) };
            let n = r.below(4);
            let args: Vec<String> = (0..n).map(|_| if r.chance(1, 6) { format!("...{}", expr_p(r, d)) } else { expr(r, d) }).collect();
            format!("{}({})", callee, args.join(", "))
        }
        15 => format!("(if {} then {} else {})", expr(r, d), expr(r, d), expr(r, d)),
        16 | 17 => {
            let n = r.below(3);
            let mut s = String::from("do {\n");
            for _ in 0..n { s.push_str("  "); s.push_str(&if r.chance(2, 3) { format!("{} = {}", r.pick(NAMES), expr(r, d)) } else { expr(r, d) }); s.push('\n'); }
            s.push_str(&format!("  return {}\n}}", expr(r, d)));
            s
        }
        18 | 19 => format!("({} = {})", r.pick(NAMES), expr(r, d)),
        20 => format!("{}[{}]", expr_p(r, d), expr(r, d)),
        _ => format!("{}.{}", expr_p(r, d), r.pick(NAMES)),
    }
}

fn expr_p(r: &mut Rng, d: usize) -> String {
    let e = expr(r, d);
    if e.starts_with('(') || e.starts_with('[') || e.starts_with('{') || e.chars().all(|c| c.is_alphanumeric() || c == '_') { e } else { format!("({e})") }
}

pub fn program(r: &mut Rng) -> String {
    let n = 1 + r.below(6);
    let mut lines = vec![];
    for _ in 0..n {
        let depth = 1 + r.below(4) as usize;
        let e = expr(r, depth);
        lines.push(match r.below(8) {
            0..=3 => format!("{} = {}", r.pick(NAMES), e),
            4 => format!("output {} = {}", r.pick(NAMES), e),
            5 => format!("output {}", r.pick(NAMES)),
            _ => e,
        });
    }
    lines.join("\n")
}

pub const INPUTS: &[&str] = &["{\"a\": 4, \"b\": [1, 2], \"f\": {\"__blots_function\": \"x => x + 1\"}}", "{\"a\": \"s\", \"b\": {\"a\": null}}", "{}"];
