//! C18 - runaway recursion ends in a call-depth error, never in a crash.
use crate::ev::Session;
use blots_core::functions::verif_hooks as callhooks;
use serde_json::{Value as J, json};
use std::process::{Command, Stdio};

pub struct Shape {
    pub name: String,
    pub inc: u32,
    pub defs: String,      // definitions
    pub runaway: String,   // call that never terminates by itself
    pub finite: String,    // the same recursion, 300 levels deep, terminating
    pub finite_value: String,
    pub fnames: Vec<&'static str>,
}

fn nest(k: usize, open: &str, close: &str, inner: &str) -> String {
    format!("{}{}{}", open.repeat(k), inner, close.repeat(k))
}

pub fn shapes(thorough: bool) -> Vec<Shape> {
    let mut v = vec![];
    let mut add = |name: &str, inc: u32, body_runaway: &str, body_finite: &str, fin_val: &str| {
        v.push(Shape {
            name: name.to_string(), inc,
            defs: String::new(),
            runaway: format!("f = n => {}\nf(0)", body_runaway),
            finite: format!("f = n => {}\noutput r = f({})", body_finite, if inc >= 4 { 200 } else { 300 }),
            finite_value: if inc >= 4 { fin_val.replace("300.0", "200.0") } else { fin_val.to_string() },
            fnames: vec!["f"],
        });
    };
    add("self", 1, "f(n + 1)", "if n == 0 then 0 else f(n - 1)", "0.0");
    add("conditional-operator", 1, "if n < 0 then 0 else 1 + f(n + 1)", "if n == 0 then 0 else 1 + f(n - 1)", "300.0");
    add("do-block", 1, "do {\n  m = n + 1\n  return f(m)\n}", "do {\n  m = n - 1\n  return if n == 0 then 0 else 1 + f(m)\n}", "300.0");
    add("via-callback", 2, "([n] via (x => f(x + 1)))[0]", "if n == 0 then 0 else ([n] via (x => 1 + f(x - 1)))[0]", "300.0");
    add("where-callback", 2, "([n] where (x => f(x + 1)))", "if n == 0 then true else len([n] where (x => f(x - 1))) == 1", "true");
    add("into-callback", 2, "(n into (x => f(x + 1)))", "if n == 0 then 0 else (n into (x => 1 + f(x - 1)))", "300.0");
    // the recursive function handed to the operator by name: no call expression anywhere in the cycle
    add("via-direct", 1, "((n + 1) via f)", "if n == 0 then 0 else 1 + ((n - 1) via f)", "300.0");
    add("via-list-direct", 1, "([n + 1] via f)[0]", "if n == 0 then 0 else 1 + ([n - 1] via f)[0]", "300.0");
    add("into-direct", 1, "((n + 1) into f)", "if n == 0 then 0 else 1 + ((n - 1) into f)", "300.0");
    add("where-direct", 1, "([n + 1] where f)", "if n == 0 then true else len([n - 1] where f) == 1", "true");
    add("map-callback", 4, "map([n], x => f(x + 1))[0]", "if n == 0 then 0 else map([n], x => 1 + f(x - 1))[0]", "300.0");
    add("filter-callback", 4, "filter([n], x => f(x + 1))", "if n == 0 then true else len(filter([n], x => f(x - 1))) == 1", "true");
    add("reduce-callback", 4, "reduce([n], (a, x) => f(x + 1), 0)", "if n == 0 then 0 else reduce([n], (a, x) => 1 + f(x - 1), 0)", "300.0");
    add("every-callback", 4, "every([n], x => f(x + 1))", "if n == 0 then true else every([n], x => f(x - 1))", "true");
    add("some-callback", 4, "some([n], x => f(x + 1))", "if n == 0 then true else some([n], x => f(x - 1))", "true");
    add("group_by-callback", 4, "group_by([n], x => f(x + 1))", "if n == 0 then \"k\" else keys(group_by([n], x => f(x - 1)))[0]", "\"k\"");
    // the recursive call as an operand of a logical operator: each operand is evaluated once
    add("logical-left-operand", 1, "(f(n + 1) and true)", "if n == 0 then true else (f(n - 1) and n > 0)", "true");
    add("logical-right-operand", 1, "(true && f(n + 1))", "if n == 0 then true else (n > 0 || false) && f(n - 1)", "true");
    add("coalesce-operand", 1, "(f(n + 1) ?? 0)", "if n == 0 then 0 else (f(n - 1) ?? 7) + 1", "300.0");
    // two recursive calls side by side: the first failure ends the evaluation, the second operand / argument / item is never started
    add("two-operands", 1, "f(n + 1) + f(n + 2)", "if n == 0 then 0 else 1 + f(n - 1) + 0 * f(0)", "300.0");
    add("two-compared", 1, "f(n + 1) == f(n + 2)", "if n == 0 then true else f(n - 1) == f(0)", "true");
    add("two-logical", 1, "(f(n + 1) and f(n + 2))", "if n == 0 then true else (f(n - 1) and f(0))", "true");
    add("two-coalesced", 1, "(f(n + 1) ?? f(n + 2))", "if n == 0 then 0 else 1 + (f(n - 1) ?? f(0))", "300.0");
    add("two-arguments", 1, "max(f(n + 1), f(n + 2))", "if n == 0 then 0 else max(1 + f(n - 1), f(0))", "300.0");
    add("two-items", 1, "[f(n + 1), f(n + 2)][0]", "if n == 0 then 0 else [1 + f(n - 1), f(0)][0]", "300.0");
    add("two-entries", 1, "{a: f(n + 1), b: f(n + 2)}.a", "if n == 0 then 0 else {a: 1 + f(n - 1), b: f(0)}.a", "300.0");
    add("list-literal", 1, "[f(n + 1)][0]", "if n == 0 then 0 else [1 + f(n - 1)][0]", "300.0");
    add("record-literal", 1, "{k: f(n + 1)}.k", "if n == 0 then 0 else {k: 1 + f(n - 1)}.k", "300.0");
    add("argument-position", 1, "max(f(n + 1), 0)", "if n == 0 then 0 else max(1 + f(n - 1), 0)", "300.0");
    let ks: &[usize] = if thorough { &[1, 2, 4, 8, 12, 16, 24, 32] } else { &[2, 8, 16, 32] };
    for k in ks {
        add(&format!("nested-operators-{k}"), 1, &nest(*k, "(1 + ", ")", "f(n + 1)"), &format!("if n == 0 then 0 else {}", nest(*k, "(0 + ", ")", "(1 + f(n - 1))")), "300.0");
        add(&format!("nested-lists-{k}"), 1, &format!("{}{}", nest(*k, "[", "]", "f(n + 1)"), "[0]".repeat(*k)), &format!("if n == 0 then 0 else {}{}", nest(*k, "[", "]", "1 + f(n - 1)"), "[0]".repeat(*k)), "300.0");
        add(&format!("nested-conditionals-{k}"), 1, &nest(*k, "(if n < 0 then 0 else ", ")", "f(n + 1)"), &format!("if n == 0 then 0 else {}", nest(*k, "(if n < 0 then 0 else ", ")", "1 + f(n - 1)")), "300.0");
    }
    // mutual recursion: two names
    v.push(Shape { name: "mutual".into(), inc: 1, defs: String::new(),
        runaway: "a = n => b(n + 1)\nb = n => a(n + 1)\na(0)".into(),
        finite: "a = n => if n == 0 then 0 else 1 + b(n - 1)\nb = n => if n == 0 then 0 else 1 + a(n - 1)\noutput r = a(300)".into(),
        finite_value: "300.0".into(), fnames: vec!["a", "b"] });
    v.push(Shape { name: "mutual-operators".into(), inc: 1, defs: String::new(),
        runaway: "a = n => ((n + 1) via b)\nb = n => ((n + 1) into a)\na(0)".into(),
        finite: "a = n => if n == 0 then 0 else 1 + ((n - 1) via b)\nb = n => if n == 0 then 0 else 1 + ((n - 1) into a)\noutput r = a(300)".into(),
        finite_value: "300.0".into(), fnames: vec!["a", "b"] });
    v
}

/// the same program through `blots -e`, the program arriving on standard input
fn run_cli_stdin(cli: &str, prog: &str) -> (Option<i32>, String, String) {
    use std::io::Write;
    let child = Command::new("sh")
        .arg("-c")
        .arg("ulimit -s 8192; exec timeout 60 \"$0\" -e")
        .arg(cli)
        .stdin(Stdio::piped()).stdout(Stdio::piped()).stderr(Stdio::piped())
        .spawn();
    match child {
        Ok(mut c) => {
            let _ = c.stdin.take().unwrap().write_all(prog.as_bytes());
            match c.wait_with_output() {
                Ok(o) => {
                    use std::os::unix::process::ExitStatusExt;
                    let code = o.status.code().or_else(|| o.status.signal().map(|s| 128 + s));
                    (code, String::from_utf8_lossy(&o.stdout).to_string(), String::from_utf8_lossy(&o.stderr).to_string())
                }
                Err(e) => (None, String::new(), format!("wait: {e}")),
            }
        }
        Err(e) => (None, String::new(), format!("spawn: {e}")),
    }
}

fn run_cli(cli: &str, prog: &str) -> (Option<i32>, String, String) {
    // default main-thread stack of 8 MiB, whatever the calling shell has
    let o = Command::new("sh")
        .arg("-c")
        .arg("ulimit -s 8192; exec timeout 60 \"$0\" \"$1\"")
        .arg(cli)
        .arg(prog)
        .stdin(Stdio::null())
        .output();
    match o {
        Ok(o) => {
            use std::os::unix::process::ExitStatusExt;
            let code = o.status.code().or_else(|| o.status.signal().map(|s| 128 + s));
            (code, String::from_utf8_lossy(&o.stdout).to_string(), String::from_utf8_lossy(&o.stderr).to_string())
        }
        Err(e) => (None, String::new(), format!("spawn: {e}")),
    }
}

/// in-process measurement on a big stack with the call hook: entry depths and stack positions of the recursive calls
fn measure(shape: &Shape) -> J {
    let prog = shape.runaway.clone();
    let fnames: Vec<String> = shape.fnames.iter().map(|f| format!("function \"{}\"", f)).collect();
    let h = std::thread::Builder::new().stack_size(2 << 30).spawn(move || {
        let s = Session::new();
        callhooks::start();
        let outs = s.run(&prog, true);
        let calls = callhooks::take();
        let msg = outs.last().map(|o| o.msg()).unwrap_or_default();
        (calls, msg)
    }).unwrap();
    match h.join() {
        Ok((calls, msg)) => {
            let rec: Vec<&callhooks::CallEvent> = calls.iter().filter(|c| fnames.contains(&c.name)).collect();
            let depths: Vec<usize> = rec.iter().map(|c| c.depth).collect();
            let per_level = if rec.len() > 10 {
                let a = rec[2].sp as i128;
                let b = rec[rec.len() - 1].sp as i128;
                ((a - b).unsigned_abs() as usize) / (rec.len() - 3)
            } else { 0 };
            json!({"depths": depths, "bytes_per_level": per_level, "calls_total": calls.len(),
                   "guard": msg.contains("maximum call depth"), "msg": msg.chars().take(120).collect::<String>()})
        }
        Err(_) => json!({"depths": [], "bytes_per_level": 0, "guard": false, "msg": "harness thread died"}),
    }
}

/// entry point of the child process that measures one shape (its death is data for the parent)
pub fn measure_child(index: usize, thorough: bool) {
    let shs = shapes(thorough);
    println!("{}", measure(&shs[index]));
}

/// the measurement in a process of its own: code under test that exhausts the native stack kills only that process
fn measure_isolated(index: usize, thorough: bool) -> J {
    let exe = std::env::current_exe().expect("current_exe");
    let mut cmd = Command::new("timeout");
    cmd.arg("120").arg(exe).arg("measure").arg("c18").arg(index.to_string());
    if thorough { cmd.arg("--thorough"); }
    match cmd.stdin(Stdio::null()).stderr(Stdio::null()).output() {
        Ok(o) if o.status.success() => serde_json::from_slice(&o.stdout).unwrap_or(json!({"depths": [], "bytes_per_level": 0, "guard": false, "msg": "unreadable measurement"})),
        Ok(o) => {
            use std::os::unix::process::ExitStatusExt;
            json!({"depths": [], "bytes_per_level": 0, "calls_total": 0, "guard": false, "crashed": true,
                   "msg": format!("measurement process died (exit {:?}, signal {:?}) while running the runaway program in process", o.status.code(), o.status.signal())})
        }
        Err(e) => json!({"depths": [], "bytes_per_level": 0, "guard": false, "msg": format!("spawn: {e}")}),
    }
}

pub fn record(cli: &str, thorough: bool) -> Vec<J> {
    let mut out = vec![];
    for (index, sh) in shapes(thorough).into_iter().enumerate() {
        let m = measure_isolated(index, thorough);
        let (rc, rout, rerr) = run_cli(cli, &sh.runaway);
        let (fc, fout, _ferr) = run_cli(cli, &sh.finite);
        let finite_ok = fc == Some(0) && fout.trim() == format!("{{\"r\":{}}}", sh.finite_value);
        let (ec, eout, eerr) = run_cli_stdin(cli, &sh.runaway);
        let (efc, efout, _) = run_cli_stdin(cli, &sh.finite);
        out.push(json!({"ev":"shape","shape":sh.name,"inc":sh.inc,"measure":m,
            "runaway": {"exit": rc, "depth_error": rout.contains("maximum call depth") || rerr.contains("maximum call depth"),
                        "report": format!("{} {}", rout.chars().take(160).collect::<String>(), rerr.chars().take(160).collect::<String>())},
            "finite": {"exit": fc, "ok": finite_ok, "stdout": fout.chars().take(80).collect::<String>()},
            "stdin_mode": {"runaway_exit": ec, "runaway_depth_error": eout.contains("maximum call depth") || eerr.contains("maximum call depth"),
                           "finite_exit": efc, "finite_ok": efc == Some(0) && efout.trim() == format!("{{\"r\":{}}}", sh.finite_value)},
            "runaway_src": sh.runaway, "finite_src": sh.finite}));
    }
    out
}
