//! C02 - evaluation is deterministic and has no effect on values.
use crate::c04::{proj_outcome, same};
use crate::core;
use crate::ev::{Outcome, Session};
use crate::mv;
use crate::rng::Rng;
use blots_core::heap::HeapValue;
use serde_json::{Value as J, json};
use std::hash::{Hash, Hasher};

fn concrete(o: &Outcome, s: &Session) -> J {
    match o {
        Outcome::Ok(v) => json!({"ok": mv::concrete_of_value(v, &s.heap.borrow())}),
        Outcome::Err(_) => json!("err"),
        Outcome::ParseErr(_) => json!("parse"),
        Outcome::Panic(m) => json!({"panic": m}),
    }
}

fn noise(s: &Session, k: u64) {
    for src in ["zz1 = [3, 1, 2]", "zz2 = sort(zz1)", "zz3 = {a: 1, b: [1, 2]}", "zz4 = x => x * 2", "zz1 via zz4", "zz5 = \"some text\"", "split(zz5, \" \")"] {
        let _ = s.eval(src);
    }
    let _ = s.eval(&format!("zz6 = range({})", 10 + k % 7));
}

pub fn run_cli(cli: &str, script: &str) -> String {
    let o = std::process::Command::new("timeout")
        .arg("20")
        .arg(cli)
        .arg(script)
        .stdin(std::process::Stdio::null())
        .output();
    match o {
        Ok(o) => format!("exit={:?} stdout={}", o.status.code(), String::from_utf8_lossy(&o.stdout).trim()),
        Err(e) => format!("spawn error {e}"),
    }
}

pub fn replay(case: &J, setup: &J, cli: Option<&str>) -> J {
    let mut mism = vec![];
    let mut evals = 0;
    let setup_src: Vec<String> = setup.as_array().unwrap().iter().map(core::render).collect();
    let fresh = |with_noise: bool| -> Session {
        let s = Session::new();
        if with_noise { noise(&s, 3); }
        for st in &setup_src { let _ = s.eval(st); }
        s
    };
    let prog = core::render(&case["prog"]);
    let sa = fresh(false);
    let oa = sa.eval(&prog);
    let va = concrete(&oa, &sa);
    evals += 1;
    if !same(&case["exp"], &proj_outcome(&oa, &sa)) {
        mism.push(json!({"what":"model","src":prog,"exp":case["exp"],"obs":proj_outcome(&oa, &sa)}));
    }
    // evaluated twice in one expression
    let twice = format!("[{}, {}]", prog, prog);
    let vt = concrete(&sa.eval(&twice), &sa);
    evals += 1;
    if let Some(v) = va.get("ok") {
        if vt != json!({"ok": {"l": [v, v]}}) { mism.push(json!({"what":"twice","src":twice,"exp":va,"obs":vt})); }
    }
    // let-abstraction of the sub-expression
    if case["abstractable"] == true {
        let sb = fresh(false);
        for st in case["pre"].as_array().unwrap() { let _ = sb.eval(&core::render(st)); }
        let abs = core::render(&case["abs"]);
        let vb = concrete(&sb.eval(&abs), &sb);
        evals += 1;
        if vb != va { mism.push(json!({"what":"let-abstraction","src":format!("{} ; {}", case["pre"].as_array().unwrap().iter().map(core::render).collect::<Vec<_>>().join(" ; "), abs),"exp":va,"obs":vb})); }
    }
    // same program after unrelated evaluations, and again
    for _ in 0..2 {
        let sc = fresh(true);
        let vc = concrete(&sc.eval(&prog), &sc);
        evals += 1;
        if vc != va { mism.push(json!({"what":"rerun","src":prog,"exp":va,"obs":vc})); }
    }
    // separate processes (fresh hash seeds)
    if let Some(c) = cli {
        let script = format!("{}\noutput r = {}", setup_src.join("\n"), prog);
        let first = run_cli(c, &script);
        for _ in 0..2 {
            let again = run_cli(c, &script);
            evals += 1;
            if again != first { mism.push(json!({"what":"process","src":script,"exp":first,"obs":again})); }
        }
    }
    crate::ev::clear_stats();
    json!({"evals": evals, "mismatches": mism})
}

// ---------------------------------------------------------------- impl -> spec
fn digest<T: Hash>(t: &T) -> String {
    let mut h = std::collections::hash_map::DefaultHasher::new();
    t.hash(&mut h);
    format!("{:016x}", h.finish())
}

/// (content digest, name) per heap cell; a lambda's name is kept apart from its content
fn heap_digests(s: &Session) -> Vec<(String, String)> {
    let heap = s.heap.borrow();
    let mut v = vec![];
    let mut i = 0;
    while let Some(cell) = heap.get(i) {
        let (content, name) = match cell {
            HeapValue::Lambda(l) => {
                let mut scope: Vec<String> = l.scope.iter().map(|(k, v)| format!("{k}={:?}", v)).collect();
                scope.sort();
                (format!("lambda {:?} {:?} {:?}", l.args, l.body, scope), format!("{:?}", l.name))
            }
            other => (format!("{:?}", other), String::new()),
        };
        v.push((digest(&content), name));
        i += 1;
    }
    v
}

pub fn record(seed: u64, n: usize, cli: Option<&str>) -> Vec<J> {
    let mut r = Rng::new(seed);
    let mut out = vec![];
    // programs: random sessions in the statement vocabulary of C03, calls of C14, broadcasts of C11
    let c14 = crate::c14::record(seed + 1, n);
    let c11 = crate::c11::record(seed + 2, n);
    let c03 = crate::c03::record(seed + 3, n * 3);
    let mut programs: Vec<Vec<String>> = vec![];
    let mut cur: Vec<String> = vec![];
    for e in &c03 {
        if e["ev"] == "reset" { if !cur.is_empty() { programs.push(std::mem::take(&mut cur)); } }
        else { cur.push(e["src"].as_str().unwrap().to_string()); }
    }
    if !cur.is_empty() { programs.push(cur); }
    for e in c14.iter().chain(c11.iter()) {
        if let Some(src) = e["src"].as_str() { if !src.contains("==?") { programs.push(vec![format!("r = {}", src)]); } }
    }
    for (pi, prog) in programs.iter().enumerate() {
        // run 1 with heap digests per statement
        let s1 = Session::new();
        let mut obs1 = vec![];
        for st in prog {
            let before = heap_digests(&s1);
            let o = s1.eval(st);
            let after = heap_digests(&s1);
            obs1.push(concrete(&o, &s1).to_string());
            let mut changed = vec![];
            let mut renamed = vec![];
            for (i, b) in before.iter().enumerate() {
                if after[i].0 != b.0 { changed.push(i); } else if after[i].1 != b.1 { renamed.push(i); }
            }
            if r.chance(1, 3) || !changed.is_empty() || renamed.len() > 1 {
                out.push(json!({"ev":"heap","src":st,"cells_before":before.len(),"cells_after":after.len(),"changed":changed,"renamed":renamed,
                                "is_assignment": st.contains(" = ")}));
            }
        }
        // run 2: after unrelated evaluations in the same process
        let s2 = Session::new();
        noise(&s2, pi as u64);
        let obs2: Vec<String> = prog.iter().map(|st| concrete(&s2.eval(st), &s2).to_string()).collect();
        let mut runs = vec![json!(obs1), json!(obs2)];
        // runs 3..: separate processes through the CLI (outputs of every bound name)
        if let Some(c) = cli {
            if pi % 4 == 0 {
                let script = prog.join("\n");
                for _ in 0..3 { runs.push(json!([run_cli(c, &script)])); }
            }
        }
        out.push(json!({"ev":"runs","src":prog.join(" ; "),"inproc":[runs[0], runs[1]],"procs": runs[2..].to_vec()}));
        crate::ev::clear_stats();
    }
    out
}
