//! C02 - evaluation is deterministic and has no effect on values.
use crate::c04::{proj_outcome, same};
use crate::core;
use crate::ev::{Outcome, Session};
use crate::mv;
use crate::rng::Rng;
use blots_core::functions::BuiltInFunction;
use blots_core::heap::HeapValue;
use serde_json::{Value as J, json};
use std::hash::{Hash, Hasher};

fn concrete(o: &Outcome, s: &Session) -> J {
    match o {
        Outcome::Ok(v) => json!({"ok": mv::concrete_of_value(v, &s.heap.borrow())}),
        Outcome::Err(_) => json!("err"),
        Outcome::ParseErr(_) => json!("parse"),
        Outcome::Panic(m) => json!({"panic": m}),
    }
}

fn noise(s: &Session, k: u64) {
    for src in ["zz1 = [3, 1, 2]", "zz2 = sort(zz1)", "zz3 = {a: 1, b: [1, 2]}", "zz4 = x => x * 2", "zz1 via zz4", "zz5 = \"some text\"", "split(zz5, \" \")"] {
        let _ = s.eval(src);
    }
    let _ = s.eval(&format!("zz6 = range({})", 10 + k % 7));
}

pub fn run_cli(cli: &str, script: &str) -> String {
    let o = std::process::Command::new("timeout")
        .arg("20")
        .arg(cli)
        .arg(script)
        .stdin(std::process::Stdio::null())
        .output();
    match o {
        Ok(o) => format!("exit={:?} stdout={}", o.status.code(), String::from_utf8_lossy(&o.stdout).trim()),
        Err(e) => format!("spawn error {e}"),
    }
}

pub fn replay(case: &J, setup: &J, cli: Option<&str>) -> J {
    let mut mism = vec![];
    let mut evals = 0;
    let setup_src: Vec<String> = setup.as_array().unwrap().iter().map(core::render).collect();
    let fresh = |with_noise: bool| -> Session {
        let s = Session::new();
        if with_noise { noise(&s, 3); }
        for st in &setup_src { let _ = s.eval(st); }
        s
    };
    let prog = core::render(&case["prog"]);
    let sa = fresh(false);
    let oa = sa.eval(&prog);
    let va = concrete(&oa, &sa);
    evals += 1;
    if !same(&case["exp"], &proj_outcome(&oa, &sa)) {
        mism.push(json!({"what":"model","src":prog,"exp":case["exp"],"obs":proj_outcome(&oa, &sa)}));
    }
    // evaluated twice in one expression
    let twice = format!("[{}, {}]", prog, prog);
    let vt = concrete(&sa.eval(&twice), &sa);
    evals += 1;
    if let Some(v) = va.get("ok") {
        if vt != json!({"ok": {"l": [v, v]}}) { mism.push(json!({"what":"twice","src":twice,"exp":va,"obs":vt})); }
    }
    // let-abstraction of the sub-expression
    if case["abstractable"] == true {
        let sb = fresh(false);
        for st in case["pre"].as_array().unwrap() { let _ = sb.eval(&core::render(st)); }
        let abs = core::render(&case["abs"]);
        let vb = concrete(&sb.eval(&abs), &sb);
        evals += 1;
        if vb != va { mism.push(json!({"what":"let-abstraction","src":format!("{} ; {}", case["pre"].as_array().unwrap().iter().map(core::render).collect::<Vec<_>>().join(" ; "), abs),"exp":va,"obs":vb})); }
    }
    // same program after unrelated evaluations, and again
    for _ in 0..2 {
        let sc = fresh(true);
        let vc = concrete(&sc.eval(&prog), &sc);
        evals += 1;
        if vc != va { mism.push(json!({"what":"rerun","src":prog,"exp":va,"obs":vc})); }
    }
    // separate processes (fresh hash seeds)
    if let Some(c) = cli {
        let script = format!("{}\noutput r = {}", setup_src.join("\n"), prog);
        let first = run_cli(c, &script);
        for _ in 0..2 {
            let again = run_cli(c, &script);
            evals += 1;
            if again != first { mism.push(json!({"what":"process","src":script,"exp":first,"obs":again})); }
        }
    }
    crate::ev::clear_stats();
    json!({"evals": evals, "mismatches": mism})
}

// ---------------------------------------------------------------- impl -> spec
fn digest<T: Hash>(t: &T) -> String {
    let mut h = std::collections::hash_map::DefaultHasher::new();
    t.hash(&mut h);
    format!("{:016x}", h.finish())
}

/// (content digest, name) per heap cell; a lambda's name is kept apart from its content
fn heap_digests(s: &Session) -> Vec<(String, String)> {
    let heap = s.heap.borrow();
    let mut v = vec![];
    let mut i = 0;
    while let Some(cell) = heap.get(i) {
        let (content, name) = match cell {
            HeapValue::Lambda(l) => {
                let mut scope: Vec<String> = l.scope.iter().map(|(k, v)| format!("{k}={:?}", v)).collect();
                scope.sort();
                (format!("lambda {:?} {:?} {:?}", l.args, l.body, scope), format!("{:?}", l.name))
            }
            other => (format!("{:?}", other), String::new()),
        };
        v.push((digest(&content), name));
        i += 1;
    }
    v
}

/// outputs of a script run by the real CLI, as a JSON object (None when the run failed)
fn cli_outputs(cli: &str, script: &str, tag: &str) -> Option<serde_json::Map<String, J>> {
    let path = std::env::temp_dir().join(format!("bvh_c02_{}_{}.blots", std::process::id(), tag));
    std::fs::write(&path, script).ok()?;
    let o = std::process::Command::new("timeout").arg("120").arg(cli).arg(&path).stdin(std::process::Stdio::null()).output().ok()?;
    let _ = std::fs::remove_file(&path);
    if !o.status.success() { return None; }
    serde_json::from_slice::<J>(&o.stdout).ok()?.as_object().cloned()
}

/// "perm" events: statements that do not depend on each other, evaluated in two different orders, must give the same
/// value each - in one process (fresh sessions) and in two processes of the real CLI (where any process-wide state
/// left by one evaluation would meet the others in a different order).
fn permutation_events(seed: u64, thorough: bool, cli: Option<&str>) -> Vec<J> {
    let mut r = Rng::new(seed ^ 0x51ED);
    let mut out = vec![];
    // (a) every spelling of every unit, converted to the first unit of its category
    let table = crate::c17::export();
    let mut stmts: Vec<String> = vec![];
    for u in table["units"].as_array().unwrap() {
        let cat = u["cat"].as_str().unwrap();
        let target = table["units"].as_array().unwrap().iter().find(|t| t["cat"] == cat).unwrap()["ids"][0].as_str().unwrap().to_string();
        for id in u["ids"].as_array().unwrap() {
            let id = id.as_str().unwrap();
            if id.contains('"') || id.contains('\\') { continue; }
            stmts.push(format!("convert(1, \"{}\", \"{}\")", id, target));
            if thorough || r.chance(1, 4) { stmts.push(format!("convert(2, \"{}\", \"{}\")", target, id)); }
        }
    }
    // (b) built-in calls of C14's pool
    for e in crate::c14::record(seed + 11, if thorough { 1500 } else { 300 }) {
        if let Some(src) = e["src"].as_str() { if !src.contains("==?") { stmts.push(src.to_string()); } }
    }
    // keep the statements that evaluate (a failing one would end a CLI script early)
    let stmts: Vec<String> = stmts.into_iter().filter(|st| Session::new().eval(st).is_ok()).collect();
    for chunk in stmts.chunks(400) {
        let fwd: Vec<(usize, &String)> = chunk.iter().enumerate().collect();
        let mut rev = fwd.clone();
        rev.reverse();
        let mut shuf = fwd.clone();
        for i in (1..shuf.len()).rev() { let j = r.below(i as u64 + 1) as usize; shuf.swap(i, j); }
        let run_inproc = |order: &Vec<(usize, &String)>| -> Vec<(usize, String)> {
            let s = Session::new();
            let mut v: Vec<(usize, String)> = order.iter().map(|(i, st)| (*i, concrete(&s.eval(st), &s).to_string())).collect();
            v.sort();
            v
        };
        let a = run_inproc(&fwd);
        let mut differing: Vec<J> = vec![];
        for (name, order) in [("reversed", &rev), ("shuffled", &shuf)] {
            let b = run_inproc(order);
            for (x, y) in a.iter().zip(b.iter()) { if x != y { differing.push(json!({"order": name, "where": "in-process", "src": chunk[x.0], "first": x.1, "other": y.1})); } }
        }
        if let Some(c) = cli {
            let script = |order: &Vec<(usize, &String)>| order.iter().map(|(i, st)| format!("output r{} = {}", i, st)).collect::<Vec<_>>().join("\n");
            let pa = cli_outputs(c, &script(&fwd), "f");
            for (name, order) in [("reversed", &rev), ("shuffled", &shuf)] {
                let pb = cli_outputs(c, &script(order), "r");
                match (&pa, &pb) {
                    (Some(x), Some(y)) => for (k, v) in x { if y.get(k) != Some(v) {
                        let i: usize = k[1..].parse().unwrap_or(0);
                        differing.push(json!({"order": name, "where": "processes", "src": chunk[i], "first": v, "other": y.get(k)}));
                    } },
                    _ => differing.push(json!({"order": name, "where": "processes", "src": "<whole script>", "first": pa.is_some(), "other": pb.is_some()})),
                }
            }
        }
        differing.truncate(6);
        out.push(json!({"ev":"perm","family":"independent expressions","src": format!("{} ... ({} statements)", chunk[0], chunk.len()), "n": chunk.len(), "differing": differing}));
    }
    // (c) independent definitions commute: heap values defined in either order, then used
    let defs: Vec<(&str, &str)> = vec![("t1", "{n: 2}"), ("t2", "{n: 1}"), ("t3", "[3, [1]]"), ("t4", "[1, {k: \"v\"}]"), ("t5", "\"b\""), ("t6", "\"a\""), ("t7", "x => x + 1"), ("t8", "(x, i?) => x"), ("t9", "{n: 1}"), ("t10", "null")];
    let names: Vec<String> = BuiltInFunction::all_names().iter().map(|s| s.to_string()).collect();
    let groups: Vec<Vec<&str>> = vec![vec!["t1", "t2", "t9"], vec!["t2", "t1"], vec!["t3", "t4"], vec!["t4", "t3", "t1"], vec!["t5", "t6"], vec!["t7", "t8"], vec!["t8", "t7", "t1"], vec!["t1", "t10", "t2"], vec!["t6", "t1", "t3", "t7"]];
    for g in &groups {
        let mut uses: Vec<String> = vec![];
        let l = format!("[{}]", g.join(", "));
        for n in &names {
            if ["time_now", "print", "random"].contains(&n.as_str()) { continue; }
            uses.push(format!("{n}({l})"));
            uses.push(format!("{n}({l}, t7)"));
            uses.push(format!("{n}({})", g.join(", ")));
            uses.push(format!("{n}({l}, x => x)"));
            uses.push(format!("{n}({l}, \"; \")"));
            uses.push(format!("{n}({l}, 1)"));
            uses.push(format!("to_string({n}({l}, \"; \")) == to_string({n}({l}, \"; \"))"));
        }
        uses.push(format!("{l} == {l}"));
        uses.push(format!("{{...{}}}", g[0]));
        let order_a: Vec<String> = defs.iter().map(|(n, e)| format!("{n} = {e}")).collect();
        let mut order_b = order_a.clone();
        order_b.reverse();
        let run = |order: &Vec<String>| -> Vec<String> {
            let s = Session::new();
            for d in order { let _ = s.eval(d); }
            uses.iter().map(|u| { let o = s.eval(u); concrete(&o, &s).to_string() }).collect()
        };
        let (a, b) = (run(&order_a), run(&order_b));
        let mut differing: Vec<J> = vec![];
        for (i, (x, y)) in a.iter().zip(b.iter()).enumerate() { if x != y { differing.push(json!({"order":"definitions reversed","where":"in-process","src": uses[i], "first": x, "other": y})); } }
        differing.truncate(6);
        out.push(json!({"ev":"perm","family":"independent definitions","src": format!("{l} through every built-in"), "n": uses.len(), "differing": differing}));
    }
    out
}

/// "runs" events through the CLI with JSON inputs holding records of many keys at several depths (also inside a function's
/// captured scope): everything that shows the order of the keys must come out the same in every process
fn input_order_events(cli: &str) -> Vec<J> {
    let inputs = r#"{"cfg": {"zeta": 1, "alpha": 2, "mid": 3, "k9": 4, "b": 5, "yy": 6, "c": 7, "omega": 8}, "rows": [{"q": 1, "a": 2, "m": 3, "z": 4, "e": 5}], "deep": {"inner": {"n": 1, "d": 2, "x": 3, "h": 4, "s": 5, "t": 6}}}"#;
    let progs = [
        // closures that captured several values each, compared and searched for (their captured scopes are hash maps of their own)
        "mk = (a, b, c) => (x => x * a + b - c)\np = mk(2, 3, 4)\nq = mk(2, 3, 4)\nw = mk(2, 3, 5)\noutput eq = [p == q, p != q, p == w, [p] == [q], includes([p], q), len(unique([p, q, w, p])), mk(1, 2, 3) == mk(1, 2, 3)]\noutput deq = (do { return p .== q })",
        "output k = keys(inputs.cfg)\noutput v = values(inputs.cfg)\noutput e = entries(inputs.cfg)",
        "output s = to_string(inputs.cfg)\noutput t = format(\"{}\", inputs.rows)",
        "output sp = [...inputs.deep.inner]\noutput m = {...inputs.cfg, extra: 1}\noutput first = keys(inputs.rows[0])[0]",
        "f = x => {...inputs.cfg, x}\noutput g = keys(f(1))\noutput whole = inputs",
    ];
    let mut out = vec![];
    for prog in progs {
        let run = || {
            let o = std::process::Command::new("timeout").arg("20").arg(cli).arg("-i").arg(inputs).arg(prog).stdin(std::process::Stdio::null()).output();
            match o { Ok(o) => format!("exit={:?} stdout={}", o.status.code(), String::from_utf8_lossy(&o.stdout).trim()), Err(e) => format!("spawn error {e}") }
        };
        let runs: Vec<J> = (0..10).map(|_| json!([run()])).collect();
        out.push(json!({"ev":"runs","src":format!("-i <records of 5..8 keys> ; {}", prog.replace('\n', " ; ")),"inproc":[runs[0], runs[0]],"procs":runs}));
    }
    out
}

pub fn record(seed: u64, n: usize, cli: Option<&str>) -> Vec<J> {
    let mut r = Rng::new(seed);
    let mut out = permutation_events(seed, n > 500, cli);
    if let Some(c) = cli { out.extend(input_order_events(c)); }
    // programs: random sessions in the statement vocabulary of C03, calls of C14, broadcasts of C11
    let c14 = crate::c14::record(seed + 1, n);
    let c11 = crate::c11::record(seed + 2, n);
    let c03 = crate::c03::record(seed + 3, n * 3);
    let mut programs: Vec<Vec<String>> = vec![];
    let mut cur: Vec<String> = vec![];
    for e in &c03 {
        if e["ev"] == "reset" { if !cur.is_empty() { programs.push(std::mem::take(&mut cur)); } }
        else { cur.push(e["src"].as_str().unwrap().to_string()); }
    }
    if !cur.is_empty() { programs.push(cur); }
    // grammar-directed whole programs over the full expression language
    let mut gr = Rng::new(seed ^ 0xABCD);
    let whole_from = programs.len();
    for _ in 0..n { programs.push(vec![crate::proggen::program(&mut gr)]); }
    let whole_to = programs.len();
    for e in c14.iter().chain(c11.iter()) {
        if let Some(src) = e["src"].as_str() { if !src.contains("==?") { programs.push(vec![format!("r = {}", src)]); } }
    }
    // every built-in applied to values that are bound to names beforehand: no heap cell that existed before the call may
    // change (a built-in that sorts, reverses or extends its argument in place shows here, on the unsorted ones)
    {
        let defs = ["u1 = [3, 1, 2]", "u2 = [\"b\", \"c\", \"a\"]", "u3 = {z: 1, a: [2, 1]}", "u4 = [[2, 1], [1, 2], [0]]", "u5 = \"cba\"", "u6 = x => 0 - x", "u7 = (a, b) => b - a",
                    "u8 = [{k: 2, v: [9, 8]}, {k: 1, v: [7]}, {k: 2, v: []}]", "u9 = [3, 1, 2, 1, 3]"];
        let mut prog: Vec<String> = defs.iter().map(|d| d.to_string()).collect();
        for n in BuiltInFunction::all_names() {
            if ["time_now", "print", "random"].contains(&n) { continue; }
            for l in ["u1", "u2", "u4", "u8", "u9"] {
                prog.push(format!("{n}({l})"));
                prog.push(format!("{n}({l}, u6)"));
                prog.push(format!("{n}({l}, u7)"));
                prog.push(format!("{n}({l}, 1)"));
                prog.push(format!("{n}({l}, \"-\")"));
                prog.push(format!("{n}({l}, x => x.k)"));
                prog.push(format!("{n}({l}, u7, 0)"));
            }
            prog.push(format!("{n}(u3)"));
            prog.push(format!("{n}(u5)"));
            prog.push(format!("{n}(u1, u9)"));
            prog.push(format!("{n}(u3, \"a\")"));
        }
        // string concatenation whose left operand is the newest value on the heap and already has a name
        prog.extend(["w1 = \"foo\" + u5", "w2 = w1 + u5", "w3 = w2 + w2", "w1", "w4 = u2 + u2", "w5 = w4 + u2", "w4"].iter().map(|s| s.to_string()));
        prog.extend(["u1 via u6", "u9 where (x => x > 1)", "u1 into sort", "[...u1, ...u9]", "{...u3, b: 1}", "u1 + u1", "u4[0]"].iter().map(|s| s.to_string()));
        programs.push(prog);
    }
    for (pi, prog) in programs.iter().enumerate() {
        // run 1 with heap digests per statement
        let s1 = Session::new();
        let mut obs1 = vec![];
        for st in prog {
            let before = heap_digests(&s1);
            let o = s1.eval(st);
            let after = heap_digests(&s1);
            obs1.push(concrete(&o, &s1).to_string());
            let mut changed = vec![];
            let mut renamed = vec![];
            let mut renamed_named: Vec<usize> = vec![];
            for (i, b) in before.iter().enumerate() {
                if after[i].0 != b.0 { changed.push(i); } else if after[i].1 != b.1 { renamed.push(i); if b.1 != "None" { renamed_named.push(i); } }
            }
            // a whole multi-statement program may name several functions: only content changes are reported for those
            if pi >= whole_from && pi < whole_to { renamed.clear(); renamed_named.clear(); }
            if r.chance(1, 3) || !changed.is_empty() || renamed.len() > 1 {
                out.push(json!({"ev":"heap","src":st,"cells_before":before.len(),"cells_after":after.len(),"changed":changed,"renamed":renamed,"renamed_named":renamed_named,
                                "is_assignment": st.contains(" = ")}));
            }
        }
        // run 2: after unrelated evaluations in the same process
        let s2 = Session::new();
        noise(&s2, pi as u64);
        let obs2: Vec<String> = prog.iter().map(|st| concrete(&s2.eval(st), &s2).to_string()).collect();
        let mut runs = vec![json!(obs1), json!(obs2)];
        // runs 3..: separate processes through the CLI (outputs of every bound name)
        if let Some(c) = cli {
            if pi % 4 == 0 {
                let script = prog.join("\n");
                for _ in 0..3 { runs.push(json!([run_cli(c, &script)])); }
            }
        }
        out.push(json!({"ev":"runs","src":prog.join(" ; "),"inproc":[runs[0], runs[1]],"procs": runs[2..].to_vec()}));
        crate::ev::clear_stats();
    }
    out
}
