//! Executing the real blots-core code and projecting what happened.
//! Panics are data: every call into blots is wrapped in catch_unwind and reported as `Panic`.

use blots_core::ast::SpannedExpr;
use blots_core::environment::Environment;
use blots_core::expressions::{evaluate_ast, evaluate_pairs};
use blots_core::heap::Heap;
use blots_core::parser::{Rule, get_pairs};
use blots_core::values::{SerializableValue, Value};
use indexmap::IndexMap;
use std::cell::RefCell;
use std::panic::{AssertUnwindSafe, catch_unwind};
use std::rc::Rc;

#[derive(Debug, Clone)]
pub enum Outcome {
    Ok(Value),
    Err(String),
    ParseErr(String),
    Panic(String),
}

impl Outcome {
    pub fn class(&self) -> &'static str {
        match self {
            Outcome::Ok(_) => "ok",
            Outcome::Err(_) => "err",
            Outcome::ParseErr(_) => "parse",
            Outcome::Panic(_) => "panic",
        }
    }
    pub fn is_ok(&self) -> bool {
        matches!(self, Outcome::Ok(_))
    }
    pub fn msg(&self) -> String {
        match self {
            Outcome::Ok(_) => String::new(),
            Outcome::Err(m) | Outcome::ParseErr(m) | Outcome::Panic(m) => m.clone(),
        }
    }
}

pub fn panic_msg(p: Box<dyn std::any::Any + Send>) -> String {
    if let Some(s) = p.downcast_ref::<&str>() {
        s.to_string()
    } else if let Some(s) = p.downcast_ref::<String>() {
        s.clone()
    } else {
        "panic".into()
    }
}

pub fn quiet_panics() {
    std::panic::set_hook(Box::new(|_| {}));
}

pub struct Session {
    pub heap: Rc<RefCell<Heap>>,
    pub env: Rc<Environment>,
}

impl Session {
    /// Like the CLI: a fresh heap, a root environment with `inputs` bound to a record.
    pub fn new() -> Session {
        Session::with_inputs(IndexMap::new())
    }

    pub fn with_inputs(inputs: IndexMap<String, SerializableValue>) -> Session {
        let heap = Rc::new(RefCell::new(Heap::new()));
        let env = Rc::new(Environment::new());
        let mut m: IndexMap<String, Value> = IndexMap::new();
        for (k, v) in inputs {
            if let Ok(val) = v.to_value(&mut heap.borrow_mut()) {
                m.insert(k, val);
            }
        }
        let rec = heap.borrow_mut().insert_record(m);
        env.insert("inputs".to_string(), rec);
        Session { heap, env }
    }

    /// Evaluate a source text statement by statement (as the CLI / REPL do); returns one outcome per
    /// statement; stops after the first failure when `stop_on_error`.
    pub fn run(&self, source: &str, stop_on_error: bool) -> Vec<Outcome> {
        let mut out = vec![];
        let pairs = match catch_unwind(AssertUnwindSafe(|| get_pairs(source))) {
            Ok(Ok(p)) => p,
            Ok(Err(e)) => return vec![Outcome::ParseErr(e.to_string())],
            Err(p) => return vec![Outcome::Panic(panic_msg(p))],
        };
        for pair in pairs {
            if pair.as_rule() != Rule::statement { continue; }
            let inner = match pair.into_inner().next() { Some(i) => i, None => continue };
            match inner.as_rule() {
                Rule::expression | Rule::output_declaration => {
                    // the entry point the CLI, the REPL and the WASM binding use for one statement
                    let r = catch_unwind(AssertUnwindSafe(|| {
                        evaluate_pairs(inner.into_inner(), Rc::clone(&self.heap), Rc::clone(&self.env), 0, source)
                    }));
                    let o = match r {
                        Ok(Ok(v)) => Outcome::Ok(v),
                        Ok(Err(e)) => Outcome::Err(e.message.clone()),
                        Err(p) => Outcome::Panic(panic_msg(p)),
                    };
                    let failed = !o.is_ok();
                    out.push(o);
                    if failed && stop_on_error { break; }
                }
                _ => {}
            }
        }
        out
    }

    pub fn eval_ast(&self, e: &SpannedExpr, src: Rc<str>) -> Outcome {
        let r = catch_unwind(AssertUnwindSafe(|| {
            evaluate_ast(e, Rc::clone(&self.heap), Rc::clone(&self.env), 0, src)
        }));
        match r {
            Ok(Ok(v)) => Outcome::Ok(v),
            Ok(Err(e)) => Outcome::Err(e.message.clone()),
            Err(p) => Outcome::Panic(panic_msg(p)),
        }
    }

    /// Evaluate a single-expression source; the last statement's outcome.
    pub fn eval(&self, source: &str) -> Outcome {
        let mut v = self.run(source, true);
        v.pop().unwrap_or(Outcome::Err("no statement".into()))
    }
}

/// One-shot evaluation in a fresh session.
pub fn eval_fresh(source: &str) -> (Session, Outcome) {
    let s = Session::new();
    let o = s.eval(source);
    (s, o)
}

pub fn clear_stats() {
    blots_core::functions::clear_function_call_stats();
}
