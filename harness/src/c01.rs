//! C01 - no input crashes the parse / evaluate / serialise / format pipeline.
//! Every stage is run under catch_unwind and logged as one event of the Pipeline machine (spec/Pipeline.tla).
use crate::rng::Rng;
use crate::wasm_driver;
use blots_core::ast::SpannedExpr;
use blots_core::environment::Environment;
use blots_core::error::RuntimeError;
use blots_core::expressions::{evaluate_ast, pairs_to_expr, validate_portable_value};
use blots_core::heap::Heap;
use blots_core::parser::{Rule, get_pairs};
use blots_core::values::{SerializableValue, Value};
use indexmap::IndexMap;
use pest::error::InputLocation;
use serde_json::{Value as J, json};
use std::cell::RefCell;
use std::panic::{AssertUnwindSafe, catch_unwind};
use std::rc::Rc;

pub const POOL: &[&str] = &[
    "0/0", "inf", "-1", "0.5", "9007199254740992", "1e30", "\"\"", "\"é😀\"", "[]", "[1, [2], \"a\", null, 0/0]", "{a: 1}",
    "((a?, b) => [a, b])", "-inf", "-0", "{}", "(x => x)", "sum", "null", "true",
    "[3, \"b\", [1], null, 2, {}, true, 1, \"a\", 0/0, 7, [2], \"c\", 9, false, 4, [0], 5, \"d\", 6, null, 8, {k: 1}, 10, \"e\", 11, 12, [3], 13, 14]",
    "\"a b c\"", "1",
];

fn ev(stage: &str, outcome: &str) -> J {
    json!({"ev":"stage","stage":stage,"outcome":outcome,"located":false,"start":0,"end":0,"textlen":0,"boundary_ok":true})
}

fn located(stage: &str, start: usize, end: usize, text: &str) -> J {
    json!({"ev":"stage","stage":stage,"outcome":"err","located":true,"start":start,"end":end,"textlen":text.len(),
           "boundary_ok": start <= text.len() && end <= text.len() && text.is_char_boundary(start.min(text.len())) && text.is_char_boundary(end.min(text.len()))})
}

fn guarded<T>(f: impl FnOnce() -> T) -> Result<T, String> {
    catch_unwind(AssertUnwindSafe(f)).map_err(crate::ev::panic_msg)
}

fn runtime_error_event(stage: &str, e: &RuntimeError, out: &mut Vec<J>) {
    match (&e.span, &e.source) {
        (Some(sp), Some(src)) => out.push(located(stage, sp.start_byte, sp.end_byte, src)),
        _ => out.push(ev(stage, "err")),
    }
    // the error report as text (ariadne)
    match guarded(|| format!("{}", e)) {
        Ok(_) => out.push(ev("errordisplay", "ok")),
        Err(m) => out.push(json!({"ev":"stage","stage":"errordisplay","outcome":"panic","msg":m,"located":false,"start":0,"end":0,"textlen":0,"boundary_ok":true})),
    }
}

fn panic_event(stage: &str, m: String) -> J {
    json!({"ev":"stage","stage":stage,"outcome":"panic","msg":m.chars().take(200).collect::<String>(),"located":false,"start":0,"end":0,"textlen":0,"boundary_ok":true})
}

/// the whole pipeline on one source text (and optional JSON inputs), as a list of stage events
pub fn pipeline(text: &str, inputs: Option<&str>) -> Vec<J> {
    let mut out = vec![json!({"ev":"reset"})];
    let heap = Rc::new(RefCell::new(Heap::new()));
    let env = Rc::new(Environment::new());
    // inputs: JSON text -> values (what the CLI does with --input)
    let mut inputs_map: IndexMap<String, Value> = IndexMap::new();
    if let Some(jt) = inputs {
        let r = guarded(|| {
            if let Ok(serde_json::Value::Object(obj)) = serde_json::from_str::<serde_json::Value>(jt) {
                for (k, v) in obj.iter() {
                    if let Ok(val) = SerializableValue::from_json(v).to_value(&mut heap.borrow_mut()) { inputs_map.insert(k.clone(), val); }
                }
            }
        });
        out.push(match r { Ok(()) => ev("render", "ok"), Err(m) => panic_event("render", m) });
    }
    let rec = heap.borrow_mut().insert_record(inputs_map);
    env.insert("inputs".to_string(), rec);

    // parse
    let stmts: Vec<(bool, SpannedExpr)> = {
        let parsed = guarded(|| get_pairs(text).map(|pairs| pairs.collect::<Vec<_>>()));
        match parsed {
            Err(m) => { out.push(panic_event("parse", m)); return finish(text, inputs, out); }
            Ok(Err(e)) => {
                match e.location { InputLocation::Pos(p) => out.push(located("parse", p, p, text)), InputLocation::Span((a, b)) => out.push(located("parse", a, b, text)) }
                let _ = guarded(|| e.to_string());
                return finish(text, inputs, out);
            }
            Ok(Ok(pairs)) => {
                out.push(ev("parse", "ok"));
                // convert
                let conv = guarded(|| {
                    let mut v = vec![];
                    for pair in pairs {
                        if pair.as_rule() != Rule::statement { continue; }
                        if let Some(inner) = pair.into_inner().next() {
                            match inner.as_rule() {
                                Rule::expression => v.push((false, pairs_to_expr(inner.into_inner())?)),
                                Rule::output_declaration => v.push((true, pairs_to_expr(inner.into_inner())?)),
                                _ => {}
                            }
                        }
                    }
                    Ok::<_, anyhow::Error>(v)
                });
                match conv {
                    Err(m) => { out.push(panic_event("convert", m)); return finish(text, inputs, out); }
                    Ok(Err(_)) => { out.push(ev("convert", "err")); return finish(text, inputs, out); }
                    Ok(Ok(v)) => { out.push(ev("convert", "ok")); v }
                }
            }
        }
    };
    let src: Rc<str> = text.into();
    for (is_output, st) in &stmts {
        let r = guarded(|| evaluate_ast(st, Rc::clone(&heap), Rc::clone(&env), 0, src.clone()));
        let v = match r {
            Err(m) => { out.push(panic_event("eval", m)); break; }
            Ok(Err(e)) => { runtime_error_event("eval", &e, &mut out); break; }
            Ok(Ok(v)) => { out.push(ev("eval", "ok")); v }
        };
        // rendering of the value in every textual form
        let rr = guarded(|| {
            let h = heap.borrow();
            let _ = v.stringify_external(&h);
            let _ = v.stringify_internal(&h);
            let _ = v.stringify_for_display(&h);
            let _ = format!("{}", v);
        });
        out.push(match rr { Ok(()) => ev("render", "ok"), Err(m) => panic_event("render", m) });
        // outputs: validate -> serialise -> JSON text (done for every value, declared output or not)
        let _ = is_output;
        match guarded(|| validate_portable_value(&v, &heap.borrow(), &env)) {
            Err(m) => { out.push(panic_event("validate", m)); continue; }
            Ok(Err(_)) => { out.push(ev("validate", "err")); continue; }
            Ok(Ok(())) => out.push(ev("validate", "ok")),
        }
        match guarded(|| v.to_serializable_value(&heap.borrow())) {
            Err(m) => { out.push(panic_event("serialise", m)); continue; }
            Ok(Err(_)) => { out.push(ev("serialise", "err")); continue; }
            Ok(Ok(sv)) => {
                out.push(ev("serialise", "ok"));
                match guarded(|| serde_json::to_string(&sv.to_json())) {
                    Err(m) => out.push(panic_event("jsontext", m)),
                    Ok(Err(_)) => out.push(ev("jsontext", "err")),
                    Ok(Ok(t)) => {
                        out.push(ev("jsontext", "ok"));
                        // and back in: the emitted JSON is an input document
                        let back = guarded(|| serde_json::from_str::<serde_json::Value>(&t).map(|j| SerializableValue::from_json(&j).to_value(&mut heap.borrow_mut()).is_ok()));
                        out.push(match back { Ok(_) => ev("render", "ok"), Err(m) => panic_event("render", m) });
                    }
                }
            }
        }
    }
    crate::ev::clear_stats();
    finish(text, inputs, out)
}

fn finish(text: &str, inputs: Option<&str>, mut out: Vec<J>) -> Vec<J> {
    for w in [None, Some(12usize)] {
        out.push(match guarded(|| crate::c07::fmt_library(text, w)) { Err(m) => panic_event("format", m), Ok(Ok(_)) => ev("format", "ok"), Ok(Err(m)) => if m.starts_with("panic") { panic_event("format", m) } else { ev("format", "err") } });
        out.push(match guarded(|| crate::c07::fmt_wasm(text, w)) { Err(m) => panic_event("format", m), Ok(Ok(_)) => ev("format", "ok"), Ok(Err(m)) => if m.starts_with("panic") { panic_event("format", m) } else { ev("format", "err") } });
    }
    out.push(match guarded(|| wasm_driver::tokenize(text).is_ok()) { Err(m) => panic_event("tokenize", m), Ok(true) => ev("tokenize", "ok"), Ok(false) => ev("tokenize", "err") });
    // the WASM driver's evaluate (its own statement loop, error ranges converted to UTF-16 offsets)
    let inp: J = inputs.and_then(|t| serde_json::from_str::<J>(t).ok()).filter(|j| j.is_object())
        .map(|j| J::Object(j.as_object().unwrap().iter().map(|(k, v)| (k.clone(), serde_json::to_value(SerializableValue::from_json(v)).unwrap_or(J::Null))).collect()))
        .unwrap_or(json!({}));
    out.push(match guarded(|| wasm_driver::evaluate(text, inp.clone()).is_ok()) { Err(m) => panic_event("wasmeval", m), Ok(true) => ev("wasmeval", "ok"), Ok(false) => ev("wasmeval", "err") });
    // the WASM driver's inline evaluator (each text on its own, inputs also injected as plain names)
    out.push(match guarded(|| wasm_driver::evaluate_inline_expressions(json!([text, "inputs"]), inp).is_ok()) { Err(m) => panic_event("inline", m), Ok(true) => ev("inline", "ok"), Ok(false) => ev("inline", "err") });
    // a function value handed over in the serialised form the JS side holds, its body being this very text
    let raw = json!({"g": {"Lambda": {"name": J::Null, "args": [{"Required": "x"}], "body": text, "scope": J::Null}}});
    out.push(match guarded(|| wasm_driver::evaluate("g(1)", raw.clone()).is_ok()) { Err(m) => panic_event("wasmeval", m), Ok(true) => ev("wasmeval", "ok"), Ok(false) => ev("wasmeval", "err") });
    out.push(match guarded(|| wasm_driver::evaluate_inline_expressions(json!(["g(1)"]), raw).is_ok()) { Err(m) => panic_event("inline", m), Ok(true) => ev("inline", "ok"), Ok(false) => ev("inline", "err") });
    out
}

fn case_texts(case: &J) -> Vec<(String, Option<String>)> {
    match case["kind"].as_str().unwrap() {
        "call" => {
            let args: Vec<&str> = case["args"].as_array().unwrap().iter().map(|i| POOL[i.as_u64().unwrap() as usize - 1]).collect();
            vec![(format!("{}({})", case["name"].as_str().unwrap(), args.join(", ")), None)]
        }
        "tokens" => {
            let toks: Vec<&str> = case["toks"].as_array().unwrap().iter().map(|t| t.as_str().unwrap()).collect();
            vec![(toks.join(" "), None), (toks.join(""), None)]
        }
        "text" => vec![(case["text"].as_str().unwrap().to_string(), case["inputs"].as_str().map(|s| s.to_string()))],
        k => panic!("c01 kind {k}"),
    }
}

/// worker: processes cases[from..], one result line per case, flushed; the parent restarts after a crash
pub fn worker(cases: &[J], from: usize, out_path: &str) {
    use std::io::Write;
    let mut f = std::fs::OpenOptions::new().create(true).append(true).open(out_path).expect("open out");
    // watchdog: a case that takes longer than 20 s is a hang; the process exits and the parent records it
    static STARTED: std::sync::atomic::AtomicU64 = std::sync::atomic::AtomicU64::new(0);
    let now = || std::time::SystemTime::now().duration_since(std::time::UNIX_EPOCH).unwrap().as_millis() as u64;
    STARTED.store(now(), std::sync::atomic::Ordering::SeqCst);
    let limit: u64 = std::env::var("BVH_WATCHDOG_MS").ok().and_then(|s| s.parse().ok()).unwrap_or(20_000);
    std::thread::spawn(move || loop {
        std::thread::sleep(std::time::Duration::from_millis(250));
        let t0 = STARTED.load(std::sync::atomic::Ordering::SeqCst);
        let t = std::time::SystemTime::now().duration_since(std::time::UNIX_EPOCH).unwrap().as_millis() as u64;
        if t > t0 + limit { eprintln!("watchdog: case exceeded {} ms", limit); std::process::exit(98); }
    });
    for (i, c) in cases.iter().enumerate().skip(from) {
        STARTED.store(now(), std::sync::atomic::Ordering::SeqCst);
        let mut events = vec![];
        let mut srcs = vec![];
        for (text, inputs) in case_texts(c) {
            events.extend(pipeline(&text, inputs.as_deref()));
            srcs.push(text);
        }
        // arity prediction of the specification
        let mut arity_problem = J::Null;
        if c["kind"] == "call" && c["arity_error"] == true {
            let evaluated_ok = events.iter().any(|e| e["stage"] == "eval" && e["outcome"] == "ok");
            if evaluated_ok { arity_problem = json!("call with a wrong number of arguments succeeded"); }
        }
        writeln!(f, "{}", json!({"i": i, "src": srcs, "events": events, "arity_problem": arity_problem})).unwrap();
        f.flush().unwrap();
    }
}

// ---------------------------------------------------------------- random / corpus-mutated texts
/// the benchmark programs loop over millions of elements; the property is about crashes, not about heavy computations, so
/// integer literals of more than four digits keep their first three digits only
fn shrink_numbers(s: &str) -> String {
    let cs: Vec<char> = s.chars().collect();
    let mut out = String::new();
    let mut i = 0;
    while i < cs.len() {
        if cs[i].is_ascii_digit() && (i == 0 || !(cs[i - 1].is_alphanumeric() || cs[i - 1] == '_' || cs[i - 1] == '.')) {
            let mut j = i;
            while j < cs.len() && (cs[j].is_ascii_digit() || cs[j] == '_') { j += 1; }
            let digits: String = cs[i..j].iter().filter(|c| c.is_ascii_digit()).collect();
            let plain = j >= cs.len() || !(cs[j].is_alphanumeric() || cs[j] == '.');
            if plain && digits.len() > 4 { out.push_str(&digits[..3]); } else { out.extend(cs[i..j].iter()); }
            i = j;
        } else { out.push(cs[i]); i += 1; }
    }
    out
}

fn corpus() -> Vec<String> {
    let mut v = vec![];
    for dir in ["/repo/examples", "/repo/benches"] {
        if let Ok(rd) = std::fs::read_dir(dir) {
            let mut ps: Vec<_> = rd.flatten().map(|e| e.path()).filter(|p| p.extension().map_or(false, |x| x == "blots")).collect();
            ps.sort();
            for p in ps { if let Ok(s) = std::fs::read_to_string(&p) { v.push(shrink_numbers(&s)); } }
        }
    }
    // README snippets (fenced code)
    if let Ok(readme) = std::fs::read_to_string("/repo/README.md") {
        let mut cur = String::new();
        let mut inside = false;
        for line in readme.lines() {
            if line.starts_with("```") { if inside { v.push(std::mem::take(&mut cur)); } inside = !inside; continue; }
            if inside { cur.push_str(line); cur.push('\n'); }
        }
    }
    v
}

pub fn gen_texts(seed: u64, n: usize) -> Vec<J> {
    let mut r = Rng::new(seed);
    let corp = corpus();
    let frag = ["(", ")", "[", "]", "{", "}", ",", ":", "=>", "=", "+", "-", "!", "...", ".", "\"", "'", "//", "\n", " ", "#", "?", "if ", " then ", " else ", "do {", "return ",
                "output ", "via", "where", "into", "0x", "1e", "_", "é", "😀", "\u{0}", "\t", "\r\n", "inputs", "constants", "inf", "0/0", "1e308*10", "x => ", "sum", "[...", "{...", ".f", "[0]", "(1)", "1_", "..", ".==", "&&", "||", "??", "^", "%"];
    let mut out = vec![];
    // directed: errors raised inside functions that arrived as JSON inputs, inputs of every shape
    for inp in ["{\"f\": {\"__blots_function\": \"(x) => x + nope\"}}", "{\"f\": {\"__blots_function\": \"(x) => [1, 2, 3][x]!\"}}",
                "{\"f\": {\"__blots_function\": \"x => do {\\n  y = x +\\n  missing\\n  return y\\n}\"}}", "{\"f\": {\"__blots_function\": \"sum\"}}",
                "{\"f\": {\"__blots_function\": \"(é) => é + \\\"😀\\\" + 1\"}}"] {
        for text in ["inputs.f(1)", "#f(\"s\")", "output g = inputs.f", "[1, 2] via inputs.f", "map([1], inputs.f)", "output r = inputs.f(null)", "x = 1\n\ninputs.f(x, 2)"] {
            out.push(json!({"kind":"text","text":text,"inputs":inp}));
        }
    }
    // directed: numbers at the boundaries of the display paths (powers of ten and runs of nines, a few ulps either side, halves),
    // as literal, rendered, converted with to_string and format, inside containers, and as a JSON input
    let mut nums: Vec<f64> = vec![];
    for k in -9i32..=23 {
        let p = 10f64.powi(k);
        for d in -3i64..=3 { nums.push(f64::from_bits((p.to_bits() as i64 + d) as u64)); }
        for frac in [0.5, 0.9, 0.999] { nums.push(p - frac); nums.push(p * (1.0 - 5e-16)); nums.push(p - p * 4e-16 * frac); }
    }
    for x in [999999999999999.5, 999999999999999.9, 99999999999999.99, 9999999999999998.0, 0.1 + 0.2, 1.0 / 3.0, 5e-324, 2.2250738585072014e-308, 1.7976931348623157e308,
              123456789012345.6, 0.000001, 0.0000001, 1e21, 1e-7, 4503599627370496.5, 9007199254740993.0] { nums.push(x); nums.push(-x); }
    for (j, x) in nums.iter().enumerate() {
        let lit = format!("{:e}", x);
        let text = match j % 4 {
            0 => format!("x = {lit}\noutput s = to_string(x)\noutput t = format(\"{{}}\", x)\noutput x"),
            1 => format!("output v = [{lit}, {{a: {lit}}}]\nformat(\"{{}} {{}}\", {lit}, [{lit}])"),
            2 => format!("output f = y => y + {lit}\nto_string({lit}) + \"\""),
            _ => format!("output r = round({lit} * 1)\noutput q = to_string(-({lit}))"),
        };
        out.push(json!({"kind":"text","text":text,"inputs": if j % 5 == 0 { J::String(format!("{{\"n\": {lit}}}")) } else { J::Null }}));
    }
    // directed: every higher-order built-in with callbacks that build values of their own (strings, lists, records) while the
    // built-in is at work, on two or more elements; and the integer sweep of the factorial across its overflow point
    for hof in ["map", "filter", "every", "some", "sort_by", "group_by", "count_by"] {
        for cb in ["w => lowercase(w)", "w => [w, w]", "w => {k: w}", "w => to_string(w) + \"!\"", "(w, i?) => format(\"{}-{}\", w, i)", "w => len([w]) > 0", "w => split(w, \"\")"] {
            out.push(json!({"kind":"text","text":format!("output r = {hof}([\"b\", \"A\", \"c\"], {cb})\n{hof}([10, 9, 100], {cb})\n[\"x\", \"y\"] via ({cb})\n[\"x\", \"y\"] where ({cb})"),"inputs":J::Null}));
        }
    }
    out.push(json!({"kind":"text","text":"reduce([\"b\", \"a\"], (acc, w) => acc + [uppercase(w)], [])\nreduce([1, 2, 3], (acc, w, i) => {...acc, [to_string(w)]: i}, {})\nzip([1, 2], [\"a\", \"b\"]) via (p => {n: p[0], s: p[1] + \"\"})","inputs":J::Null}));
    // parameterless anonymous functions whose body assigns (in argument position, in a list, behind a conditional), with and
    // without captured values and inputs; strings, lists and records spread into records, lists and argument lists
    for text in ["output r = (() => (y = inputs.a + 1))()", "k = 2\n(() => (y = k + inputs.a))()", "steps = [() => (z = inputs.a), () => [w = 1, w]]\nsteps[0]()\nsteps[1]()",
                 "mk = () => () => max(q = inputs.a, 0)\nmk()()", "t = if true then (() => (v = #a))() else 0", "[1, 2] via (x => (() => (u = x + inputs.a))())",
                 "{...\"ab\"}", "w = \"xy\"\noutput r = {...w, word: w}", "{...inputs.s, ...[7, 8], ...{k: 1}}", "[...inputs.s, ...\"\", ...{a: 1}]", "max(...inputs.s)", "map([\"ab\", \"\"], w => {...w})",
                 "do {\n  s = \"pq\"\n  return {...s, ...[s]}\n}"] {
        out.push(json!({"kind":"text","text":text,"inputs":"{\"a\": 1, \"s\": \"\u{e9}z\"}"}));
        out.push(json!({"kind":"text","text":text,"inputs":J::Null}));
    }
    // the factorial of the large whole numbers of the boundary pool: infinite, at once
    out.push(json!({"kind":"text","text":"output big = [to_string(9007199254740992!), to_string(1e15!), to_string(4294967296!), to_string(18446744073709551615!), to_string(18446744073709551616!)]\n1e30!\n(2 ^ 53)!","inputs":J::Null}));
    for lo in [0usize, 40, 80, 120, 160] {
        let text: Vec<String> = (lo..lo + 45).map(|k| format!("{k}!")).collect();
        out.push(json!({"kind":"text","text":format!("output fs = [{}]\n(-3)!\n2.5!\n171! + 1\n1000!", text.join(", ")),"inputs":J::Null}));
    }
    // every spelling of every unit identifier (as listed, upper-cased, lower-cased, capitalised - non-ASCII letters included) as
    // an argument of convert: the natural boundary pool of that built-in
    {
        let table = crate::c17::export();
        for (k, v) in table["variants"].as_array().unwrap().iter().enumerate() {
            let v = v.as_str().unwrap();
            if v.contains('"') || v.contains('\\') { continue; }
            let text = match k % 3 { 0 => format!("convert(1, \"{v}\", \"m\")"), 1 => format!("convert(1, \"kg\", \"{v}\")"), _ => format!("convert(2, \"{v}\", \"{v}\")") };
            out.push(json!({"kind":"text","text":text,"inputs":J::Null}));
        }
    }
    // grammar-directed whole programs (well-formed, mostly evaluating), with inputs
    for i in 0..n / 2 {
        let text = crate::proggen::program(&mut r);
        out.push(json!({"kind":"text","text":text,"inputs": if i % 4 == 3 { J::Null } else { J::String(crate::proggen::INPUTS[i % 3].to_string()) }}));
    }
    for i in 0..n {
        let text = match i % 5 {
            0 | 1 if !corp.is_empty() => {
                // corpus mutation: take a few lines and damage them
                let c = r.pick(&corp);
                let lines: Vec<&str> = c.lines().collect();
                let k = r.below(lines.len().max(1) as u64) as usize;
                let mut t: String = lines[k..(k + 1 + r.below(6) as usize).min(lines.len())].join("\n");
                for _ in 0..r.below(4) {
                    let cs: Vec<char> = t.chars().collect();
                    if cs.is_empty() { break; }
                    let p = r.below(cs.len() as u64) as usize;
                    let mut m: Vec<char> = cs.clone();
                    match r.below(4) {
                        0 => { m.remove(p); }
                        1 => { let ins: Vec<char> = r.pick(&frag).chars().collect(); for (j, ch) in ins.into_iter().enumerate() { m.insert(p + j, ch); } }
                        2 => { m[p] = *r.pick(&['(', ')', '"', '\'', '\n', '=', '.', ',', 'é', '0']); }
                        _ => { let q = r.below(cs.len() as u64) as usize; m.swap(p, q); }
                    }
                    t = m.into_iter().collect();
                }
                t
            }
            2 => (0..(1 + r.below(12))).map(|_| *r.pick(&frag)).collect::<Vec<_>>().join(if r.chance(1, 2) { "" } else { " " }),
            3 => {
                // raw random UTF-8 (valid scalars of every width, control characters)
                (0..r.below(40)).map(|_| match r.below(6) { 0 => char::from_u32(r.below(128) as u32).unwrap(), 1 => char::from_u32(0x80 + r.below(0x700) as u32).unwrap_or('é'),
                    2 => char::from_u32(0x800 + r.below(0xC000) as u32).unwrap_or('€'), 3 => char::from_u32(0x10000 + r.below(0xFFFFF) as u32).unwrap_or('😀'), _ => *r.pick(&['(', '[', '"', 'a', '1', ' ', '\n']) }).collect()
            }
            _ => {
                // deep nesting up to 64
                let d = 1 + r.below(64) as usize;
                let (o, c) = *r.pick(&[("(", ")"), ("[", "]"), ("{a: ", "}"), ("-", ""), ("x => ", ""), ("if true then ", " else 0"), ("do { return ", " }"), ("[...", "]"), ("f(", ")")]);
                format!("{}1{}", o.repeat(d), c.repeat(d))
            }
        };
        let inputs = if r.chance(1, 3) {
            Some(r.pick(&["{\"a\": 1}", "{\"f\": {\"__blots_function\": \"(x) => x + nope\"}}", "{\"f\": {\"__blots_function\": \"x => [\"}}", "{\"f\": {\"__blots_function\": \"sum\"}}",
                          "[1, 2]", "{\"f\": {\"__blots_function\": \"\"}}", "{\"f\": {\"__blots_function\": \" \\n\\t \"}}", "{\"a\": [{\"__blots_function\": \"\"}]}", "{\"f\": {\"__blots_function\": \"// only a comment\"}}",
                          "{\"a\": {\"b\": [null, 1e400, -0.0, \"\\u0000\"]}}", "{\"__blots_function\": \"x => x\"}", "not json", "{\"a\": 1e999}", "{\"k\": {\"__blots_function\": 5}}"]).to_string())
        } else { None };
        out.push(json!({"kind":"text","text":text,"inputs":inputs}));
    }
    out
}
