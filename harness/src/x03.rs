//! X03 - extended conformance (not a listed property): how values are shown as text (to_string, format) against spec/Display.tla.
use crate::ev::{Outcome, Session};
use crate::mv::{self, Lift};
use blots_core::values::Value;
use serde_json::{Value as J, json};

pub fn replay(case: &J) -> J {
    let src = if case["fam"] == "show" {
        format!("to_string({})", mv::src(&case["v"], Lift::Id))
    } else {
        let mut parts = vec![mv::str_src(case["f"].as_str().unwrap())];
        for a in case["args"].as_array().unwrap() { parts.push(mv::src(a, Lift::Id)); }
        format!("format({})", parts.join(", "))
    };
    let s = Session::new();
    let o = s.eval(&src);
    let got = match &o {
        Outcome::Ok(Value::String(p)) => { use blots_core::heap::HeapPointer; Some(p.reify(&s.heap.borrow()).as_string().unwrap().to_string()) }
        _ => None,
    };
    crate::ev::clear_stats();
    if got.as_deref() == case["exp"].as_str() { json!({"evals": 1, "mismatches": []}) }
    else { json!({"evals": 1, "mismatches": [{"src": src, "exp": case["exp"], "obs": match got { Some(g) => json!(g), None => json!(format!("{}: {}", o.class(), o.msg())) }}]}) }
}
