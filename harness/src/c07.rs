//! C07 (formatter preserves meaning) and C08 (formatting is idempotent) on TLC-enumerated trees.
use crate::syn::{self, Stmt};
use crate::wasm_driver;
use blots_core::formatter::format_expr;
use serde_json::{Value as J, json};
use std::panic::{AssertUnwindSafe, catch_unwind};

/// library driver: format_expr per statement (what both shipped drivers do), comments aside
pub fn fmt_library(src: &str, width: Option<usize>) -> Result<String, String> {
    let stmts = syn::parse_program(src, true)?;
    let r = catch_unwind(AssertUnwindSafe(|| {
        let mut out = vec![];
        for s in &stmts {
            out.push(match s {
                // joined one statement per line, the way the two drivers do it (the rule for a line beginning with `-` included)
                Stmt::Expr(e) => blots_core::ast_to_source::do_statement_line(out.len(), format_expr(e, width)),
                Stmt::Output(e) => {
                    let o = blots_core::ast::Spanned::dummy(blots_core::ast::Expr::Output { expr: Box::new(e.clone()) });
                    format_expr(&o, width)
                }
            });
        }
        out.join("\n")
    }));
    r.map_err(|p| format!("panic: {}", crate::ev::panic_msg(p)))
}

pub fn fmt_wasm(src: &str, width: Option<usize>) -> Result<String, String> {
    let r = catch_unwind(AssertUnwindSafe(|| wasm_driver::format_blots(src, width)));
    match r {
        Ok(Ok(J::String(s))) => Ok(s),
        Ok(Ok(other)) => Err(format!("unexpected result {other}")),
        Ok(Err(e)) => Err(format!("error: {}", e.message)),
        Err(p) => Err(format!("panic: {}", crate::ev::panic_msg(p))),
    }
}

pub fn fmt_cli(cli: &str, src: &str, tag: &str) -> Result<String, String> {
    let dir = std::env::temp_dir().join(format!("bvh_fmt_{}_{}", std::process::id(), tag));
    let _ = std::fs::create_dir_all(&dir);
    let inp = dir.join("in.blots");
    let outp = dir.join("out.blots");
    std::fs::write(&inp, src).map_err(|e| e.to_string())?;
    let _ = std::fs::remove_file(&outp);
    let o = std::process::Command::new("timeout")
        .arg("20")
        .arg(cli)
        .arg("--format")
        .arg(&inp)
        .arg(&outp)
        .stdin(std::process::Stdio::null())
        .output()
        .map_err(|e| e.to_string())?;
    let res = if o.status.success() {
        std::fs::read_to_string(&outp).map_err(|e| e.to_string())
    } else {
        Err(format!("exit {:?}: {}", o.status.code(), String::from_utf8_lossy(&o.stderr).chars().take(200).collect::<String>()))
    };
    let _ = std::fs::remove_dir_all(&dir);
    res
}

pub const WIDTHS_QUICK: &[Option<usize>] = &[Some(1), Some(20), Some(40), None];
pub const WIDTHS_THOROUGH: &[Option<usize>] = &[Some(1), Some(2), Some(10), Some(20), Some(30), Some(40), Some(60), Some(80), Some(120), None];

/// One program through every driver and width: meaning preserved (C07) and second pass is a fixpoint (C08).
pub fn check_program(src: &str, widths: &[Option<usize>], cli: Option<&str>, mism: &mut Vec<J>, evals: &mut u64) {
    let ast0 = match syn::parse_program(src, false) {
        Ok(a) if !a.is_empty() => a,
        Ok(_) => return,
        Err(m) => {
            mism.push(json!({"prop":"C07","src":src,"driver":"-","obs":format!("input rejected: {m}")}));
            return;
        }
    };
    let mut drivers: Vec<(String, Result<String, String>, Option<usize>)> = vec![];
    for w in widths {
        drivers.push((format!("library w={:?}", w), fmt_library(src, *w), *w));
        drivers.push((format!("wasm w={:?}", w), fmt_wasm(src, *w), *w));
    }
    if let Some(c) = cli {
        drivers.push(("cli".into(), fmt_cli(c, src, "a"), None));
    }
    for (name, out, w) in drivers {
        *evals += 1;
        let text = match out {
            Ok(t) => t,
            Err(m) => {
                mism.push(json!({"prop":"C07","src":src,"driver":name,"obs":format!("formatter failed: {m}")}));
                continue;
            }
        };
        match syn::parse_program(&text, false) {
            Ok(ast1) => {
                if ast1 != ast0 {
                    // the second pass below still runs: a changed tree usually shows as a moving layout too (C08)
                    mism.push(json!({"prop":"C07","src":src,"driver":name,"out":text,"obs":"formatted text parses to a different program"}));
                }
            }
            Err(m) => {
                mism.push(json!({"prop":"C07","src":src,"driver":name,"out":text,"obs":format!("formatted text rejected: {m}")}));
                continue;
            }
        }
        // second pass with the same driver
        let second = if name.starts_with("library") { fmt_library(&text, w) } else if name.starts_with("wasm") { fmt_wasm(&text, w) } else { fmt_cli(cli.unwrap(), &text, "b") };
        match second {
            Ok(t2) => {
                if t2 != text {
                    mism.push(json!({"prop":"C08","src":src,"driver":name,"out":text,"out2":t2,"obs":"second pass differs"}));
                }
            }
            Err(m) => mism.push(json!({"prop":"C08","src":src,"driver":name,"out":text,"obs":format!("second pass failed: {m}")})),
        }
    }
}

pub fn replay(case: &J, thorough: bool, cli: Option<&str>, idx: usize) -> J {
    let mut mism = vec![];
    let mut evals = 0u64;
    let full = case["full"].as_str().unwrap();
    let min = case["min"].as_str().unwrap();
    // 1. the model's texts against the real parser (binding of the reference rule to the grammar)
    match syn::parse_single_expr(full) {
        Ok(e) => {
            let got = syn::rich_of(&e);
            if got != syn::normalise_tree(&case["tree"]) {
                mism.push(json!({"prop":"C07","src":full,"driver":"parser","obs":"fully parenthesised text parses to another tree","exp":case["tree"],"got":got}));
            }
        }
        Err(m) => mism.push(json!({"prop":"C07","src":full,"driver":"parser","obs":format!("fully parenthesised text rejected: {m}")})),
    }
    match (syn::parse_program(full, false), syn::parse_program(min, false)) {
        (Ok(a), Ok(b)) => {
            if a != b {
                mism.push(json!({"prop":"REF","src":min,"driver":"parser","obs":"reference-minimal text parses to another tree than the full text","full":full}));
            }
        }
        (_, Err(m)) => mism.push(json!({"prop":"REF","src":min,"driver":"parser","obs":format!("reference-minimal text rejected: {m}")})),
        _ => {}
    }
    let widths = if thorough { WIDTHS_THOROUGH } else { WIDTHS_QUICK };
    // 2. the formatter on the expression, as an output declaration and inside a multi-statement program
    let use_cli = if idx % (if thorough { 4 } else { 25 }) == 0 { cli } else { None };
    check_program(full, widths, use_cli, &mut mism, &mut evals);
    if idx % 3 == 0 {
        check_program(&format!("output q = {}", full), widths, None, &mut mism, &mut evals);
    }
    if idx % 5 == 0 {
        check_program(&format!("m = 1\n\n\n{}\noutput m", min), widths, use_cli, &mut mism, &mut evals);
    }
    // the expression as a statement of its own after another statement (written in parentheses, so that whatever it begins
    // with it cannot continue the line above), also below a comment line
    if idx % 4 == 1 {
        check_program(&format!("m = 1\n({})\noutput m", min), widths, use_cli, &mut mism, &mut evals);
        check_program(&format!("m = 1 // note\n// a comment line\n({})", min), widths, None, &mut mism, &mut evals);
    }
    // after output declarations and comment lines only (no plain statement before it), and with an end-of-line comment of its own
    if idx % 4 == 3 {
        check_program(&format!("// totals\noutput m = 10\n({})  // negated\nq = 1\n({})", min, min), widths, use_cli, &mut mism, &mut evals);
        check_program(&format!("output m = 10\n\n({})", min), widths, None, &mut mism, &mut evals);
    }
    // ... and the same inside a do-block: as a later statement, below the block's own comment lines, and as the returned value
    if idx % 4 == 2 {
        check_program(&format!("g = w => do {{\n  m = w\n  // a comment line\n  ({})\n  // another\n\n  // and another\n  ({})\n  return ({})\n}}", min, min, min), widths, None, &mut mism, &mut evals);
    }
    crate::ev::clear_stats();
    json!({"evals": evals, "mismatches": mism})
}

// ---------------------------------------------------------------- impl -> spec
use crate::rng::Rng;

/// Tokenise formatter output that lies in the operator fragment of spec/Syntax.tla.
pub fn tokenize_ops(text: &str) -> Option<Vec<J>> {
    let cs: Vec<char> = text.chars().collect();
    let mut i = 0;
    let mut out: Vec<J> = vec![];
    let mut operand_end = false;
    let tok = |t: &str, v: &str| json!({"t": t, "v": v});
    let call_re = regex::Regex::new(r"^\(\s*x\s*,?\s*\)").unwrap();
    let idx_re = regex::Regex::new(r"^\[\s*0\s*\]").unwrap();
    let mut syms: Vec<(&str, &str)> = syn::BIN.iter().map(|b| (b.1, b.0)).collect();
    syms.sort_by_key(|s| std::cmp::Reverse(s.0.len()));
    while i < cs.len() {
        let c = cs[i];
        if c.is_whitespace() { i += 1; if operand_end { /* whitespace after an operand: no postfix follows */ } continue; }
        let rest: String = cs[i..].iter().collect();
        let ws_before = i > 0 && cs[i - 1].is_whitespace();
        if operand_end && !ws_before {
            if let Some(m) = call_re.find(&rest) { out.push(tok("post", "call")); i += m.as_str().chars().count(); continue; }
            if let Some(m) = idx_re.find(&rest) { out.push(tok("post", "idx")); i += m.as_str().chars().count(); continue; }
            if rest.starts_with(".f") && !rest.starts_with(".f=") { out.push(tok("post", "dot")); i += 2; continue; }
            if c == '!' { out.push(tok("post", "fact")); i += 1; continue; }
        }
        if c == ')' { out.push(tok("rp", "")); i += 1; operand_end = true; continue; }
        if operand_end {
            // a binary operator
            let mut found = false;
            for (sym, name) in &syms {
                if rest.starts_with(sym) {
                    let word = sym.chars().all(|ch| ch.is_ascii_alphabetic());
                    if word && cs.get(i + sym.len()).map_or(false, |ch| ch.is_ascii_alphanumeric() || *ch == '_') { continue; }
                    out.push(tok("op", name));
                    i += sym.len();
                    found = true;
                    break;
                }
            }
            if !found { return None; }
            operand_end = false;
            continue;
        }
        // operand start
        if c == '(' { out.push(tok("lp", "")); i += 1; continue; }
        if c == '-' { out.push(tok("pre", "neg")); i += 1; continue; }
        if c == '!' { out.push(tok("pre", "not")); i += 1; continue; }
        if rest.starts_with("not ") { out.push(tok("pre", "notw")); i += 4; continue; }
        if c.is_ascii_alphabetic() {
            let mut j = i;
            while j < cs.len() && (cs[j].is_ascii_alphanumeric() || cs[j] == '_') { j += 1; }
            let name: String = cs[i..j].iter().collect();
            out.push(tok("id", &name));
            i = j;
            operand_end = true;
            continue;
        }
        return None;
    }
    Some(out)
}

fn corpus() -> Vec<(String, String)> {
    let mut v = vec![];
    for dir in ["/repo/examples", "/repo/benches"] {
        if let Ok(rd) = std::fs::read_dir(dir) {
            let mut ps: Vec<_> = rd.flatten().map(|e| e.path()).filter(|p| p.extension().map_or(false, |x| x == "blots")).collect();
            ps.sort();
            for p in ps {
                if let Ok(s) = std::fs::read_to_string(&p) { v.push((p.display().to_string(), s)); }
            }
        }
    }
    v
}

fn stmts_tree(stmts: &[Stmt]) -> J {
    J::Array(stmts.iter().map(|s| match s { Stmt::Expr(e) => syn::rich_of(e), Stmt::Output(e) => json!({"k":"output","e":syn::rich_of(e)}) }).collect())
}

/// Events: `fmtops` (random operator-fragment expressions: the formatter's output as tokens + the original tree),
/// `fmt` (corpus programs and random programs: tree before / after per driver and width, second pass text equality).
pub fn record(seed: u64, n: usize, cli: Option<&str>) -> Vec<J> {
    let mut r = Rng::new(seed);
    let mut out = vec![];
    let widths: [Option<usize>; 7] = [Some(1), Some(8), Some(16), Some(24), Some(40), Some(80), None];
    for _ in 0..n {
        let mut toks = vec![];
        crate::c10::gen_expr(&mut r, 3, &mut toks);
        let src = syn::render_tokens(&J::Array(toks));
        let w = *r.pick(&widths);
        let e = match syn::parse_single_expr(&src) { Ok(e) => e, Err(_) => continue };
        let tree = syn::tree_of(&e);
        let formatted = catch_unwind(AssertUnwindSafe(|| format_expr(&e, w))).unwrap_or_else(|_| "<panic>".into());
        let ftoks = tokenize_ops(&formatted);
        out.push(json!({"ev":"fmtops","src":src,"width":w.map(|x| x as i64).unwrap_or(-1),"out":formatted,"tokok":ftoks.is_some(),"toks":ftoks.unwrap_or_default(),"tree":tree}));
    }
    for (path, text) in corpus() {
        for w in widths {
            let before = match syn::parse_program(&text, false) { Ok(b) => b, Err(_) => continue };
            let mut drivers = vec![("library", fmt_library(&text, w)), ("wasm", fmt_wasm(&text, w))];
            if w.is_none() { if let Some(c) = cli { drivers.push(("cli", fmt_cli(c, &text, "c"))); } }
            for (name, res) in drivers {
                let (after, idem) = match &res {
                    Ok(t) => {
                        let a = syn::parse_program(t, false).map(|s| stmts_tree(&s)).unwrap_or_else(|m| json!({"k":"fail","m":m}));
                        let second = match name { "library" => fmt_library(t, w), "wasm" => fmt_wasm(t, w), _ => fmt_cli(cli.unwrap(), t, "d") };
                        (a, second.map(|t2| t2 == *t).unwrap_or(false))
                    }
                    Err(m) => (json!({"k":"fail","m":m}), false),
                };
                out.push(json!({"ev":"fmt","src":path,"driver":name,"width":w.map(|x| x as i64).unwrap_or(-1),"before":stmts_tree(&before),"after_ok": after.is_array(),"after": if after.is_array() { after.clone() } else { json!([]) },"after_error": if after.is_array() { json!("") } else { after["m"].clone() },"idempotent":idem}));
            }
        }
    }
    out
}
