#![allow(dead_code)]
//! bvh - the binding between the TLA+ specification and the real blots code.
//!   bvh replay <prop> <cases.ndjson> <out.ndjson> [opts]   spec -> impl
//!   bvh record <prop> <out.ndjson> --seed S --n N [opts]   impl -> spec (trace for Trace_<prop>.tla)
#[allow(dead_code, unused_imports, clippy::all)]
#[path = "/repo/blots-wasm/src/lib.rs"]
mod wasm_driver;
mod x01;
mod x02;
mod x03;
mod x04;
mod x05;

mod c01;
mod c02;
mod c03;
mod c04;
mod c05;
mod c06;
mod c07;
mod c09;
mod c10;
mod c11;
mod c12;
mod c13;
mod c14;
mod c15;
mod c16;
mod c17;
mod c18;
mod c19;
mod c20;
mod core;
mod ev;
mod vgen;
mod mv;
mod proggen;
mod rng;
mod syn;

use serde_json::Value as J;
use std::io::{BufRead, BufWriter, Write};

fn opt(args: &[String], name: &str) -> Option<String> {
    args.iter().position(|a| a == name).and_then(|i| args.get(i + 1).cloned())
}

fn read_cases(path: &str) -> Vec<J> {
    let f = std::fs::File::open(path).unwrap_or_else(|e| {
        eprintln!("cannot open {path}: {e}");
        std::process::exit(2)
    });
    std::io::BufReader::new(f)
        .lines()
        .map(|l| l.unwrap())
        .filter(|l| !l.trim().is_empty())
        .map(|l| serde_json::from_str(&l).expect("case json"))
        .collect()
}

fn write_out(path: &str, items: &[J]) {
    let f = std::fs::File::create(path).expect("create out");
    let mut w = BufWriter::new(f);
    for it in items {
        writeln!(w, "{}", serde_json::to_string(it).unwrap()).unwrap();
    }
}

fn lifts(args: &[String]) -> Vec<mv::Lift> {
    opt(args, "--lifts")
        .unwrap_or_else(|| "id".into())
        .split(',')
        .map(mv::Lift::parse)
        .collect()
}

fn main() {
    let args: Vec<String> = std::env::args().collect();
    if args.len() < 3 {
        eprintln!("usage: bvh replay|record <prop> ...");
        std::process::exit(2);
    }
    if std::env::var("BVH_LOUD").is_err() {
        ev::quiet_panics();
    }
    let seed: u64 = opt(&args, "--seed").and_then(|s| s.parse().ok()).unwrap_or(1);
    let n: usize = opt(&args, "--n").and_then(|s| s.parse().ok()).unwrap_or(100);
    match (args[1].as_str(), args[2].as_str()) {
        ("replay", "c03") => {
            // streamed: the thorough tier replays several hundred thousand behaviours
            let f = std::fs::File::open(&args[3]).unwrap_or_else(|e| { eprintln!("cannot open {}: {e}", args[3]); std::process::exit(2) });
            let mut w = BufWriter::new(std::fs::File::create(&args[4]).expect("create out"));
            for line in std::io::BufReader::new(f).lines() {
                let line = line.unwrap();
                if line.trim().is_empty() { continue; }
                let case: J = serde_json::from_str(&line).expect("case json");
                writeln!(w, "{}", serde_json::to_string(&c03::replay(&case)).unwrap()).unwrap();
            }
        }
        ("replay", prop) => {
            let cases = read_cases(&args[3]);
            let ls = lifts(&args);
            let thorough = args.iter().any(|a| a == "--thorough");
            let cli = opt(&args, "--cli");
            if prop == "c06" {
                let out = c06::replay_all(&cases, cli.as_deref().expect("--cli"));
                write_out(&args[4], &out);
                return;
            }
            if prop == "c19" {
                let out = c19::replay_all(&cases, cli.as_deref().expect("--cli"));
                write_out(&args[4], &out);
                return;
            }
            let setup: J = opt(&args, "--setup").map(|p| serde_json::from_str(&std::fs::read_to_string(p).unwrap()).unwrap()).unwrap_or(J::Null);
            let out: Vec<J> = cases
                .iter()
                .enumerate()
                .map(|(idx, c)| match prop {
                    "c02" => c02::replay(c, &setup, cli.as_deref()),
                    "c03" => c03::replay(c),
                    "c04" => c04::replay(c),
                    "c05" => c05::replay(c, cli.as_deref(), idx, thorough),
                    "c07" => c07::replay(c, thorough, cli.as_deref(), idx),
                    "c09" => c09::replay(c, thorough, cli.as_deref(), idx),
                    "c12" => c12::replay(c, &ls),
                    "c10" => c10::replay(c),
                    "c11" => c11::replay(c),
                    "c13" => c13::replay(c, &setup),
                    "c14" => c14::replay(c),
                    "x01" => x01::replay(c),
                    "x03" => x03::replay(c),
                    "x04" => x04::replay(c),
                    "x04i" => x04::replay_inline(c),
                    "x05" => x05::replay(c),
                    "c16" => c16::replay(c),
                    "c17" => c17::replay(c),
                    "c20" => c20::replay(c),
                    "c15" => c15::replay(c, &ls),
                    _ => {
                        eprintln!("unknown property {prop}");
                        std::process::exit(2)
                    }
                })
                .collect();
            write_out(&args[4], &out);
        }
        ("measure", "c18") => {
            c18::measure_child(args[3].parse().expect("shape index"), args.iter().any(|a| a == "--thorough"));
        }
        ("record", prop) => {
            let cli = opt(&args, "--cli");
            let out = match prop {
                "c02" => c02::record(seed, n, cli.as_deref()),
                "c06" => c06::record(seed, n, cli.as_deref().expect("--cli")),
                "c16" => c16::record(seed, n, cli.as_deref()),
                "c20" => c20::record(seed, n),
                "c17" => c17::record(seed, args.iter().any(|a| a == "--thorough")),
                "c18" => c18::record(cli.as_deref().expect("--cli"), args.iter().any(|a| a == "--thorough")),
                "c03" => c03::record(seed, n),
                "c04" => c04::record(seed, n),
                "c07" => c07::record(seed, n, cli.as_deref()),
                "c12" => c12::record(seed, n),
                "c10" => c10::record(seed, n),
                "c11" => c11::record(seed, n),
                "c14" => c14::record(seed, n),
                "x02" => x02::record(seed, n),
                "c15" => c15::record(seed, n),
                _ => {
                    eprintln!("unknown property {prop}");
                    std::process::exit(2)
                }
            };
            write_out(&args[3], &out);
        }
        ("worker", "c01") => {
            let cases = read_cases(&args[3]);
            let from: usize = opt(&args, "--from").and_then(|s| s.parse().ok()).unwrap_or(0);
            c01::worker(&cases, from, &args[4]);
        }
        ("gen", "c01") => {
            write_out(&args[3], &c01::gen_texts(seed, n));
        }
        ("export", "units") => {
            std::fs::write(&args[3], serde_json::to_string(&c17::export()).unwrap()).unwrap();
        }
        _ => {
            eprintln!("unknown command");
            std::process::exit(2);
        }
    }
}
