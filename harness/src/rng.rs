//! Small deterministic RNG (splitmix64) so every random choice is a function of VERIF_SEED.
pub struct Rng(pub u64);

impl Rng {
    pub fn new(seed: u64) -> Rng {
        Rng(seed.wrapping_mul(0x9E3779B97F4A7C15).wrapping_add(0x1234567))
    }
    pub fn next(&mut self) -> u64 {
        self.0 = self.0.wrapping_add(0x9E3779B97F4A7C15);
        let mut z = self.0;
        z = (z ^ (z >> 30)).wrapping_mul(0xBF58476D1CE4E5B9);
        z = (z ^ (z >> 27)).wrapping_mul(0x94D049BB133111EB);
        z ^ (z >> 31)
    }
    pub fn below(&mut self, n: u64) -> u64 {
        if n == 0 { 0 } else { self.next() % n }
    }
    pub fn range(&mut self, lo: i64, hi: i64) -> i64 {
        lo + self.below((hi - lo + 1) as u64) as i64
    }
    pub fn chance(&mut self, num: u64, den: u64) -> bool {
        self.below(den) < num
    }
    pub fn pick<'a, T>(&mut self, xs: &'a [T]) -> &'a T {
        &xs[self.below(xs.len() as u64) as usize]
    }
}
