//! C20 - displayed numbers are well-formed and accurate to 15 significant digits.
use crate::c16::sample_double;
use crate::ev::{Outcome, Session};
use crate::mv;
use crate::rng::Rng;
use blots_core::values::{Value, format_display_number};
use serde_json::{Value as J, json};
use std::panic::{AssertUnwindSafe, catch_unwind};

fn display_both(x: f64) -> (String, String) {
    let a = catch_unwind(AssertUnwindSafe(|| format_display_number(x))).unwrap_or_else(|_| "<panic>".into());
    let s = Session::new();
    let b = match s.eval(&format!("format(\"{{}}\", {})", mv::num_src(x))) {
        Outcome::Ok(v @ Value::String(_)) => v.stringify_internal(&s.heap.borrow()),
        o => format!("<{}: {}>", o.class(), o.msg()),
    };
    (a, b)
}

/// the same number shown inside containers (list, record, record in a list in a record): each occurrence must be the scalar numeral
fn display_nested(x: f64, scalar: &str) -> (bool, String) {
    let s = Session::new();
    let n = mv::num_src(x);
    let src = format!("format(\"{{}}|{{}}\", [{n}, {{a: {n}, b: [{n}, {{c: {n}}}]}}], {{k: {{j: {n}}}}})");
    let want = format!("[{d}, {{a: {d}, b: [{d}, {{c: {d}}}]}}]|{{k: {{j: {d}}}}}", d = scalar);
    let got = match s.eval(&src) {
        Outcome::Ok(v @ Value::String(_)) => v.stringify_internal(&s.heap.borrow()),
        o => format!("<{}: {}>", o.class(), o.msg()),
    };
    (got == want, got)
}

pub fn replay(case: &J) -> J {
    let ds: String = case["ds"].as_array().unwrap().iter().map(|d| d.as_i64().unwrap().to_string()).collect();
    let p = case["p"].as_i64().unwrap();
    let neg = case["neg"].as_bool().unwrap();
    // 0.d1d2..dk x 10^p  as a decimal string for Rust's (correctly rounded) parser
    let lit = format!("{}{}e{}", if neg { "-" } else { "" }, ds, p - ds.len() as i64);
    let x: f64 = lit.parse().unwrap();
    let exp: String = case["text"].as_array().unwrap().iter().map(|c| c.as_str().unwrap()).collect();
    let (a, b) = display_both(x);
    let mut mism = vec![];
    if a != exp { mism.push(json!({"src": format!("format_display_number({lit})"), "exp": exp, "obs": a})); }
    if b != exp { mism.push(json!({"src": format!("format(\"{{}}\", {lit})"), "exp": exp, "obs": b})); }
    crate::ev::clear_stats();
    json!({"evals": 2, "mismatches": mism})
}

/// the first 15 significant digits of the exact value (truncated), its decimal exponent (value = 0.d1d2.. x 10^e10)
/// and whether the value is exactly those 15 digits
fn true15(x: f64) -> Option<(Vec<i64>, i64, bool)> {
    let s = format!("{:.60e}", x.abs()); // exact expansion, correctly rounded to 61 significant digits
    let (m, e) = s.split_once('e')?;
    let digits: Vec<i64> = m.chars().filter(|c| c.is_ascii_digit()).map(|c| c as i64 - '0' as i64).collect();
    let e: i64 = e.parse().ok()?;
    let rest = &digits[15..];
    // if the digits after the 15th are all 9 up to the printed precision, truncation is not decidable from this expansion
    if rest.iter().all(|d| *d == 9) { return None; }
    Some((digits[..15].to_vec(), e + 1, rest.iter().all(|d| *d == 0)))
}

pub fn record(seed: u64, n: usize) -> Vec<J> {
    let mut r = Rng::new(seed);
    let mut out = vec![];
    for i in 0..n {
        let x = match i % 5 {
            0 => { // around the notation thresholds and powers of ten
                let k = r.range(-8, 18);
                let b: f64 = format!("1e{}", k).parse().unwrap();
                f64::from_bits((b.to_bits() as i64 + r.range(-3, 3)) as u64)
            }
            1 => { // 15-digit rounding carries: 0.999...9 style values
                let k = r.range(-6, 16);
                let b: f64 = format!("9.99999999999999{}e{}", r.below(10), k).parse().unwrap();
                f64::from_bits((b.to_bits() as i64 + r.range(-2, 2)) as u64)
            }
            2 => r.range(-9_007_199_254_740_991, 9_007_199_254_740_991) as f64,
            _ => sample_double(&mut r),
        };
        let x = if r.chance(1, 40) { *r.pick(&[f64::NAN, f64::INFINITY, f64::NEG_INFINITY, 0.0, -0.0]) } else { x };
        let (a, b) = display_both(x);
        let cs: Vec<J> = a.chars().map(|c| json!(c.to_string())).collect();
        let t = if x.is_finite() && x != 0.0 { true15(x) } else { None };
        let kind = if x.is_nan() { "nan" } else if x.is_infinite() { "inf" } else if x == 0.0 { "zero" } else if t.is_some() { "finite" } else { "undecided" };
        let (t15, e10, exact) = t.unwrap_or((vec![], 0, false));
        let (nested_ok, nested) = if i % 4 == 0 || i < 200 { display_nested(x, &a) } else { (true, String::new()) };
        out.push(json!({"ev":"display","bits":mv::hex(x),"text":a,"cs":cs,"same_via_format":a == b,"via_format":b,"same_nested":nested_ok,"nested":nested,"kind":kind,"neg":x.is_sign_negative(),
                        "true15":t15,"e10":e10,"exact":exact,
                        "int_below_2_53": x.is_finite() && x.fract() == 0.0 && x.abs() < 9007199254740992.0}));
        crate::ev::clear_stats();
    }
    out
}
