//! C11 - scalar operators and the broadcasting law.
use crate::ev::{Outcome, Session};
use crate::mv::{self, Lift};
use crate::rng::Rng;
use blots_core::heap::{Heap, HeapPointer};
use blots_core::values::Value;
use serde_json::{Value as J, json};

pub const OPS: &[(&str, &str)] = &[
    ("add", "+"), ("sub", "-"), ("mul", "*"), ("div", "/"), ("mod", "%"), ("pow", "^"),
    ("eq", "=="), ("ne", "!="), ("lt", "<"), ("le", "<="), ("gt", ">"), ("ge", ">="),
    ("and", "&&"), ("nand", "and"), ("or", "||"), ("nor", "or"), ("coalesce", "??"),
];

pub fn sym(op: &str) -> &'static str {
    OPS.iter().find(|o| o.0 == op).map(|o| o.1).unwrap_or_else(|| panic!("op {op}"))
}

/// Does the observed value match the model's expectation? ("unk" = any number)
pub fn matches(exp: &J, v: &Value, heap: &Heap, lift: Lift) -> bool {
    match exp["t"].as_str().unwrap() {
        "unk" => matches!(v, Value::Number(_)),
        "list" => match v {
            Value::List(p) => {
                let xs = p.reify(heap).as_list().unwrap();
                let es = exp["xs"].as_array().unwrap();
                xs.len() == es.len() && xs.iter().zip(es.iter()).all(|(x, e)| matches(e, x, heap, lift))
            }
            _ => false,
        },
        "rec" => match v {
            Value::Record(p) => {
                let r = p.reify(heap).as_record().unwrap();
                let ks = exp["ks"].as_array().unwrap();
                let vs = exp["vs"].as_array().unwrap();
                r.len() == ks.len()
                    && r.iter().zip(ks.iter().zip(vs.iter())).all(|((k, x), (ek, evv))| {
                        *k == mv::cs_to_string(ek) && matches(evv, x, heap, lift)
                    })
            }
            _ => false,
        },
        "err" => false,
        _ => mv::concrete(exp, lift) == mv::concrete_of_value(v, heap),
    }
}

pub fn outcome_matches(exp: &J, o: &Outcome, heap: &Heap, lift: Lift) -> bool {
    match o {
        Outcome::Ok(v) => exp["t"] != "err" && matches(exp, v, heap, lift),
        Outcome::Err(_) => exp["t"] == "err",
        _ => false,
    }
}

pub fn describe(o: &Outcome, heap: &Heap) -> J {
    match o {
        Outcome::Ok(v) => json!({"ok": mv::concrete_of_value(v, heap)}),
        Outcome::Err(m) => json!({"err": m}),
        Outcome::ParseErr(m) => json!({"parse": m}),
        Outcome::Panic(m) => json!({"panic": m}),
    }
}

pub fn replay(case: &J) -> J {
    let lift = Lift::Id;
    let s = Session::new();
    let src = format!("{} {} {}", mv::src(&case["a"], lift), sym(case["op"].as_str().unwrap()), mv::src(&case["b"], lift));
    let o = s.eval(&src);
    let ok = outcome_matches(&case["exp"], &o, &s.heap.borrow(), lift);
    let mut mism = vec![];
    if !ok { mism.push(json!({"src": src, "exp": case["exp"], "obs": describe(&o, &s.heap.borrow())})); }
    // the same operands reached through names (one value on both sides: the second name is an alias of the first), and
    // once more as elements of a list, so that shared heap cells sit below the broadcast as well
    let aliased = case["a"] == case["b"];
    let _ = s.eval(&format!("zza = {}", mv::src(&case["a"], lift)));
    let _ = s.eval(&if aliased { "zzb = zza".to_string() } else { format!("zzb = {}", mv::src(&case["b"], lift)) });
    let src2 = format!("zza {} zzb", sym(case["op"].as_str().unwrap()));
    let o2 = s.eval(&src2);
    if !outcome_matches(&case["exp"], &o2, &s.heap.borrow(), lift) {
        mism.push(json!({"src": format!("zza = {} ; zzb = {} ; {}", mv::src(&case["a"], lift), if aliased { "zza".to_string() } else { mv::src(&case["b"], lift) }, src2), "exp": case["exp"], "obs": describe(&o2, &s.heap.borrow())}));
    }
    crate::ev::clear_stats();
    json!({"evals": 2, "mismatches": mism})
}

// ---------------------------------------------------------------- impl -> spec

fn rand_double(r: &mut Rng) -> f64 {
    match r.below(8) {
        0 => f64::from_bits(r.next()),
        1 => r.range(-20, 20) as f64,
        2 => r.range(-2000, 2000) as f64 / 16.0,
        3 => *r.pick(&[0.0, -0.0, f64::INFINITY, f64::NEG_INFINITY, f64::NAN, 1.0, -1.0, 0.5]),
        4 => (r.next() as f64 / u64::MAX as f64) * 10.0,
        5 => *r.pick(&[1e308, -1e308, 5e-324, 9007199254740992.0, 9007199254740993.0, 1e-300, 0.1, 0.2, 0.3]),
        6 => f64::from_bits(0x3ff0000000000000 + r.below(16)),
        _ => (r.range(-1000000, 1000000) as f64) * 1e-3,
    }
}

fn scalar_model(r: &mut Rng) -> J {
    match r.below(10) {
        0..=5 => mv::project_num(rand_double(r), Lift::Id),
        6 => json!({"t":"str","cs": (0..r.below(3)).map(|_| json!(*r.pick(&[5u64, 12, 13, 16, 19]))).collect::<Vec<_>>()}),
        7 => json!({"t":"bool","b": r.chance(1, 2)}),
        8 => json!({"t":"null"}),
        _ => mv::project_num(r.range(-8, 8) as f64, Lift::Id),
    }
}

fn proj(o: &Outcome, heap: &Heap) -> J {
    match o {
        Outcome::Ok(v) => mv::project(v, heap, Lift::Id),
        Outcome::Err(_) => json!({"t":"err"}),
        Outcome::ParseErr(m) => json!({"t":"parse","m":m}),
        Outcome::Panic(m) => json!({"t":"panic","m":m}),
    }
}

/// "ieee" events: one arithmetic operator on two doubles, scalar and through a one-element broadcast, against the host's
/// IEEE-754 operation; first the whole grid of special operands (zeros of both signs, infinities, NaN, 0.5, 2, -1, ...)
fn ieee_events(r: &mut Rng, n: usize) -> Vec<J> {
    const SPECIAL: &[f64] = &[0.0, -0.0, f64::INFINITY, f64::NEG_INFINITY, f64::NAN, 1.0, -1.0, 0.5, -0.5, 2.0, 3.0, -2.0, 1e308, 5e-324, 0.1];
    let bits = |x: f64| if x.is_nan() { "nan".to_string() } else { mv::hex(x) };
    let obs = |o: &Outcome| match o { Outcome::Ok(blots_core::values::Value::Number(v)) => bits(*v), Outcome::Ok(_) => "nonnumber".into(), o => o.class().to_string() };
    let mut pairs: Vec<(f64, f64)> = vec![];
    for a in SPECIAL { for b in SPECIAL { pairs.push((*a, *b)); } }
    for _ in 0..n { pairs.push((rand_double(r), rand_double(r))); }
    let mut out = vec![];
    let s = Session::new();
    for (x, y) in pairs {
        for (name, sym) in [("add", "+"), ("sub", "-"), ("mul", "*"), ("div", "/"), ("mod", "%"), ("pow", "^")] {
            let want = match name { "add" => x + y, "sub" => x - y, "mul" => x * y, "div" => x / y, "mod" => x % y, _ => x.powf(y) };
            let (xs, ys) = (mv::num_src(x), mv::num_src(y));
            let scalar = obs(&s.eval(&format!("{xs} {sym} {ys}")));
            let bl = obs(&s.eval(&format!("([{xs}] {sym} {ys})[0]")));
            let br = obs(&s.eval(&format!("({xs} {sym} [{ys}])[0]")));
            let bb = obs(&s.eval(&format!("([{xs}] {sym} [{ys}])[0]")));
            out.push(json!({"ev":"ieee","op":name,"want":bits(want),"scalar":scalar,"list_scalar":bl,"scalar_list":br,"list_list":bb,"src":format!("{xs} {sym} {ys}")}));
        }
        crate::ev::clear_stats();
    }
    out
}

pub fn record(seed: u64, n: usize) -> Vec<J> {
    let mut r = Rng::new(seed);
    let lift = Lift::Id;
    let mut out = ieee_events(&mut r, n / 10);
    for i in 0..n {
        let s = Session::new();
        let op = OPS[r.below(OPS.len() as u64) as usize];
        match i % 4 {
            0 | 1 => {
                // broadcast: list (x) scalar / scalar (x) list / list (x) list over scalar elements;
                // element results are obtained from the real evaluator one scalar operation at a time.
                // half of the time all elements are numbers (so arithmetic succeeds)
                let numeric = r.chance(1, 2);
                let el = |r: &mut Rng| if numeric { mv::project_num(rand_double(r), Lift::Id) } else { scalar_model(r) };
                let shape = *r.pick(&["ls", "sl", "ll"]);
                let len = r.below(9) as usize;
                let l: Vec<J> = (0..len).map(|_| el(&mut r)).collect();
                let rlen = if shape == "ll" && r.chance(1, 5) { r.below(9) as usize } else { len };
                let rr: Vec<J> = (0..rlen).map(|_| el(&mut r)).collect();
                let sc = el(&mut r);
                let lsrc = format!("[{}]", l.iter().map(|x| mv::src(x, lift)).collect::<Vec<_>>().join(", "));
                let rsrc = format!("[{}]", rr.iter().map(|x| mv::src(x, lift)).collect::<Vec<_>>().join(", "));
                let ssrc = mv::src(&sc, lift);
                let (whole, pairs): (String, Vec<(String, String)>) = match shape {
                    "ls" => (format!("{} {} {}", lsrc, op.1, ssrc), l.iter().map(|x| (mv::src(x, lift), ssrc.clone())).collect()),
                    "sl" => (format!("{} {} {}", ssrc, op.1, lsrc), l.iter().map(|x| (ssrc.clone(), mv::src(x, lift))).collect()),
                    _ => (format!("{} {} {}", lsrc, op.1, rsrc),
                          l.iter().zip(rr.iter()).map(|(x, y)| (mv::src(x, lift), mv::src(y, lift))).collect()),
                };
                let res = s.eval(&whole);
                let elems: Vec<J> = pairs.iter().map(|(x, y)| {
                    let o = s.eval(&format!("{} {} {}", x, op.1, y));
                    proj(&o, &s.heap.borrow())
                }).collect();
                out.push(json!({"ev":"bcast","op":op.0,"shape":shape,"llen":l.len(),"rlen": if shape=="ll" {rr.len()} else {0},
                                "elems":elems,"res":proj(&res, &s.heap.borrow()),"src":whole}));
            }
            2 => {
                // scalar operation on model-vocabulary operands: TLC recomputes it with ElemOp
                let small = |r: &mut Rng| -> J {
                    match r.below(8) {
                        0..=3 => mv::project_num(r.range(-8, 8) as f64, Lift::Id),
                        4 => mv::project_num(*r.pick(&[-0.0, f64::INFINITY, f64::NEG_INFINITY, f64::NAN]), Lift::Id),
                        _ => scalar_model(r),
                    }
                };
                let a = small(&mut r);
                let b = small(&mut r);
                if a["k"] == "bits" || b["k"] == "bits" { continue; }
                let src = format!("{} {} {}", mv::src(&a, lift), op.1, mv::src(&b, lift));
                let o = s.eval(&src);
                out.push(json!({"ev":"scalar","op":op.0,"a":a,"b":b,"res":proj(&o, &s.heap.borrow()),"src":src}));
            }
            _ => {
                // algebraic identities on arbitrary doubles, judged by TLC as identity of opaque values
                let x = rand_double(&mut r);
                let y = rand_double(&mut r);
                let (xs, ys) = (mv::num_src(x), mv::num_src(y));
                let laws: Vec<(&str, String, String)> = vec![
                    ("add_comm", format!("{xs} + {ys}"), format!("{ys} + {xs}")),
                    ("mul_comm", format!("{xs} * {ys}"), format!("{ys} * {xs}")),
                    ("sub_as_add_neg", format!("{xs} - {ys}"), format!("{xs} + (-({ys}))")),
                    ("mul_one", format!("{xs} * 1"), xs.clone()),
                    ("div_one", format!("{xs} / 1"), xs.clone()),
                    ("pow_one", format!("{xs} ^ 1"), xs.clone()),
                    ("sub_bcast_sl", format!("({xs} - [{ys}])[0]"), format!("{xs} - {ys}")),
                    ("div_bcast_sl", format!("({xs} / [{ys}])[0]"), format!("{xs} / {ys}")),
                    ("lt_mirror", format!("({xs} < [{ys}])[0]"), format!("({ys} > [{xs}])[0]")),
                    ("le_mirror", format!("([{xs}] <= {ys})[0]"), format!("({ys} >= [{xs}])[0]")),
                ];
                let (law, lsrc, rsrc) = &laws[r.below(laws.len() as u64) as usize];
                let lo = s.eval(lsrc);
                let ro = s.eval(rsrc);
                out.push(json!({"ev":"alg","law":law,"lhs":proj(&lo, &s.heap.borrow()),"rhs":proj(&ro, &s.heap.borrow()),
                                "src": format!("{lsrc}  ==?  {rsrc}")}));
            }
        }
        crate::ev::clear_stats();
    }
    out
}
