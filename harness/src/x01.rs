//! X01 - extended conformance (not a listed property): scalar and predicate built-ins of spec/BlotsScalar.tla.
use crate::c11::{describe, outcome_matches};
use crate::ev::{Outcome, Session};
use crate::mv::{self, Lift};
use serde_json::{Value as J, json};

fn arg_src(v: &J, lift: Lift) -> String {
    if v["t"] == "fnsig" {
        let ps: Vec<String> = v["ms"].as_array().unwrap().iter().enumerate().map(|(i, m)| match m.as_str().unwrap() {
            "req" => format!("p{i}"), "opt" => format!("p{i}?"), _ => format!("...p{i}") }).collect();
        return format!("(({}) => 0)", ps.join(", "));
    }
    mv::src(v, lift)
}

pub fn replay(case: &J) -> J {
    let c = &case["c"];
    let f = c["f"].as_str().unwrap();
    let lift = if ["floor", "ceil", "trunc", "round", "abs"].contains(&f) { Lift::Half } else { Lift::Id };
    let src = match f {
        "includes" | "dot" => format!("{}({}, {})", f, arg_src(&c["v"], lift), arg_src(&c["w"], lift)),
        _ => format!("{}({})", f, arg_src(&c["v"], lift)),
    };
    let s = Session::new();
    let o = s.eval(&src);
    let exp = &case["exp"];
    let ok = if exp["t"] == "tyname" {
        match &o { Outcome::Ok(v) => mv::concrete_of_value(v, &s.heap.borrow()) == json!({"s": exp["s"]}), _ => false }
    } else if exp["t"] == "any" {
        matches!(o, Outcome::Ok(_) | Outcome::Err(_))
    } else if exp["t"] == "unk" {
        matches!(o, Outcome::Ok(_))
    } else {
        outcome_matches(exp, &o, &s.heap.borrow(), lift)
    };
    crate::ev::clear_stats();
    if ok { json!({"evals": 1, "mismatches": []}) } else { json!({"evals": 1, "mismatches": [{"src": src, "exp": exp, "obs": describe(&o, &s.heap.borrow())}]}) }
}
