//! C15 - aggregates in both calling conventions.
use crate::ev::{Outcome, Session};
use crate::mv::{self, Lift};
use crate::rng::Rng;
use crate::vgen;
use serde_json::{Value as J, json};

fn expected_bits(exp: &J, lift: Lift) -> Option<String> {
    let x = match exp["t"].as_str().unwrap() {
        "num" => mv::num_of(exp, lift),
        "mid" => (mv::num_of(&exp["lo"], lift) + mv::num_of(&exp["hi"], lift)) / 2.0,
        "ratio" => exp["num"].as_i64().unwrap() as f64 / exp["den"].as_i64().unwrap() as f64,
        "unk" => return None,
        t => panic!("c15 expected {t}"),
    };
    Some(if x.is_nan() { "nan".into() } else { mv::hex(x) })
}

fn obs_bits(o: &Outcome) -> String {
    match o {
        Outcome::Ok(blots_core::values::Value::Number(x)) => {
            if x.is_nan() { "nan".into() } else { mv::hex(*x) }
        }
        Outcome::Ok(_) => "nonnumber".into(),
        Outcome::Err(m) => format!("err:{m}"),
        Outcome::ParseErr(m) => format!("parse:{m}"),
        Outcome::Panic(m) => format!("panic:{m}"),
    }
}

fn forms(f: &str, items: &[String]) -> Vec<(&'static str, String)> {
    let list = format!("[{}]", items.join(", "));
    vec![
        ("list", format!("{}({})", f, list)),
        ("separate", format!("{}({})", f, items.join(", "))),
        ("spread", format!("{}(...{})", f, list)),
        // several spreads in one call, an empty one first / in the middle / last
        ("spread", format!("{}(...[], ...{})", f, list)),
        ("spread", format!("{}(...[{}], ...[], ...[{}])", f, items[..items.len() / 2].join(", "), items[items.len() / 2..].join(", "))),
        ("spread", format!("{}(...{}, ...[])", f, list)),
    ]
}

pub fn replay(case: &J, lifts: &[Lift]) -> J {
    let f = case["f"].as_str().unwrap();
    let order = matches!(f, "min" | "max" | "median");
    let mut mism = vec![];
    let mut evals = 0;
    let ls: Vec<Lift> = if order { lifts.to_vec() } else { vec![Lift::Id] };
    for lift in ls {
        let s = Session::new();
        let items: Vec<String> = case["xs"].as_array().unwrap().iter().map(|x| mv::src(x, lift)).collect();
        let exp = expected_bits(&case["exp"], lift);
        // a call that fails part-way through its arguments comes first: nothing of it may be left for the next call
        let failing = s.eval(&format!("{}(7, 3, \"x\", 9)", f));
        if failing.is_ok() { mism.push(json!({"src": format!("{}(7, 3, \"x\", 9)", f), "conv": "separate", "lift": lift.name(), "exp": "an error", "obs": "a value"})); }
        for (conv, src) in forms(f, &items) {
            let o = s.eval(&src);
            evals += 1;
            let ob = obs_bits(&o);
            let ok = match &exp { Some(e) => *e == ob, None => !ob.contains(':') };
            if !ok {
                mism.push(json!({"src": src, "conv": conv, "lift": lift.name(), "exp": exp, "obs": ob}));
            }
        }
    }
    crate::ev::clear_stats();
    json!({"evals": evals, "mismatches": mism})
}

pub fn record(seed: u64, n: usize) -> Vec<J> {
    let mut r = Rng::new(seed);
    let mut out = vec![];
    // the first events are long even-length lists of widely spread ranks for median / min / max: selection shortcuts that
    // only order part of the list show on lists longer than the small-slice threshold of the standard library's sorts
    let directed: Vec<usize> = [18usize, 20, 22, 24, 32, 40, 50, 64].iter().flat_map(|l| std::iter::repeat(*l).take(8)).collect();
    // directed: products with a zero and an infinity among the factors, in every order (NaN wherever they stand)
    for ds in [vec![0.0, f64::INFINITY], vec![f64::INFINITY, 0.0], vec![2.0, 0.0, f64::NEG_INFINITY, 3.0], vec![f64::NEG_INFINITY, 5.0, -0.0], vec![0.0, 7.0, 3.0, f64::INFINITY, 0.5],
               vec![-0.0, f64::INFINITY, f64::INFINITY], vec![4.0, f64::INFINITY, 2.0, 0.0]] {
        let s = Session::new();
        let items: Vec<String> = ds.iter().map(|x| mv::num_src(*x)).collect();
        let fs = forms("prod", &items);
        let obs: Vec<String> = fs.iter().map(|(_, src)| obs_bits(&s.eval(src))).collect();
        let spread = if obs[3..].iter().all(|o| *o == obs[2]) { obs[2].clone() } else { format!("spread forms differ: {:?}", &obs[2..]) };
        out.push(json!({"ev":"conv","f":"prod","list":obs[0],"separate":obs[1],"spread":spread,"member":"n/a","expected":"nan","src":fs[1].1}));
    }
    for i in 0..n + directed.len() {
        let s = Session::new();
        let lift = *r.pick(Lift::all());
        let forced = if i < directed.len() { Some(directed[i]) } else { None };
        let i = if forced.is_some() { 1 } else { i - directed.len() };
        let big = r.chance(1, 4);
        let len = forced.unwrap_or(1 + r.below(if big { 50 } else { 9 }) as usize);
        let ranks: Vec<i64> = (0..len).map(|_| if forced.is_some() { r.range(-40, 40) } else { r.range(-6, 6) }).collect();
        let xs: Vec<J> = ranks.iter().map(|k| vgen::fin(*k)).collect();
        let items: Vec<String> = xs.iter().map(|x| mv::src(x, lift)).collect();
        let list = format!("[{}]", items.join(", "));
        match i % 3 {
            0 => {
                // percentile over an increasing grid of p, in hundredths: whole p and fractional p (below 1 as well)
                let mut ps: Vec<i64> = vec![0, 10000];
                for _ in 0..r.below(9) { ps.push(match r.below(4) { 0 => r.range(1, 99), 1 => r.range(100, 9999), _ => r.range(0, 100) * 100 }); }
                ps.extend([25, 50, 90, 100, 3750]);
                ps.sort();
                ps.dedup();
                let rs: Vec<J> = ps.iter().map(|p| {
                    match s.eval(&format!("percentile({}, {})", list, *p as f64 / 100.0)) {
                        Outcome::Ok(v) => mv::project(&v, &s.heap.borrow(), lift),
                        Outcome::Err(_) => json!({"t":"err"}),
                        Outcome::ParseErr(m) => json!({"t":"parse","m":m}),
                        Outcome::Panic(m) => json!({"t":"panic","m":m}),
                    }
                }).collect();
                out.push(json!({"ev":"pct","xs":xs,"psx":ps,"rs":rs,"lift":lift.name(),"src":format!("percentile({}, ..)", list)}));
            }
            1 => {
                let f = if forced.is_some() { "median" } else { *r.pick(&["min", "max", "median"]) };
                let src = format!("{}({})", f, list);
                let o = s.eval(&src);
                let res = match &o {
                    Outcome::Ok(v) => mv::project(v, &s.heap.borrow(), lift),
                    _ => json!({"t":"err"}),
                };
                // (lo + hi) / 2 in doubles for every pair of distinct ranks present (median of an even-length list)
                let mut ds = ranks.clone();
                ds.sort();
                ds.dedup();
                let mut mids = vec![];
                for a in 0..ds.len() {
                    for b in (a + 1)..ds.len() {
                        mids.push(json!([ds[a], ds[b], mv::hex((lift.apply(ds[a]) + lift.apply(ds[b])) / 2.0)]));
                    }
                }
                out.push(json!({"ev":"agg","f":f,"xs":xs,"res":res,"bits":obs_bits(&o),"mids":mids,"lift":lift.name(),"src":src}));
            }
            _ => {
                // calling conventions on arbitrary doubles: identity of the three observed results
                let f = *r.pick(&["min", "max", "median", "sum", "prod", "avg"]);
                let k = 1 + r.below(8) as usize;
                let ds: Vec<f64> = (0..k).map(|_| match r.below(4) {
                    0 => f64::from_bits(r.next()),
                    1 => r.range(-1000, 1000) as f64 / 8.0,
                    2 => *r.pick(&[0.1, 0.2, 0.3, 1e16, 1.0, -1e16, 1e-9, 3.0, f64::INFINITY, f64::NEG_INFINITY, 1.7e308, -1.7e308, f64::MAX, 9.1e307, 5e-324]),
                    _ => r.range(-5, 5) as f64,
                }).filter(|x| !x.is_nan()).collect();
                if ds.is_empty() { continue; }
                let items: Vec<String> = ds.iter().map(|x| mv::num_src(*x)).collect();
                let fs = forms(f, &items);
                let obs: Vec<String> = fs.iter().map(|(_, src)| obs_bits(&s.eval(src))).collect();
                // membership: min / max / median of an odd count is one of the values
                let member = if f == "min" || f == "max" || (f == "median" && ds.len() % 2 == 1) {
                    if ds.iter().any(|x| mv::hex(*x) == obs[0] || (*x == 0.0 && (obs[0] == mv::hex(0.0) || obs[0] == mv::hex(-0.0)))) { "yes" } else { "no" }
                } else { "n/a" };
                // sum / avg with an infinity of one sign: that infinity, in every order
                let (pinf, ninf) = (ds.iter().any(|x| *x == f64::INFINITY), ds.iter().any(|x| *x == f64::NEG_INFINITY));
                let tame = ds.iter().all(|x| x.is_infinite() || x.abs() < 1e300);
                let expected = if (f == "sum" || f == "avg") && (pinf != ninf) && tame { mv::hex(if pinf { f64::INFINITY } else { f64::NEG_INFINITY }) } else { "n/a".to_string() };
                // a product with a zero and an infinity among its factors is NaN wherever they stand; with a zero and only finite
                // factors it is a zero
                let has_zero = ds.iter().any(|x| *x == 0.0);
                let has_inf = ds.iter().any(|x| x.is_infinite());
                let expected = if f == "prod" && has_zero && has_inf { "nan".to_string() }
                               else if f == "prod" && has_zero && ds.iter().all(|x| x.abs() < 1e30) && (obs[0] == mv::hex(0.0) || obs[0] == mv::hex(-0.0)) { obs[0].clone() }
                               else if f == "prod" && has_zero && ds.iter().all(|x| x.abs() < 1e30) { mv::hex(0.0) } else { expected };
                let spread = if obs[3..].iter().all(|o| *o == obs[2]) { obs[2].clone() } else { format!("spread forms differ: {:?}", &obs[2..]) };
                out.push(json!({"ev":"conv","f":f,"list":obs[0],"separate":obs[1],"spread":spread,"member":member,"expected":expected,"src":fs[1].1}));
            }
        }
        crate::ev::clear_stats();
    }
    out
}
