//! C03 - bindings are immutable and scoped: replay of Session.tla behaviours, recording of random sessions.
use crate::core;
use crate::ev::{Outcome, Session};
use crate::mv::{self, Lift};
use crate::rng::Rng;
use blots_core::environment::verif_hooks as envhooks;
use serde_json::{Value as J, json};

/// projection of a real value to the vocabulary of Session.tla (closures by kind)
fn proj(v: &blots_core::values::Value, s: &Session) -> J {
    match v {
        blots_core::values::Value::Lambda(_) => json!({"t":"fn"}),
        _ => strip_fns(mv::project(v, &s.heap.borrow(), Lift::Id)),
    }
}

/// functions nested in lists / records are compared by kind, like the model's ProjV
fn strip_fns(j: J) -> J {
    match j {
        J::Object(m) if m.get("t") == Some(&json!("fn")) => json!({"t":"fn"}),
        J::Object(m) => J::Object(m.into_iter().map(|(k, v)| (k, strip_fns(v))).collect()),
        J::Array(a) => J::Array(a.into_iter().map(strip_fns).collect()),
        x => x,
    }
}

/// the root scope without `inputs`, as {name: projected value}
pub fn root_env(s: &Session) -> serde_json::Map<String, J> {
    let mut m = serde_json::Map::new();
    let mut items: Vec<(String, blots_core::values::Value)> = s.env.iter().collect();
    items.sort_by(|a, b| a.0.cmp(&b.0));
    for (k, v) in items {
        if k == "inputs" { continue; }
        // reading a binding goes through the heap: a value that is no longer there is an observation, not a harness failure
        let p = std::panic::catch_unwind(std::panic::AssertUnwindSafe(|| proj(&v, s)))
            .unwrap_or_else(|e| json!({"t":"unreadable","panic": crate::ev::panic_msg(e)}));
        m.insert(k, p);
    }
    m
}

fn expected_env(e: &J) -> serde_json::Map<String, J> {
    let mut m = serde_json::Map::new();
    for (k, v) in e.as_object().unwrap() {
        if v["t"] != "unb" { m.insert(k.clone(), v.clone()); }
    }
    m
}

pub fn replay(case: &J) -> J {
    let s = Session::new();
    let mut mism = vec![];
    let mut script = vec![];
    for (i, step) in case["steps"].as_array().unwrap().iter().enumerate() {
        let src = core::render_stmt(&step["st"]);
        script.push(src.clone());
        let o = s.eval(&src);
        let ok = o.is_ok();
        let exp_ok = step["ok"].as_bool().unwrap();
        let env = root_env(&s);
        let exp_env = expected_env(&step["env"]);
        let mut problems = vec![];
        if matches!(o, Outcome::Panic(_)) { problems.push(format!("panic: {}", o.msg())); }
        if ok != exp_ok { problems.push(format!("statement {} but the model says {}", if ok { "succeeded" } else { "failed" }, if exp_ok { "succeeds" } else { "fails" })); }
        if env != exp_env { problems.push(format!("root scope is {} but the model says {}", J::Object(env.clone()), J::Object(exp_env.clone()))); }
        if ok && exp_ok {
            if let Outcome::Ok(v) = &o {
                let got = proj(v, &s);
                if step["v"]["t"] != "unk" && got != step["v"] { problems.push(format!("value {} but the model says {}", got, step["v"])); }
            }
        }
        if !problems.is_empty() {
            mism.push(json!({"step": i + 1, "script": script.clone(), "src": src, "obs": problems}));
            break; // later steps depend on this state
        }
    }
    crate::ev::clear_stats();
    json!({"evals": script.len(), "mismatches": mism})
}

// ---------------------------------------------------------------- impl -> spec: random sessions
fn num(v: i64) -> J { json!({"k":"num","v":v}) }
fn id(n: &str) -> J { json!({"k":"id","n":n}) }
fn asg(n: &str, e: J) -> J { json!({"k":"asg","n":n,"e":e}) }
fn add(l: J, r: J) -> J { json!({"k":"bin","o":"add","l":l,"r":r}) }
fn lam(ps: Vec<&str>, b: J) -> J { json!({"k":"lam","ps": ps.iter().map(|p| json!({"n":p,"m":"req"})).collect::<Vec<_>>(),"b":b}) }
fn call(f: J, args: Vec<J>) -> J { json!({"k":"call","f":f,"args":args}) }
fn dob(ss: Vec<J>, r: J) -> J { json!({"k":"do","ss":ss,"r":r}) }

pub const VARS: &[&str] = &["a", "b", "c", "d", "e", "f", "g", "h"];

fn gen_stmt(r: &mut Rng) -> J {
    let n = *r.pick(VARS);
    let m = *r.pick(VARS);
    let p = *r.pick(VARS);
    let lit = |v: J| json!({"k":"lit","v":v});
    let sa = json!({"t":"str","cs":[12]});
    let e = match r.below(41) {
        38 => call(lam(vec![], asg(n, num(4))), vec![]),
        39 => call(lam(vec![], add(asg(n, num(4)), id(m))), vec![]),
        40 => call(json!({"k":"dot","e":{"k":"rec","es":[{"m":"static","key":[12],"e":lam(vec![], asg(n, num(0)))}]},"f":[12]}), vec![]),
        36 => asg(n, call(id("max"), vec![asg(m, num(3)), num(1)])),
        37 => asg(n, call(lam(vec!["x"], id("x")), vec![asg(if r.chance(1, 2) { n } else { m }, num(3))])),
        32 => dob(vec![], asg(n, num(9))),
        33 => asg(n, dob(vec![], asg(m, num(8)))),
        34 => asg(n, dob(vec![asg(m, num(6))], asg(m, add(id(m), num(1))))),
        35 => call(lam(vec![], dob(vec![], asg(n, num(4)))), vec![]),
        20 => asg(n, json!({"k":"rec","es":[{"m":"static","key":[12],"e":num(1)},{"m":"static","key":[13],"e":{"k":"list","xs":[num(1)]}}]})),
        21 => asg(n, lit(match r.below(3) { 0 => sa.clone(), 1 => json!({"t":"bool","b":true}), _ => json!({"t":"null"}) })),
        22 => asg(n, json!({"k":"rec","es":[{"m":"short","n":*r.pick(&["a", "b", "c"])},{"m":"static","key":[12],"e":num(2)}]})),
        23 => asg(n, json!({"k":"rec","es":[{"m":"static","key":[14],"e":num(3)},{"m":"spread","e":id(m)},{"m":"static","key":[14],"e":num(4)}]})),
        24 => asg(n, json!({"k":"rec","es":[{"m":"dyn","ke":id(m),"e":num(1)}]})),
        25 => asg(n, json!({"k":"dot","e":id(m),"f":[12]})),
        26 => json!({"k":"idx","e":id(m),"i":if r.chance(1, 2) { lit(sa.clone()) } else { num(0) }}),
        27 => asg(n, json!({"k":"list","xs":[{"k":"spread","e":id(m)}, num(3)]})),
        28 => call(id("max"), vec![json!({"k":"spread","e":id(m)}), num(1)]),
        29 => asg(n, json!({"k":"bin","o":"add","l":id(m),"r":lit(json!({"t":"str","cs":[13]}))})),
        30 => json!({"k":"un","o":if r.chance(1, 2) { "neg" } else { "not" },"e":id(m)}),
        31 => asg(n, json!({"k":"bin","o":*r.pick(&["coalesce", "and", "nor"]),"l":id(m),"r":if r.chance(1, 2) { num(5) } else { lit(json!({"t":"bool","b":true})) }})),
        0 | 1 => asg(n, num(r.range(1, 4))),
        2 => asg(n, id(m)),
        3 => asg(n, add(asg(m, num(2)), num(1))),
        4 => asg(n, add(asg(m, add(asg(p, num(1)), num(1))), num(1))),
        5 => asg(n, id("zz")),
        6 => asg(n, add(asg(m, num(3)), id("zz"))),
        7 => asg(*r.pick(&["inputs", "constants", "sum", "max"]), num(1)),
        8 => dob(vec![asg(n, num(9))], id(n)),
        9 => asg(n, dob(vec![asg(m, num(7))], add(id(m), num(1)))),
        10 => asg(n, lam(vec!["x"], add(id(m), id("x")))),
        11 => asg(n, call(id(m), vec![num(1)])),
        12 => call(lam(vec![n], add(id(n), num(1))), vec![num(5)]),
        13 => asg(n, lam(vec![], asg(m, num(5)))),
        14 => call(id(n), vec![]),
        15 => json!({"k":"list","xs":[asg(n, num(1)), asg(m, add(id(n), num(1)))]}),
        16 => call(id("max"), vec![asg(n, num(3)), num(1)]),
        17 => json!({"k":"if","c":{"k":"bin","o":"eq","l":num(1),"r":num(1)},"t":asg(n, num(1)),"e":asg(m, num(2))}),
        18 => json!({"k":"bin","o":"via","l":{"k":"list","xs":[num(1), num(2)]},"r":lam(vec![n], asg(m, id(n)))}),
        _ => add(id(n), num(1)),
    };
    let out = if r.chance(1, 10) && (e["k"] == "asg" || e["k"] == "id") { e["n"].as_str().unwrap_or("").to_string() } else { String::new() };
    // reserved names are not valid output targets in the model's statement vocabulary
    json!({"e": e, "out": if VARS.contains(&out.as_str()) { out } else { String::new() }})
}

pub fn record(seed: u64, n: usize) -> Vec<J> {
    let mut r = Rng::new(seed);
    let mut out = vec![];
    let mut s = Session::new();
    out.push(json!({"ev":"reset"}));
    for i in 0..n {
        if i > 0 && i % 25 == 0 {
            s = Session::new();
            out.push(json!({"ev":"reset"}));
        }
        let st = gen_stmt(&mut r);
        let src = core::render_stmt(&st);
        envhooks::start();
        let o = s.eval(&src);
        let inserts: Vec<J> = envhooks::take().into_iter().filter(|e| e.root).map(|e| json!({"key": e.key, "existed": e.existed})).collect();
        let mut env = serde_json::Map::new();
        for v in VARS { env.insert(v.to_string(), json!({"t":"unb"})); }
        env.insert("x".into(), json!({"t":"unb"}));
        let mut extra = vec![];
        for (k, v) in root_env(&s) {
            if env.contains_key(&k) { env.insert(k, v); } else { extra.push(k); }
        }
        out.push(json!({"ev":"stmt","st":st,"ok":o.is_ok(),"panic":matches!(o, Outcome::Panic(_)),"env":env,"extra":extra,"inserts":inserts,"src":src}));
        crate::ev::clear_stats();
    }
    out
}
