//! C19 - the CLI contract: every behaviour of spec/Cli.tla as one real invocation of the blots binary.
use indexmap::IndexMap;
use serde_json::{Value as J, json};
use std::io::Write;
use std::process::{Command, Stdio};

pub fn val_json(v: &J) -> J {
    match v["t"].as_str().unwrap() {
        "null" => J::Null,
        "int" => json!(v["v"].as_i64().unwrap() as f64),
        "str" => json!(v["s"].as_str().unwrap()),
        "list" => J::Array(v["xs"].as_array().unwrap().iter().map(val_json).collect()),
        t => panic!("cli value {t}"),
    }
}

fn source_text(s: &J) -> String {
    match s["k"].as_str().unwrap() {
        "bad" => "{\"a\": 1,, not json".to_string(),
        "val" => val_json(&s["v"]).to_string(),
        "obj" => {
            let ks = s["ks"].as_array().unwrap();
            let vs = s["vs"].as_array().unwrap();
            let parts: Vec<String> = ks.iter().zip(vs.iter()).map(|(k, v)| format!("{}: {}", k, val_json(v))).collect();
            format!("{{{}}}", parts.join(", "))
        }
        k => panic!("source {k}"),
    }
}

pub fn stmt_text(st: &J) -> String {
    let n = st["n"].as_str().unwrap_or("");
    match st["k"].as_str().unwrap() {
        "outin" => format!("output {} = inputs.{}", n, st["x"].as_str().unwrap()),
        "outref" => format!("output {} = #{}", n, st["x"].as_str().unwrap()),
        "outlit" => format!("output {} = {}", n, st["x"]),
        "refs" => format!("output {} = [#a, inputs.a, #zz, inputs.zz]", n),
        "refsdo" => format!("output {} = do {{\n  inputs = {{a: 9}}\n  return [#a, inputs.a, #zz]\n}}", n),
        "refsfn" => format!("output {} = (inputs => [#a, inputs.a, #zz])({{a: 9}})", n),
        "bind" => format!("{} = {}", n, st["x"]),
        "out" => format!("output {}", n),
        "evalerr" => "w0 = nosuch".to_string(),
        "parseerr" => "output = 3".to_string(),
        "nonportable" => format!("output {} = x => x + q", n),
        "plain" => "1 + 1".to_string(),
        k => panic!("stmt {k}"),
    }
}

fn json_object_lines(text: &str) -> Vec<IndexMap<String, J>> {
    text.lines().filter_map(|l| serde_json::from_str::<IndexMap<String, J>>(l.trim()).ok()).collect()
}

pub fn run_case(case: &J, cli: &str, idx: usize) -> J {
    let dir = std::env::temp_dir().join(format!("bvh_cli_{}_{}", std::process::id(), idx));
    let _ = std::fs::create_dir_all(&dir);
    let script: Vec<String> = case["script"].as_array().unwrap().iter().map(stmt_text).collect();
    let script = script.join("\n");
    let mode = case["mode"].as_str().unwrap();
    let mut cmd = Command::new("timeout");
    cmd.arg("20").arg(cli);
    for f in case["flags"].as_array().unwrap() {
        cmd.arg("-i").arg(source_text(f));
    }
    let outfile = dir.join("out.json");
    let mut stdin_data: Option<String> = case["stdin"].as_array().unwrap().first().map(source_text);
    match mode {
        "inline" => { cmd.arg(&script); }
        "file" => {
            let p = dir.join("prog.blots");
            std::fs::write(&p, &script).unwrap();
            cmd.arg(&p);
        }
        "evaluate" => { cmd.arg("-e"); stdin_data = Some(script.clone()); }
        "outfile" => {
            // every other run writes onto a file that already holds something longer (which is not an outputs object)
            if idx % 2 == 0 { std::fs::write(&outfile, format!("\"stale {}\"\n", "x".repeat(6000))).unwrap(); }
            cmd.arg("-o").arg(&outfile).arg(&script);
        }
        m => panic!("mode {m}"),
    }
    cmd.stdout(Stdio::piped()).stderr(Stdio::piped());
    cmd.stdin(if stdin_data.is_some() { Stdio::piped() } else { Stdio::null() });
    let mut child = cmd.spawn().expect("spawn blots");
    if let Some(d) = &stdin_data {
        let mut si = child.stdin.take().unwrap();
        let _ = si.write_all(d.as_bytes());
    }
    let out = child.wait_with_output().expect("wait");
    let code = out.status.code();
    let stdout = String::from_utf8_lossy(&out.stdout).to_string();
    let stderr = String::from_utf8_lossy(&out.stderr).to_string();
    let exp_exit = case["exit"].as_i64().unwrap();
    let mut problems = vec![];
    let objs = json_object_lines(&stdout);
    let file_obj: Option<IndexMap<String, J>> = std::fs::read_to_string(&outfile).ok().and_then(|t| serde_json::from_str(&t).ok());
    let exp_obj: Vec<(String, J)> = case["object"].as_array().unwrap().iter().map(|p| (p[0].as_str().unwrap().to_string(), val_json(&p[1]))).collect();
    let as_pairs = |m: &IndexMap<String, J>| -> Vec<(String, J)> { m.iter().map(|(k, v)| (k.clone(), v.clone())).collect() };
    if exp_exit == 0 {
        if code != Some(0) { problems.push(format!("exit status {:?}, the model says 0", code)); }
        if mode == "outfile" {
            if !objs.is_empty() { problems.push("an object on stdout although --output was given".into()); }
            match &file_obj { Some(m) => if as_pairs(m) != exp_obj { problems.push(format!("--output file holds {:?}, the model says {:?}", as_pairs(m), exp_obj)); },
                              None => problems.push("no outputs object in the --output file".into()) }
        } else {
            if objs.len() != 1 { problems.push(format!("{} JSON objects on stdout, exactly one expected", objs.len())); }
            else if as_pairs(&objs[0]) != exp_obj { problems.push(format!("outputs object {:?}, the model says {:?}", as_pairs(&objs[0]), exp_obj)); }
        }
    } else {
        if code == Some(0) || code.is_none() { problems.push(format!("exit status {:?}, the model says non-zero", code)); }
        if matches!(code, Some(101) | Some(134) | Some(139) | Some(124)) { problems.push(format!("crash / timeout: exit status {:?}", code)); }
        if !objs.is_empty() || file_obj.is_some() { problems.push("an outputs object was emitted although the run failed".into()); }
        if stdout.trim().is_empty() && stderr.trim().is_empty() { problems.push("no error report".into()); }
    }
    let _ = std::fs::remove_dir_all(&dir);
    if problems.is_empty() { json!({"evals": 1, "mismatches": []}) }
    else { json!({"evals": 1, "mismatches": [{"src": format!("mode={} stdin={:?} flags={:?} script={:?}", mode, stdin_data, case["flags"].as_array().unwrap().iter().map(source_text).collect::<Vec<_>>(), script),
                                              "obs": problems, "stdout": stdout.chars().take(300).collect::<String>(), "stderr": stderr.chars().take(300).collect::<String>()}]}) }
}

pub fn replay_all(cases: &[J], cli: &str) -> Vec<J> {
    let n_threads = 12;
    let chunk = (cases.len() + n_threads - 1) / n_threads.max(1);
    let mut results: Vec<Vec<J>> = vec![];
    std::thread::scope(|sc| {
        let mut hs = vec![];
        for (t, part) in cases.chunks(chunk.max(1)).enumerate() {
            hs.push(sc.spawn(move || part.iter().enumerate().map(|(i, c)| run_case(c, cli, t * 1_000_000 + i)).collect::<Vec<_>>()));
        }
        for h in hs { results.push(h.join().unwrap()); }
    });
    results.into_iter().flatten().collect()
}
