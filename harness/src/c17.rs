//! C17 - unit conversion consistency: export of the real table, replay of TLC cases, numeric laws.
use crate::ev::{Outcome, Session};
use crate::mv;
use crate::rng::Rng;
use blots_core::units::{self, ConversionType, Unit};
use blots_core::values::Value;
use serde_json::{Value as J, json};
use std::collections::BTreeMap;

const PREFIXES: &[(&str, i64)] = &[("yotta", 24), ("zetta", 21), ("exa", 18), ("peta", 15), ("tera", 12), ("giga", 9), ("mega", 6), ("kilo", 3),
    ("hecto", 2), ("deca", 1), ("deka", 1), ("deci", -1), ("centi", -2), ("milli", -3), ("micro", -6), ("nano", -9), ("pico", -12), ("femto", -15)];

fn decompose(x: f64) -> (String, i64) {
    // shortest round-trip decimal: d.ddddde[-]x  ->  integer digits and power of ten
    let s = format!("{:e}", x);
    let (m, e) = s.split_once('e').unwrap();
    let e: i64 = e.parse().unwrap();
    let digits: String = m.chars().filter(|c| c.is_ascii_digit()).collect();
    let frac = m.split_once('.').map(|(_, f)| f.len()).unwrap_or(0) as i64;
    let trimmed = digits.trim_end_matches('0');
    let removed = (digits.len() - trimmed.len()) as i64;
    (if trimmed.is_empty() { "0".into() } else { trimmed.to_string() }, e - frac + removed)
}

fn capitalise(s: &str) -> String {
    let mut c = s.chars();
    match c.next() { Some(f) => f.to_uppercase().collect::<String>() + c.as_str(), None => String::new() }
}

pub fn export() -> J {
    let table = units::get_all_units();
    let mut lower: BTreeMap<String, String> = BTreeMap::new();
    let mut variants: Vec<String> = vec![];
    let mut all_ids: Vec<(usize, String)> = vec![];
    let cats: Vec<&str> = table.iter().map(|t| t.category.name()).collect();
    let mut us = vec![];
    for (u, unit) in table.iter().enumerate() {
        let (kind, coeff) = match &unit.conversion {
            ConversionType::Linear { coefficient } => ("linear", *coefficient),
            ConversionType::Reciprocal { coefficient } => ("reciprocal", *coefficient),
            ConversionType::Temperature { .. } => ("temperature", 1.0),
        };
        let (digits, exp10) = decompose(coeff);
        let ids: Vec<String> = unit.identifiers.iter().map(|s| s.to_string()).collect();
        for id in &ids {
            all_ids.push((u + 1, id.clone()));
            for v in [id.clone(), id.to_uppercase(), id.to_lowercase(), capitalise(id)] {
                lower.insert(v.clone(), v.to_lowercase());
                if !variants.contains(&v) { variants.push(v); }
            }
        }
        us.push(json!({"cat": unit.category.name(), "ids": ids, "lids": unit.identifiers.iter().map(|s| s.to_lowercase()).collect::<Vec<_>>(),
                       "kind": kind, "digits": digits, "exp10": exp10}));
    }
    for v in ["zzz", "", "meterz", "kilo", "k m", "°", "µ"] {
        lower.insert(v.to_string(), v.to_lowercase());
        variants.push(v.to_string());
    }
    // (prefixed unit, base unit, prefix) triples decided from the names
    let mut triples = vec![];
    for (u, id) in &all_ids {
        for (k, (p, _)) in PREFIXES.iter().enumerate() {
            if let Some(rest) = id.strip_prefix(p) {
                for (b, bid) in &all_ids {
                    // a prefixed name relates to a base unit of its own category ("microhm" is not micro + hm)
                    if bid == rest && b != u && cats[*b - 1] == cats[*u - 1] { let t = json!([u, b, k + 1]); if !triples.contains(&t) { triples.push(t); } }
                }
            }
        }
    }
    json!({"units": us, "lower": lower, "variants": variants, "triples": triples})
}

fn unit_index(table: &[Unit], u: &Unit) -> i64 {
    table.iter().position(|t| t.identifiers.as_ptr() == u.identifiers.as_ptr() && t.identifiers.len() == u.identifiers.len()).map(|i| i as i64 + 1).unwrap_or(-99)
}

fn real_resolve(table: &[Unit], id: &str) -> i64 {
    match units::resolve_unit(id) {
        Ok(u) => unit_index(table, &u),
        Err(e) => { let m = e.to_string(); if m.starts_with("Ambiguous") { -1 } else if m.starts_with("Unknown") { 0 } else { -98 } }
    }
}

pub fn ulps(a: f64, b: f64) -> i64 {
    if a == b || (a.is_nan() && b.is_nan()) { return 0; }
    if !a.is_finite() || !b.is_finite() || (a < 0.0) != (b < 0.0) { return if a == 0.0 && b == 0.0 { 0 } else { 1_000_000 }; }
    let d = (a.to_bits() as i128 - b.to_bits() as i128).unsigned_abs();
    d.min(1_000_000) as i64
}

/// distance in units of the last place at scale max(|a|, |b|, floor)
pub fn ulps_at_scale(a: f64, b: f64, floor: f64) -> i64 {
    if a == b { return 0; }
    if !a.is_finite() || !b.is_finite() { return 1_000_000; }
    let scale = a.abs().max(b.abs()).max(floor);
    let ulp = f64::from_bits(scale.to_bits() + 1) - scale;
    (((a - b).abs() / ulp).ceil()).min(1_000_000.0) as i64
}

pub fn replay(case: &J) -> J {
    let table = units::get_all_units();
    let mut mism = vec![];
    match case["fam"].as_str().unwrap() {
        "listed" | "variant" => {
            let id = case["id"].as_str().unwrap();
            let got = real_resolve(&table, id);
            let exp = case["resolves"].as_i64().unwrap();
            if got != exp { mism.push(json!({"src": format!("resolve_unit({:?})", id), "exp": exp, "obs": got})); }
            // the built-in resolves both of its unit arguments, also when they are the same text: it succeeds exactly when
            // the identifier names a unit
            if !id.contains('"') && !id.contains('\\') {
                let s = Session::new();
                for src in [format!("convert(5, \"{id}\", \"{id}\")"), format!("(do {{\n  u = \"{id}\"\n  return convert(5, u, u)\n}})")] {
                    let o = s.eval(&src);
                    if o.is_ok() != (exp >= 1) { mism.push(json!({"src": format!("{src} built-in"), "exp": exp >= 1, "obs": o.class()})); }
                }
            }
        }
        "pair" => {
            let (a, b) = (case["a"].as_str().unwrap(), case["b"].as_str().unwrap());
            let ok = units::convert(1.0, a, b).is_ok();
            if ok != case["convertible"].as_bool().unwrap() { mism.push(json!({"src": format!("convert(1, {:?}, {:?})", a, b), "exp": case["convertible"], "obs": ok})); }
            // the same verdict for EVERY identifier of the two units, in both directions (symbols whose other casing names a unit
            // of another category included)
            let find = |first: &str| table.iter().find(|u| u.identifiers[0] == first).map(|u| u.identifiers.to_vec()).unwrap_or_default();
            let want = case["convertible"].as_bool().unwrap();
            for ia in find(a) { for ib in find(b) {
                for (x, y) in [(ia, ib), (ib, ia)] {
                    let got = units::convert(1.0, x, y).is_ok();
                    if got != want { mism.push(json!({"src": format!("convert(1, {:?}, {:?})", x, y), "exp": want, "obs": got})); }
                }
            } }
            // the built-in agrees with the library function
            let s = Session::new();
            let o = s.eval(&format!("convert(1, {}, {})", mv::str_src(a), mv::str_src(b)));
            if o.is_ok() != ok { mism.push(json!({"src": format!("convert(1, {:?}, {:?}) built-in", a, b), "exp": ok, "obs": o.class()})); }
        }
        "prefix" => {
            let u = &table[case["unit"].as_u64().unwrap() as usize - 1];
            let b = &table[case["base"].as_u64().unwrap() as usize - 1];
            let p = case["power"].as_i64().unwrap();
            if let Ok(r) = units::convert(1.0, u.identifiers[0], b.identifiers[0]) {
                let want: f64 = format!("1e{}", p).parse().unwrap();
                if ulps(r, want) > 2 { mism.push(json!({"src": format!("convert(1, {:?}, {:?})", u.identifiers[0], b.identifiers[0]), "exp": want, "obs": r})); }
            }
        }
        f => panic!("c17 family {f}"),
    }
    crate::ev::clear_stats();
    json!({"evals": 1, "mismatches": mism})
}

pub fn record(seed: u64, thorough: bool) -> Vec<J> {
    let mut r = Rng::new(seed);
    let table = units::get_all_units();
    let mags: &[f64] = &[1e-12, 1e-6, 0.001, 1.0, 2.5, 37.0, 1000.0, 1e6, 1e12, 0.0, -1.0, -1234.5];
    let mut out = vec![];
    for (ia, a) in table.iter().enumerate() {
        for (ib, b) in table.iter().enumerate() {
            if a.category != b.category { continue; }
            let temp = matches!(a.conversion, ConversionType::Temperature { .. });
            let floor: f64 = if temp { 1000.0 } else { 0.0 };
            let (ida, idb) = (a.identifiers[0], b.identifiers[0]);
            for (k, x) in mags.iter().enumerate() {
                let reciprocal = matches!(a.conversion, ConversionType::Reciprocal { .. }) || matches!(b.conversion, ConversionType::Reciprocal { .. });
                if !thorough && !reciprocal && (ia + ib + k) % 3 != 0 && ia != ib { continue; }
                let ab = match units::convert(*x, ida, idb) { Ok(v) => v, Err(_) => continue };
                if ia == ib {
                // through the language, every identifier of the unit is that unit (the built-in hands the strings over untouched)
                if k == 3 {
                    let s = Session::new();
                    for alias in a.identifiers.iter() {
                        let o = s.eval(&format!("convert(1, {}, {})", mv::str_src(alias), mv::str_src(ida)));
                        let u = match o { Outcome::Ok(Value::Number(v)) => ulps(v, 1.0), _ => 1_000_000 };
                        out.push(json!({"ev":"num","law":"builtin","src":format!("convert(1, {alias:?}, {ida:?}) built-in"),"ulps":u}));
                    }
                    crate::ev::clear_stats();
                }
                    out.push(json!({"ev":"num","law":"identity","src":format!("convert({x}, {ida}, {ida})"),"ulps":ulps(ab, *x)}));
                    // every identifier of the unit behaves identically
                    for alias in a.identifiers.iter().skip(1) {
                        let other = table[(ia + 1) % table.len()..].iter().chain(table.iter()).find(|t| t.category == a.category).unwrap();
                        let v1 = units::convert(*x, alias, other.identifiers[0]);
                        let v0 = units::convert(*x, ida, other.identifiers[0]);
                        let same = match (v1, v0) { (Ok(p), Ok(q)) => ulps(p, q), (Err(_), Err(_)) => 0, _ => 1_000_000 };
                        out.push(json!({"ev":"num","law":"alias","src":format!("convert({x}, {alias} vs {ida}, {})", other.identifiers[0]),"ulps":same}));
                    }
                    continue;
                }
                // every identifier of the TARGET unit names the same unit too (symbols that differ from one of the source's
                // identifiers only in case included: mW -> MW is a conversion, not the identity)
                if k % 3 == 1 || thorough {
                    for alias in b.identifiers.iter().skip(1) {
                        let v1 = units::convert(*x, ida, alias);
                        let same = match v1 { Ok(p) => if p == ab || (p.is_nan() && ab.is_nan()) { 0 } else { ulps(p, ab).max(1) }, Err(_) => 1_000_000 };
                        out.push(json!({"ev":"num","law":"aliastarget","src":format!("convert({x}, {ida}, {alias} vs {idb})"),"ulps":same}));
                    }
                }
                if ab.is_finite() {
                    let back = units::convert(ab, idb, ida).unwrap_or(f64::NAN);
                    if back.is_finite() {
                        out.push(json!({"ev":"num","law":"thereback","src":format!("convert(convert({x}, {ida}, {idb}), {idb}, {ida})"),
                                        "ulps": ulps_at_scale(back, *x, floor)}));
                    }
                    // A -> B -> C = A -> C for a third unit of the category
                    let cs: Vec<&Unit> = table.iter().filter(|t| t.category == a.category).collect();
                    let c = cs[r.below(cs.len() as u64) as usize];
                    let idc = c.identifiers[0];
                    if let (Ok(abc), Ok(ac)) = (units::convert(ab, idb, idc), units::convert(*x, ida, idc)) {
                        if abc.is_finite() && ac.is_finite() {
                            out.push(json!({"ev":"num","law":"triangle","src":format!("convert({x}, {ida} -> {idb} -> {idc}) vs direct"),"ulps": ulps_at_scale(abc, ac, floor)}));
                        }
                    }
                }
                // the convert built-in gives the library's value
                if k % 4 == 0 {
                    let s = Session::new();
                    let o = s.eval(&format!("convert({}, {}, {})", mv::num_src(*x), mv::str_src(ida), mv::str_src(idb)));
                    let u = match o { Outcome::Ok(Value::Number(v)) => ulps(v, ab), _ => 1_000_000 };
                    out.push(json!({"ev":"num","law":"builtin","src":format!("convert({x}, {ida:?}, {idb:?}) built-in"),"ulps":u}));
                    crate::ev::clear_stats();
                }
            }
        }
    }
    out
}
