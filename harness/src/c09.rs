//! C09 - formatting never loses or reorders comments (also feeds C07 / C08 with commented programs).
use crate::c07::{fmt_cli, fmt_library, fmt_wasm};
use crate::syn;
use serde_json::{Value as J, json};

/// comment texts of a source text, in order (`//` outside string literals, to end of line)
pub fn comments_of(text: &str) -> Vec<String> {
    let mut out = vec![];
    for line in text.lines() {
        let cs: Vec<char> = line.chars().collect();
        let mut i = 0;
        let mut quote: Option<char> = None;
        while i < cs.len() {
            let c = cs[i];
            match quote {
                Some(q) => { if c == q { quote = None; } }
                None => {
                    if c == '"' || c == '\'' { quote = Some(c); }
                    else if c == '/' && i + 1 < cs.len() && cs[i + 1] == '/' {
                        out.push(cs[i..].iter().collect::<String>().trim_end().to_string());
                        break;
                    }
                }
            }
            i += 1;
        }
    }
    out
}

fn ctext(k: usize, fancy: bool) -> String {
    if fancy { format!("// c{k}: [a, b] {{k: 1}} \"q\" // again") } else { format!("// c{k}") }
}

/// Render a slot sequence of spec/Comments.tla as a container of the given kind.
/// `trailing_comma`: put a comma after the last item; `fancy`: comment texts with brackets / quotes.
pub fn render(kind: &str, src: &[String], trailing_comma: bool, fancy: bool, indent: &str) -> String {
    render_opt(kind, src, trailing_comma, fancy, indent, false)
}

/// `flush`: comments on a line of their own start in column 0 instead of following the indentation
pub fn render_opt(kind: &str, src: &[String], trailing_comma: bool, fancy: bool, indent: &str, flush: bool) -> String {
    let n_items = src.iter().filter(|s| *s == "i").count();
    let mut lines: Vec<String> = vec![];
    let mut item = 0;
    let mut cno = 0;
    for (p, s) in src.iter().enumerate() {
        match s.as_str() {
            "c" => { cno += 1; lines.push(if flush { ctext(cno, fancy) } else { format!("{indent}  {}", ctext(cno, fancy)) }); }
            "i" => {
                item += 1;
                let last = item == n_items;
                let body = match kind {
                    "list" => format!("x{item}"),
                    "rec" => format!("k{item}: {item}"),
                    "do" => if last { "return y".to_string() } else { format!("y{item} = {item}") },
                    "top" => format!("v{item} = {item}"),
                    _ => panic!("kind"),
                };
                let comma = match kind { "list" | "rec" => if !last || trailing_comma { "," } else { "" }, _ => "" };
                let _ = p;
                lines.push(format!("{indent}  {body}{comma}"));
            }
            "s" => {
                cno += 1;
                let l = lines.last_mut().unwrap();
                // adjacency in do-blocks is what the grammar needs there
                if kind == "do" { l.push_str(&ctext(cno, fancy)); } else { l.push(' '); l.push_str(&ctext(cno, fancy)); }
            }
            _ => panic!("slot"),
        }
    }
    match kind {
        "list" => format!("[\n{}\n{indent}]", lines.join("\n")),
        "rec" => format!("{{\n{}\n{indent}}}", lines.join("\n")),
        "do" => format!("do {{\n{}\n{indent}}}", lines.join("\n")),
        "top" => lines.iter().map(|l| l.trim_start().to_string()).collect::<Vec<_>>().join("\n"),
        _ => panic!("kind"),
    }
}

fn with_gaps(top: &str, pattern: usize) -> String {
    let gaps = [1usize, 2, 3, 5, 0, 4];
    let mut out = String::new();
    for (i, line) in top.lines().enumerate() {
        if i > 0 {
            out.push('\n');
            if pattern > 0 { for _ in 0..gaps[(i + pattern) % gaps.len()] { out.push('\n'); } }
        }
        out.push_str(line);
    }
    out
}

pub fn programs(kind: &str, src: &[String]) -> Vec<(String, String)> {
    let mut v = vec![];
    if kind == "top" {
        let base = render(kind, src, false, false, "");
        if base.trim().is_empty() { return v; }
        v.push(("top".into(), base.clone()));
        // the way the text ends: no final line break, CR LF, and a lone CR after a closing comment (which is part of the comment
        // for the grammar unless it ends the line)
        let body = base.trim_end().to_string();
        v.push(("top ends-without-newline".into(), body.clone()));
        v.push(("top ends-crlf".into(), format!("{body}\r\n")));
        if body.lines().last().map(|l| l.contains("//")).unwrap_or(false) { v.push(("top ends-cr".into(), format!("{body}\r"))); }
        // a later statement that keeps its parentheses (it begins with a minus sign) with an end-of-line comment of its own
        v.push(("top minus-eol".into(), format!("{body}\n(-1) // note after a minus statement\n(-2)\noutput w = 3 // and after an output\n(-w) // last")));
        v.push(("top gaps".into(), with_gaps(&base, 1)));
        v.push(("top gaps2".into(), with_gaps(&render(kind, src, false, true, ""), 3)));
        // statements that are one line in the source but wrap at the narrower widths, with 0 / 1 / 2 blank lines before them
        let wide = base.lines().enumerate().map(|(i, l)| if l.trim_start().starts_with("//") || !l.contains(" = ") { l.to_string() } else {
            let (lhs, rest) = l.split_once(" = ").unwrap();
            let (val, cmt) = match rest.split_once(" //") { Some((v, c)) => (v.to_string(), format!(" //{c}")), None => (rest.to_string(), String::new()) };
            match i % 3 { 0 => format!("{lhs} = [100, 200, 300, {val}] via x => x * 20{cmt}"), 1 => format!("{lhs} = {{alpha: {val}, beta: [{val}, {val}], gamma: \"long text\"}}{cmt}"), _ => format!("{lhs} = if {val} > 100 then {val} + 1000 else {val} - 1000{cmt}") }
        }).collect::<Vec<_>>().join("\n");
        v.push(("top wide".into(), wide.clone()));
        v.push(("top wide gaps".into(), with_gaps(&wide, 2)));
        return v;
    }
    for (tc, fancy) in [(false, false), (true, false), (false, true)] {
        if kind == "do" && tc { continue; }
        let c = render(kind, src, tc, fancy, "");
        let tag = format!("{kind}{}{}", if tc { " trailing-comma" } else { "" }, if fancy { " fancy" } else { "" });
        v.push((tag.clone(), c.clone()));
        v.push((format!("{tag} assigned"), format!("z = {c}")));
        if !fancy && !tc {
            let cf = render_opt(kind, src, tc, fancy, "", true);
            v.push((format!("{tag} flush-left"), format!("z = {cf}")));
            v.push((format!("{tag} flush-left in-do"), format!("do {{\n  t = {}\n  return t\n}}", render_opt(kind, src, tc, fancy, "  ", true))));
            v.push((format!("{tag} lambda via-left"), format!("f = q => ({c} via (w => w))")));
            v.push((format!("{tag} lambda binop"), format!("f = q => ({c} == q)")));
            v.push((format!("{tag} lambda into"), format!("f = (q, r?) => ({c} into len)")));
            v.push((format!("{tag} lambda call-arg"), format!("f = q => max(1, len({c}))")));
        }
        if !fancy {
            v.push((format!("{tag} in-list"), format!("[\n  1,\n  {}\n]", render(kind, src, tc, fancy, "  "))));
            v.push((format!("{tag} in-record"), format!("w = {{\n  a: {},\n  b: 2\n}}", render(kind, src, tc, fancy, "  "))));
            v.push((format!("{tag} lambda"), format!("f = q => {c}")));
            v.push((format!("{tag} in-do"), format!("do {{\n  t = {}\n  return t\n}}", render(kind, src, tc, fancy, "  "))));
            // the compact style: statements ended by `;`, comments after the `;` on the same line and on lines of their own
            v.push((format!("{tag} in-do semicolons"), format!("do {{\n  t = {}; // after a semicolon\n  // on a line of its own\n  u = 1; // short\n  return t\n}}", render(kind, src, tc, fancy, "  "))));
            if kind != "do" {
                v.push((format!("{tag} in-do eol"), format!("do {{\n  t = {} // after the statement, long enough to pass any margin there may be at all\n  u = 1 // short\n  return t\n}}", render(kind, src, tc, fancy, "  "))));
                v.push((format!("{tag} top eol"), format!("z = {} // after the statement, long enough to pass any margin there may be at all\ny = 2", c)));
            }
            // the container in every other expression position the grammar has
            v.push((format!("{tag} binop-left"), format!("z = {c} == 0")));
            v.push((format!("{tag} binop-right"), format!("z = 0 == {c}")));
            v.push((format!("{tag} unary"), format!("z = -{c}")));
            v.push((format!("{tag} if-then"), format!("z = if true then {c} else 0")));
            v.push((format!("{tag} if-else"), format!("z = if true then 0 else {c}")));
            v.push((format!("{tag} spread"), if kind == "rec" { format!("z = {{...{c}}}") } else { format!("z = [...{c}]") }));
            v.push((format!("{tag} call-arg"), format!("z = f(1, {c})")));
            v.push((format!("{tag} callee"), format!("z = ({c})(1)")));
            v.push((format!("{tag} access"), format!("z = {c}[0]")));
            v.push((format!("{tag} via-left"), format!("z = {c} via (q => q)")));
            v.push((format!("{tag} output"), format!("output z = {c}")));
            v.push((format!("{tag} do-return"), format!("do {{\n  return {}\n}}", render(kind, src, tc, fancy, "  "))));
            v.push((format!("{tag} record-key"), format!("w = {{\n  [{}]: 1\n}}", render(kind, src, tc, fancy, "  "))));
        }
    }
    v
}

pub fn replay(case: &J, thorough: bool, cli: Option<&str>, idx: usize) -> J {
    let kind = case["kind"].as_str().unwrap();
    let src: Vec<String> = case["src"].as_array().unwrap().iter().map(|s| s.as_str().unwrap().to_string()).collect();
    let mut mism = vec![];
    let mut evals = 0u64;
    let widths: &[Option<usize>] = if thorough { &[Some(1), Some(12), Some(30), Some(80), None] } else { &[Some(12), None] };
    let empty = !src.iter().any(|s| s == "i");
    for (tag, prog) in programs(kind, &src) {
        let want = comments_of(&prog);
        let ast0 = match syn::parse_program(&prog, false) {
            Ok(a) => a,
            Err(m) => { mism.push(json!({"prop":"GEN","tag":tag,"src":prog,"obs":format!("generated program rejected: {m}")})); continue; }
        };
        let mut runs: Vec<(String, Option<usize>, Result<String, String>)> = vec![];
        for w in widths {
            runs.push((format!("wasm w={:?}", w), *w, fmt_wasm(&prog, *w)));
            // the library formatter takes one expression; programs of several statements go through the drivers only
            if kind != "top" && !tag.ends_with("top eol") { runs.push((format!("library w={:?}", w), *w, fmt_library(&prog, *w))); }
        }
        if let Some(c) = cli { if idx % (if thorough { 2 } else { 6 }) == 0 || kind == "top" { runs.push(("cli".into(), None, fmt_cli(c, &prog, "e"))); } }
        for (driver, w, res) in runs {
            evals += 1;
            let class = format!("{}{}", tag, if empty { " empty" } else { "" });
            let text = match res {
                Ok(t) => t,
                Err(m) => { mism.push(json!({"prop":"C07","tag":class,"driver":driver,"src":prog,"obs":format!("formatter failed: {m}")})); continue; }
            };
            let got = comments_of(&text);
            if got != want {
                mism.push(json!({"prop":"C09","tag":class,"driver":driver,"src":prog,"out":text,"want":want,"got":got,"obs":format!("comments {:?} became {:?}", want, got)}));
            }
            match syn::parse_program(&text, false) {
                Ok(a1) => if a1 != ast0 { mism.push(json!({"prop":"C07","tag":class,"driver":driver,"src":prog,"out":text,"obs":"formatted text parses to a different program"})); },
                Err(m) => { mism.push(json!({"prop":"C07","tag":class,"driver":driver,"src":prog,"out":text,"obs":format!("formatted text rejected: {m}")})); continue; }
            }
            let second = if driver.starts_with("wasm") { fmt_wasm(&text, w) } else if driver.starts_with("library") { fmt_library(&text, w) } else { fmt_cli(cli.unwrap(), &text, "f") };
            match second {
                Ok(t2) => if t2 != text { mism.push(json!({"prop":"C08","tag":class,"driver":driver,"src":prog,"out":text,"out2":t2,"obs":"second pass differs"})); },
                Err(m) => mism.push(json!({"prop":"C08","tag":class,"driver":driver,"src":prog,"out":text,"obs":format!("second pass failed: {m}")})),
            }
        }
    }
    json!({"evals": evals, "mismatches": mism, "model_loses": case["loses"]})
}
