//! C12 - equality and ordering: replay of TLC-enumerated pairs, and recording of random pairs/triples.
use crate::ev::Session;
use crate::vgen::{self, GenCfg};
use crate::mv::{self, Lift};
use crate::rng::Rng;
use serde_json::{Value as J, json};

pub const OPS: &[(&str, &str, bool)] = &[
    ("deq", ".==", false), ("dne", ".!=", false), ("dlt", ".<", false), ("dle", ".<=", false),
    ("dgt", ".>", false), ("dge", ".>=", false),
    ("ugt", "ugt", true), ("ult", "ult", true), ("ugte", "ugte", true), ("ulte", "ulte", true),
];

pub fn observe(s: &Session, a: &str, b: &str, op: &(&str, &str, bool)) -> String {
    let src = if op.2 { format!("{}({}, {})", op.1, a, b) } else { format!("{} {} {}", a, op.1, b) };
    match s.eval(&src) {
        crate::ev::Outcome::Ok(blots_core::values::Value::Bool(true)) => "true".into(),
        crate::ev::Outcome::Ok(blots_core::values::Value::Bool(false)) => "false".into(),
        crate::ev::Outcome::Ok(_) => "nonbool".into(),
        crate::ev::Outcome::Err(_) => "err".into(),
        crate::ev::Outcome::ParseErr(m) => format!("parse:{m}"),
        crate::ev::Outcome::Panic(m) => format!("panic:{m}"),
    }
}

/// spec -> impl: every TLC-emitted pair, every operator, under each lift.
pub fn replay(case: &J, lifts: &[Lift]) -> J {
    let mut mism = vec![];
    let mut evals = 0;
    for lift in lifts {
        let s = Session::new();
        let a = mv::src(&case["a"], *lift);
        let b = mv::src(&case["b"], *lift);
        // the same two values reached through names: when they are one value, both names hold the same heap cell, and a
        // container holding the name twice shares that cell - none of which may matter
        let aliased = case["a"] == case["b"];
        let _ = s.eval(&format!("zza = {a}"));
        let _ = s.eval(&if aliased { "zzb = zza".to_string() } else { format!("zzb = {b}") });
        for op in OPS {
            let obs = observe(&s, &a, &b, op);
            evals += 1;
            let exp = case["exp"][op.0].as_str().unwrap_or("?");
            if obs != exp {
                mism.push(json!({"op": op.0, "lift": lift.name(), "exp": exp, "obs": obs,
                                 "src": format!("{} {} {}", a, op.1, b)}));
            }
            let obs2 = observe(&s, "zza", "zzb", op);
            evals += 1;
            if obs2 != exp {
                mism.push(json!({"op": op.0, "lift": lift.name(), "exp": exp, "obs": obs2,
                                 "src": format!("zza = {a} ; zzb = {} ; zza {} zzb", if aliased { "zza" } else { b.as_str() }, op.1)}));
            }
        }
    }
    crate::ev::clear_stats();
    json!({"evals": evals, "mismatches": mism})
}

/// impl -> spec: random pairs (one a mutation of the other half of the time) and triples.
pub fn record(seed: u64, n: usize) -> Vec<J> {
    let mut r = Rng::new(seed);
    let cfg = GenCfg::default();
    let mut out = vec![];
    for i in 0..n {
        let lift = *r.pick(Lift::all());
        let a = vgen::gen_value(&mut r, &cfg, 0);
        let b = if r.chance(3, 5) { vgen::mutate(&mut r, &cfg, &a) } else { vgen::gen_value(&mut r, &cfg, 0) };
        let s = Session::new();
        let (sa, sb) = (mv::src(&a, lift), mv::src(&b, lift));
        if i % 3 != 2 {
            let mut obs = serde_json::Map::new();
            for op in OPS {
                obs.insert(op.0.to_string(), json!(observe(&s, &sa, &sb, op)));
            }
            out.push(json!({"ev":"cmp","a":a,"b":b,"lift":lift.name(),"obs":obs}));
        } else {
            let c = vgen::mutate(&mut r, &cfg, &b);
            let sc = mv::src(&c, lift);
            let le = &OPS[3];
            let lt = &OPS[2];
            let eq = &OPS[0];
            out.push(json!({"ev":"tri","a":a,"b":b,"c":c,"lift":lift.name(),
                "ab": {"dle": observe(&s, &sa, &sb, le), "dlt": observe(&s, &sa, &sb, lt), "deq": observe(&s, &sa, &sb, eq)},
                "bc": {"dle": observe(&s, &sb, &sc, le), "dlt": observe(&s, &sb, &sc, lt), "deq": observe(&s, &sb, &sc, eq)},
                "ac": {"dle": observe(&s, &sa, &sc, le), "dlt": observe(&s, &sa, &sc, lt), "deq": observe(&s, &sa, &sc, eq)}}));
        }
        crate::ev::clear_stats();
    }
    out
}
