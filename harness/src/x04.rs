//! X04 - extended conformance (not a listed property): the WASM binding's `evaluate` against spec/WasmEval.tla
//! (the statement vocabulary of spec/Cli.tla, a different reporting contract).
use crate::c19::{stmt_text, val_json};
use crate::wasm_driver;
use blots_core::values::SerializableValue;
use serde_json::{Value as J, json};

fn plain(sv: &J) -> J {
    // the response holds values in their serialised form; functions are compared by kind
    match serde_json::from_value::<SerializableValue>(sv.clone()) {
        Ok(SerializableValue::Lambda(_)) | Ok(SerializableValue::BuiltIn(_)) => json!({"fn": true}),
        Ok(v) => v.to_json(),
        Err(_) => json!({"unreadable": sv}),
    }
}

pub fn replay(case: &J) -> J {
    let text: String = case["script"].as_array().unwrap().iter().map(stmt_text).collect::<Vec<_>>().join("\n");
    let inputs: serde_json::Map<String, J> = case["inputs"].as_object().map(|m| m.iter().map(|(k, v)| {
        (k.clone(), serde_json::to_value(SerializableValue::from_json(&val_json(v))).unwrap())
    }).collect()).unwrap_or_default();
    let resp = match std::panic::catch_unwind(|| wasm_driver::evaluate(&text, J::Object(inputs))) {
        Ok(Ok(j)) => j,
        Ok(Err(_)) => json!({"error": {"message": "JsError"}}),
        Err(_) => json!({"panic": true}),
    };
    let exp_ok = case["ok"].as_bool().unwrap();
    let mut problems = vec![];
    if resp.get("panic").is_some() { problems.push("evaluate panicked".to_string()); }
    let got_ok = resp.get("result").is_some();
    if got_ok != exp_ok { problems.push(format!("response is {} but the model says {}", if got_ok { "a result" } else { "an error" }, if exp_ok { "a result" } else { "an error" })); }
    if got_ok && exp_ok {
        let r = &resp["result"];
        let outs: Vec<String> = r["outputs"].as_array().map(|a| a.iter().map(|x| x.as_str().unwrap_or("?").to_string()).collect()).unwrap_or_default();
        let want: Vec<String> = case["outputs"].as_array().unwrap().iter().map(|x| x.as_str().unwrap().to_string()).collect();
        if outs != want { problems.push(format!("outputs {:?} but the model says {:?}", outs, want)); }
        if let Some(b) = case["bindings"].as_object() {
            for (n, v) in b {
                let want_v = if v["t"] == "fn" { json!({"fn": true}) } else { val_json(v) };
                let got_v = r["bindings"].get(n).map(plain);
                if got_v.as_ref() != Some(&want_v) { problems.push(format!("binding {n} is {:?} but the model says {}", got_v, want_v)); }
            }
            // nothing else is bound besides `inputs`
            if let Some(m) = r["bindings"].as_object() {
                for k in m.keys() { if k != "inputs" && !b.contains_key(k) { problems.push(format!("unexpected binding {k}")); } }
            }
        }
    }
    crate::ev::clear_stats();
    if problems.is_empty() { json!({"evals": 1, "mismatches": []}) } else { json!({"evals": 1, "mismatches": [{"src": text, "inputs": case["inputs"], "obs": problems, "resp": resp}]}) }
}

// ---------------------------------------------------------------- evaluate_inline_expressions
fn inline_text(st: &J) -> String {
    match st["k"].as_str().unwrap() {
        "direct" => st["x"].as_str().unwrap().to_string(),
        "shadowin" => format!("{} = 5", st["x"].as_str().unwrap()),
        "two" => format!("{n} = 6\noutput {n}", n = st["n"].as_str().unwrap()),
        "blank" => "// nothing to evaluate".to_string(),
        _ => stmt_text(st),
    }
}

pub fn replay_inline(case: &J) -> J {
    let texts: Vec<String> = case["texts"].as_array().unwrap().iter().map(inline_text).collect();
    let inputs: serde_json::Map<String, J> = case["inputs"].as_object().map(|m| m.iter().map(|(k, v)| {
        (k.clone(), serde_json::to_value(SerializableValue::from_json(&val_json(v))).unwrap())
    }).collect()).unwrap_or_default();
    let resp = match std::panic::catch_unwind(|| wasm_driver::evaluate_inline_expressions(json!(texts), J::Object(inputs))) {
        Ok(Ok(j)) => j,
        Ok(Err(_)) => json!("JsError"),
        Err(_) => json!("panic"),
    };
    let mut problems = vec![];
    let answers = case["answers"].as_array().unwrap();
    match resp.as_array() {
        None => problems.push(format!("the call as a whole gave {}", resp)),
        Some(rs) => {
            if rs.len() != answers.len() { problems.push(format!("{} answers for {} texts", rs.len(), answers.len())); }
            for (i, (r, a)) in rs.iter().zip(answers.iter()).enumerate() {
                let got_ok = r.get("value").is_some();
                let exp_ok = a["ok"].as_bool().unwrap();
                if got_ok != exp_ok { problems.push(format!("text {} ({:?}): {} but the model says {}", i + 1, texts[i], if got_ok { "a value" } else { "an error" }, if exp_ok { "a value" } else { "an error" })); continue; }
                if exp_ok {
                    let want = if a["v"]["t"] == "fn" { json!({"fn": true}) } else { val_json(&a["v"]) };
                    let got = plain(&r["value"]);
                    if got != want { problems.push(format!("text {} ({:?}): value {} but the model says {}", i + 1, texts[i], got, want)); }
                }
            }
        }
    }
    crate::ev::clear_stats();
    if problems.is_empty() { json!({"evals": texts.len(), "mismatches": []}) } else { json!({"evals": texts.len(), "mismatches": [{"src": texts.join(" | "), "inputs": case["inputs"], "obs": problems, "resp": resp}]}) }
}
