//! C10 - precedence table, layout insensitivity, plain names.
use crate::ev::{Outcome, Session};
use crate::mv;
use crate::syn;
use serde_json::{Value as J, json};

fn assemble(frags: &J, decos: &J) -> String {
    let mut s = String::new();
    for (f, d) in frags.as_array().unwrap().iter().zip(decos.as_array().unwrap().iter()) {
        s.push_str(f.as_str().unwrap());
        s.push_str(syn::deco(d.as_str().unwrap()));
    }
    s
}

fn name_program(name: &str) -> String {
    format!(
        "{n} = 5\n[{n}, {n} + 1, max({n}, 1), {{k: {n}}}.k, [1, 2, 3, 4, 5, 6][{n}], if {n} == 5 then {n} else 0, (x => {n} + x)(1), {n} * 2, -{n}, {n}!, [{n}] via (y => y + {n}), {{{n}}}[\"{n}\"], do {{\n  t = {n}\n  return t + {n}\n}}, ({n}), {n}>4, {n}==5, [...[{n}]], 2^{n}, {n} ?? 1, (({n}) => (() => {n} + 1))(7)(), (do {{\n  {n} = 2\n  return w => w * {n}\n}})(10), to_string(v => v + {n})]",
        n = name
    )
}

fn name_line_program(name: &str) -> String {
    format!(
        "f0 = x => x\n{n} = 5\nf1 = y => y and true\n{n}1 = {n} + 1\nf2 = if {n} > 1 then 1 else 2\n{n}2 = 2\nf3 = z => z + 1 // note\n{n}3 = 3\n\nf4 = [1, 2] via w => w\n{n}4 = 4\nf5 = (k = 1)\n{n}5 = [{n}, {n}1, {n}2, {n}3, {n}4, f0({n}), f1(true), f3(1), f4]",
        n = name
    )
}

pub fn replay(case: &J) -> J {
    let mut mism = vec![];
    let mut evals = 0;
    match case["kind"].as_str().unwrap() {
        "flat" => {
            let exp = syn::normalise_tree(&case["tree"]);
            for (which, toks) in [("flat", &case["toks"]), ("full", &case["full"])] {
                let src = syn::render_tokens(toks);
                evals += 1;
                match syn::parse_single_expr(&src) {
                    Ok(e) => {
                        let got = syn::tree_of(&e);
                        if got != exp {
                            mism.push(json!({"src": src, "form": which, "exp": exp, "obs": got}));
                        }
                    }
                    Err(m) => mism.push(json!({"src": src, "form": which, "exp": exp, "obs": m})),
                }
            }
        }
        "layout" => {
            let canon = assemble(&case["frags"], &case["canon"]);
            let text = assemble(&case["frags"], &case["decos"]);
            evals += 2;
            compare_programs(&canon, &text, &mut mism);
        }
        "variant" => {
            let canon = case["canon"].as_str().unwrap();
            let text = case["text"].as_str().unwrap();
            evals += 2;
            compare_programs(canon, text, &mut mism);
        }
        "spelling" => {
            let (a, b) = (case["a"].as_str().unwrap(), case["b"].as_str().unwrap());
            let run = |op: &str| {
                let s = Session::new();
                let prog = if a.is_empty() { format!("r = {op}{b}\nq = z") } else { format!("r = {a} {op} {b}\nq = z") };
                let r = s.run(&prog, false);
                (prog, r.iter().map(|o| describe(o, &s)).collect::<Vec<_>>())
            };
            let (p1, r1) = run(case["sym"].as_str().unwrap());
            let (p2, r2) = run(case["word"].as_str().unwrap());
            evals += 2;
            if r1 != r2 { mism.push(json!({"src": p1, "other": p2, "exp": r2, "obs": r1})); }
            // the spelling survives being shown: the text to_string gives for a function that contains the operator is a
            // function again and behaves like the original, for the symbol and for the word
            for op in [case["sym"].as_str().unwrap(), case["word"].as_str().unwrap()] {
                let s = Session::new();
                let body = if a.is_empty() { format!("{op}{b}") } else { format!("{a} {op} {b}") };
                let prog = format!("f = (p, q, z) => {body}\nto_string(f)\nf(true, false, null)");
                let r = s.run(&prog, false);
                evals += 1;
                if r.len() != 3 { continue; }
                let orig = describe(&r[2], &s);
                if let Outcome::Ok(v) = &r[1] {
                    let text = match mv::concrete_of_value(v, &s.heap.borrow()) { J::String(t) => t, other => other["s"].as_str().unwrap_or("").to_string() };
                    let s2 = Session::new();
                    let r2 = s2.run(&format!("g = {text}\ng(true, false, null)"), false);
                    let again = r2.last().map(|o| describe(o, &s2)).unwrap_or(json!("nothing"));
                    if r2.len() != 2 || again != orig { mism.push(json!({"src": prog, "other": format!("g = {text} ; g(true, false, null)"), "exp": orig, "obs": again})); }
                }
            }
        }
        "name" => {
            let name = case["name"].as_str().unwrap();
            let reference = Session::new().run(&name_program("zq"), true);
            let got = {
                let s = Session::new();
                let r = s.run(&name_program(name), true);
                r.iter().map(|o| describe(o, &s)).collect::<Vec<_>>()
            };
            let exp = {
                let s = Session::new();
                let r = s.run(&name_program("zq"), true);
                r.iter().map(|o| describe(o, &s)).collect::<Vec<_>>()
            };
            evals += 2;
            if reference.len() != 2 || got != exp {
                mism.push(json!({"src": name_program(name), "name": name, "exp": exp, "obs": got}));
            }
            // the name as the first word of a line, after statements that end in every open-ended construct: a statement ends at
            // the line break whatever the next line starts with
            let run = |n: &str| { let s = Session::new(); let r = s.run(&name_line_program(n), true); r.iter().map(|o| describe(o, &s)).collect::<Vec<_>>() };
            let (got2, exp2) = (run(name), run("zq"));
            evals += 2;
            if exp2.len() != 12 || got2 != exp2 {
                mism.push(json!({"src": name_line_program(name), "name": name, "exp": exp2, "obs": got2}));
            }
        }
        k => panic!("c10 kind {k}"),
    }
    crate::ev::clear_stats();
    json!({"evals": evals, "mismatches": mism})
}

fn describe(o: &Outcome, s: &Session) -> J {
    match o {
        Outcome::Ok(v) => json!({"ok": mv::concrete_of_value(v, &s.heap.borrow())}),
        Outcome::Err(_) => json!("err"),
        Outcome::ParseErr(_) => json!("parse"),
        Outcome::Panic(m) => json!({"panic": m}),
    }
}

fn compare_programs(canon: &str, text: &str, mism: &mut Vec<J>) {
    match (syn::parse_program(canon, false), syn::parse_program(text, false)) {
        (Ok(a), Ok(b)) => {
            if a != b || a.is_empty() {
                mism.push(json!({"src": text, "canon": canon, "obs": "parses to a different program"}));
            }
        }
        (Err(m), _) => mism.push(json!({"src": canon, "canon": canon, "obs": format!("canonical text rejected: {m}")})),
        (_, Err(m)) => mism.push(json!({"src": text, "canon": canon, "obs": format!("rejected: {m}")})),
    }
}

// ---------------------------------------------------------------- impl -> spec
use crate::rng::Rng;

fn tok(t: &str, v: &str) -> J {
    json!({"t": t, "v": v})
}

fn gen_operand(r: &mut Rng, depth: u32, out: &mut Vec<J>) {
    for _ in 0..(if r.chance(1, 4) { r.below(3) } else { 0 }) {
        out.push(tok("pre", *r.pick(&["neg", "not", "notw"])));
    }
    if depth > 0 && r.chance(1, 4) {
        out.push(tok("lp", ""));
        gen_expr(r, depth - 1, out);
        out.push(tok("rp", ""));
    } else {
        out.push(tok("id", *r.pick(&["a", "b", "c", "d", "e"])));
    }
    for _ in 0..(if r.chance(1, 4) { r.below(3) } else { 0 }) {
        out.push(tok("post", *r.pick(&["fact", "call", "idx", "dot"])));
    }
}

pub fn gen_expr(r: &mut Rng, depth: u32, out: &mut Vec<J>) {
    gen_operand(r, depth, out);
    let n = r.below(if depth >= 2 { 7 } else { 3 });
    for _ in 0..n {
        let op = syn::BIN[r.below(syn::BIN.len() as u64) as usize].0;
        out.push(tok("op", op));
        gen_operand(r, depth, out);
    }
}

/// Random deep token strings: the real parser's tree is logged next to the tokens.
pub fn record(seed: u64, n: usize) -> Vec<J> {
    let mut r = Rng::new(seed);
    let mut out = vec![];
    for _ in 0..n {
        let mut toks = vec![];
        gen_expr(&mut r, 3, &mut toks);
        let toks = J::Array(toks);
        let src = syn::render_tokens(&toks);
        let tree = match syn::parse_single_expr(&src) {
            Ok(e) => syn::tree_of(&e),
            Err(m) => json!({"k": "fail", "m": m}),
        };
        out.push(json!({"ev": "parse", "toks": toks, "tree": tree, "src": src}));
    }
    out
}
