//! C16 - numbers keep their exact value through every textual path; literals denote their documented value.
use crate::ev::{Outcome, Session};
use crate::mv;
use crate::rng::Rng;
use crate::syn;
use blots_core::ast::{Expr, UnaryOp};
use blots_core::values::{SerializableValue, Value};
use indexmap::IndexMap;
use serde_json::{Value as J, json};

fn chars_json(s: &str) -> J {
    J::Array(s.chars().map(|c| json!(c.to_string())).collect())
}

/// parse `text` as a program consisting of one number literal; the double it denotes
pub fn literal_bits(text: &str) -> String {
    match syn::parse_single_expr(text) {
        Ok(e) => match &e.node {
            Expr::Number(x) => mv::hex(*x),
            Expr::UnaryOp { op: UnaryOp::Negate, expr } => match &expr.node { Expr::Number(x) => mv::hex(-*x), _ => "nonliteral".into() },
            _ => "nonliteral".into(),
        },
        Err(m) => format!("rejected: {}", m.chars().take(80).collect::<String>()),
    }
}

pub fn replay(case: &J) -> J {
    let text: String = case["text"].as_array().unwrap().iter().map(|c| c.as_str().unwrap()).collect();
    let parsed = literal_bits(&text);
    // the same literal evaluated as a whole program
    let s = Session::new();
    let evaluated = match s.eval(&text) { Outcome::Ok(Value::Number(x)) => mv::hex(x), o => format!("{}: {}", o.class(), o.msg().chars().take(60).collect::<String>()) };
    json!({"evals": 2, "text": text, "parsed": parsed, "evaluated": evaluated, "mismatches": []})
}

// ---------------------------------------------------------------- impl -> spec
pub fn sample_double(r: &mut Rng) -> f64 {
    loop {
        let x = match r.below(13) {
            // a few ulps either side of a whole number that ends in zeros (10, 1200, 30, 5e14 ...): shown with 15 digits these
            // round to an integer, which is the one place where a numeral's own trailing zeros are significant
            12 => { let m = (r.range(1, 9999) as f64) * 10f64.powi(r.range(1, 12) as i32); f64::from_bits((m.to_bits() as i64 + r.range(-3, 3)) as u64) }
            0 | 1 | 2 => f64::from_bits(r.next()),
            3 => { let k = r.range(-1074, 1023); let b = (2.0f64).powi(k as i32); f64::from_bits((b.to_bits() as i64 + r.range(-1, 1)) as u64) }
            4 => { let k = r.range(-320, 308); let b: f64 = format!("1e{}", k).parse().unwrap(); f64::from_bits((b.to_bits() as i64 + r.range(-2, 2)) as u64) }
            5 => 9007199254740992.0 + r.range(-4, 4) as f64,
            6 => *r.pick(&[1e15, 1e21, 1e-7, 1e-4, 0.1, 0.2, 0.30000000000000004, f64::MAX, f64::MIN_POSITIVE, 5e-324, -0.0, 0.0, 1.0 / 3.0, 2.5e-8, 123456789012345680.0]),
            7 => f64::from_bits(r.below(1 << 52)),                       // subnormals
            8 => r.range(-1_000_000, 1_000_000) as f64,
            9 => r.range(-1_000_000_000, 1_000_000_000) as f64 / 1000.0,
            10 => f64::from_bits(0x7fe0000000000000 + r.below(1 << 52)),  // huge
            _ => (r.next() as f64 / u64::MAX as f64) * 10f64.powi(r.range(-20, 20) as i32),
        };
        if x.is_finite() { return if r.chance(1, 4) { -x } else { x }; }
    }
}

fn random_literal(r: &mut Rng) -> String {
    let digits = |r: &mut Rng, n: u64, set: &[char]| -> String { (0..n.max(1)).map(|_| *r.pick(set)).collect() };
    let dec: Vec<char> = "0123456789".chars().collect();
    let group = |r: &mut Rng, set: &[char], maxg: u64, maxd: u64| -> String {
        let g = 1 + r.below(maxg);
        (0..g).map(|_| { let n = 1 + r.below(maxd); digits(r, n, set) }).collect::<Vec<_>>().join(&"_".repeat(1 + r.below(2) as usize))
    };
    let sign = if r.chance(1, 6) { "+" } else { "" };
    match r.below(8) {
        0 => format!("{sign}0x{}", group(r, &"0123456789abcdefABCDEF".chars().collect::<Vec<_>>(), 3, 8)),
        1 => format!("{sign}0b{}", group(r, &['0', '1'], 4, 20)),
        2 => format!(".{}", { let n = 1 + r.below(25); digits(r, n, &dec) }),
        3 => format!("{sign}{}.{}e{}{}", group(r, &dec, 3, 9), { let n = 1 + r.below(20); digits(r, n, &dec) }, *r.pick(&["", "+", "-"]), r.below(340)),
        4 => format!("{sign}{}e{}{}", group(r, &dec, 2, 12), *r.pick(&["", "+", "-"]), r.below(330)),
        5 => format!("{sign}{}", group(r, &dec, 4, 10)),
        6 => format!("{sign}{}.{}", group(r, &dec, 2, 10), { let n = 1 + r.below(30); digits(r, n, &dec) }),
        _ => format!("{sign}{}E{}", { let n = 1 + r.below(20); digits(r, n, &dec) }, r.below(30)),
    }
}

fn round_trips(x: f64) -> Vec<J> {
    let mut out = vec![];
    let inb = mv::hex(x);
    let mk = |path: &str, text: String, outbits: String, literal: bool| {
        let unsigned = text.strip_prefix('-').unwrap_or(&text).to_string();
        json!({"ev":"rt","path":path,"in":inb,"out":outbits,"text":text,"cs":chars_json(&unsigned),"literal":literal})
    };
    let s = Session::new();
    // 1. to_string -> to_number
    let src = mv::num_src(x);
    if let Outcome::Ok(v) = s.eval(&format!("to_string({})", src)) {
        let text = v.stringify_internal(&s.heap.borrow());
        let back = match s.eval(&format!("to_number({})", mv::str_src(&text))) { Outcome::Ok(Value::Number(y)) => mv::hex(y), o => o.class().to_string() };
        out.push(mk("to_string/to_number", text, back, false));
    }
    // 2. JSON output text (the input side is exercised through the real CLI, whose serde_json configuration counts):
    //    the emitted JSON number, read with exact parsing, is the same double
    let jtext = serde_json::to_string(&SerializableValue::Number(x).to_json()).unwrap();
    let back = jtext.parse::<f64>().map(mv::hex).unwrap_or_else(|_| "unparsable".into());
    out.push(mk("json output text", jtext, back, false));
    // 3. function-source emission: a captured number is written into the source and read back by the parser
    let s3 = Session::new();
    let _ = s3.eval(&format!("c = {}", src));
    let _ = s3.eval("f = () => c");
    if let Ok(text) = crate::c05::emit(&s3, "f") {
        let lit = serde_json::from_str::<J>(&text).ok().and_then(|j| j["__blots_function"].as_str().map(|t| t.trim_start_matches("() => ").to_string())).unwrap_or_default();
        let back = match crate::c05::reload(&text) { Ok(s4) => match s4.eval("inputs.fn()") { Outcome::Ok(Value::Number(y)) => mv::hex(y), o => o.class().to_string() }, Err(m) => m };
        let t = lit.trim_start_matches('(').trim_end_matches(')').to_string();
        out.push(mk("function source", t, back, true));
    }
    // 4. formatter -> parser
    let prog = format!("v = {}", mv::plain_decimal(x.abs()));
    if let Ok(text) = crate::c07::fmt_library(&prog, None) {
        let lit = text.trim_start_matches("v = ").to_string();
        let back = match syn::parse_program(&text, false) {
            Ok(st) => match st.first() { Some(syn::Stmt::Expr(e)) => match &e.node { Expr::Assignment { value, .. } => match &value.node { Expr::Number(y) => mv::hex(if x.is_sign_negative() { -*y } else { *y }), _ => "nonliteral".into() }, _ => "nonassign".into() }, _ => "nostmt".into() },
            Err(m) => m,
        };
        out.push(mk("formatter", lit, back, true));
    }
    out
}

pub fn record(seed: u64, n: usize, cli: Option<&str>) -> Vec<J> {
    let mut r = Rng::new(seed);
    let mut out = vec![];
    // directed: hexadecimal / binary literals wider than the 53-bit significand whose dropped tail sits just below, at and
    // just above half a unit in the last place, over an even and an odd last kept bit (round-half-even, one rounding only)
    for k in 53u32..=100 {
        if k > 64 && k % 4 != 0 { continue; }
        let ulp: u128 = 1u128 << (k - 52);
        let half = ulp >> 1;
        for low in [0u128, 1] {
            for tail in [half.saturating_sub(1), half, half + 1, ulp - 1] {
                let v: u128 = (1u128 << k) + low * ulp + tail;
                for text in [format!("0x{:X}", v), format!("0b{:b}", v), format!("0x{:x}", v + (ulp << 3))] {
                    out.push(json!({"ev":"lit","text":text,"cs":chars_json(&text),"parsed":literal_bits(&text)}));
                }
            }
        }
    }
    // the same tails under a literal whose lower 64 bits are themselves wider than a significand (bit 63 set, low bits set): a
    // conversion that goes word by word rounds the low word first and the sum again
    for k in 65u32..=120 {
        let ulp: u128 = 1u128 << (k - 52);
        let half = ulp >> 1;
        for low in [0u128, 1] {
            for tail in [half - 1, half + 1] {
                let v: u128 = (1u128 << k) + (1u128 << 63) + low * ulp + tail;
                for text in [format!("0x{:x}", v), format!("0b{:b}", v)] {
                    out.push(json!({"ev":"lit","text":text,"cs":chars_json(&text),"parsed":literal_bits(&text)}));
                }
            }
        }
    }
    // hexadecimal digits that spell another prefix (0b.. inside 0x.., in both cases) and binary literals next to them
    for text in ["0x10b1", "0x0b11", "+0x0b1", "0x10b", "0xa0b2", "0xdead0beef", "0x0B", "0xb0b", "0b101", "0x0b_0b", "0xe1", "0x1e3", "0x0b0B0b", "-0x0b1"] {
        if text.len() > 2 { out.push(json!({"ev":"lit","text":text,"cs":chars_json(text.trim_start_matches('-')),"parsed":literal_bits(text)})); }
    }
    for i in 0..n {
        if i % 3 == 2 {
            let text = random_literal(&mut r);
            out.push(json!({"ev":"lit","text":text,"cs":chars_json(text.trim_start_matches('-')),"parsed":literal_bits(&text)}));
        } else {
            let x = sample_double(&mut r);
            out.extend(round_trips(x));
        }
        crate::ev::clear_stats();
    }
    // through real processes: output -> JSON -> input
    if let Some(c) = cli {
        let mut m: IndexMap<String, f64> = IndexMap::new();
        for k in 0..(n / 2).max(40) { m.insert(format!("k{k}"), sample_double(&mut r)); }
        let prog1: String = m.iter().map(|(k, v)| format!("output {} = {}", k, mv::num_src(*v))).collect::<Vec<_>>().join("\n");
        let p1 = std::process::Command::new("timeout").arg("30").arg(c).arg(&prog1).stdin(std::process::Stdio::null()).output();
        if let Ok(p1) = p1 {
            use std::io::Write;
            let prog2: String = m.keys().map(|k| format!("output {k} = inputs.{k}")).collect::<Vec<_>>().join("\n");
            let mut child = std::process::Command::new("timeout").arg("30").arg(c).arg(&prog2)
                .stdin(std::process::Stdio::piped()).stdout(std::process::Stdio::piped()).stderr(std::process::Stdio::null()).spawn().unwrap();
            child.stdin.take().unwrap().write_all(&p1.stdout).unwrap();
            let o2 = child.wait_with_output().unwrap();
            // the harness reads the final JSON with exact float parsing of its own (Rust's parse of the number token)
            let text = String::from_utf8_lossy(&o2.stdout).to_string();
            for (k, v) in &m {
                let pat = format!("\"{}\":", k);
                let got = text.find(&pat).map(|p| { let rest = &text[p + pat.len()..]; let end = rest.find(|c: char| c == ',' || c == '}').unwrap_or(rest.len()); rest[..end].trim().to_string() });
                let back = got.as_ref().and_then(|t| t.parse::<f64>().ok()).map(mv::hex).unwrap_or("missing".into());
                out.push(json!({"ev":"rt","path":"cli output | cli input","in":mv::hex(*v),"out":back,"text":got.unwrap_or_default(),"cs":[],"literal":false}));
            }
        }
    }
    out
}
