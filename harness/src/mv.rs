//! Model values: the vocabulary shared with the TLA+ specification (spec/BlotsValues.tla).
//!
//! A model value is JSON produced by TLC's `ToJson`:
//!   {"t":"num","k":"fin","n":3} | {"t":"num","k":"nan"|"pinf"|"ninf"|"nzero","n":0}
//!   {"t":"num","k":"bits","h":"3ff0000000000000"}   (opaque double, only compared for identity)
//!   {"t":"str","cs":[1,5,2]}     (1-based indexes into ALPHABET, which is sorted by code point)
//!   {"t":"bool","b":true} | {"t":"null"} | {"t":"list","xs":[..]} | {"t":"rec","ks":[[cs]..],"vs":[..]}
//!   {"t":"bi","name":"sum"}      (built-in function)
//!
//! `Lift` is the abstraction map for finite numbers: a strictly increasing, zero-preserving injection
//! from the model's small integers to doubles. Order, equality and order statistics commute with it.

use blots_core::heap::{Heap, HeapPointer};
use blots_core::values::Value;
use serde_json::{Value as J, json};

/// Sorted by code point, so that lexicographic order on index sequences is Rust's `str` order.
pub const ALPHABET: &[char] = &[
    '\t', ' ', '"', '\'', '0', '1', '9', 'A', 'Z', '\\', '_', 'a', 'b', 'c', 'z', '\u{e9}',
    '\u{301}', '\u{20ac}', '\u{1f600}',
];

#[derive(Clone, Copy, Debug, PartialEq)]
pub enum Lift {
    Id,
    Half,
    Ulp,
    Huge,
    Tiny,
    Third,
}

impl Lift {
    pub fn parse(s: &str) -> Lift {
        match s {
            "id" => Lift::Id,
            "half" => Lift::Half,
            "ulp" => Lift::Ulp,
            "huge" => Lift::Huge,
            "tiny" => Lift::Tiny,
            "third" => Lift::Third,
            _ => panic!("unknown lift {s}"),
        }
    }
    pub fn name(&self) -> &'static str {
        match self {
            Lift::Id => "id",
            Lift::Half => "half",
            Lift::Ulp => "ulp",
            Lift::Huge => "huge",
            Lift::Tiny => "tiny",
            Lift::Third => "third",
        }
    }
    pub fn all() -> &'static [Lift] {
        &[Lift::Id, Lift::Half, Lift::Ulp, Lift::Huge, Lift::Tiny, Lift::Third]
    }
    /// strictly increasing in n, lift(0) = 0.0, defined for |n| <= 1000
    pub fn apply(&self, n: i64) -> f64 {
        let s = if n < 0 { -1.0 } else { 1.0 };
        let a = n.unsigned_abs();
        match self {
            Lift::Id => n as f64,
            Lift::Half => n as f64 * 0.5,
            Lift::Third => n as f64 / 3.0,
            Lift::Ulp => {
                if n == 0 {
                    0.0
                } else {
                    s * f64::from_bits(1.0f64.to_bits() + (a - 1))
                }
            }
            Lift::Huge => {
                if n == 0 {
                    0.0
                } else {
                    s * f64::from_bits(1e300f64.to_bits() + (a - 1) * 1_000_003)
                }
            }
            Lift::Tiny => s * f64::from_bits(a),
        }
    }
    pub fn invert(&self, x: f64) -> Option<i64> {
        if x == 0.0 {
            return Some(0);
        }
        if *self == Lift::Id {
            // TLC integers are 32-bit
            return if x.fract() == 0.0 && x.abs() < 2.0e9 { Some(x as i64) } else { None };
        }
        (-1000..=1000).find(|n| self.apply(*n).to_bits() == x.to_bits())
    }
}

pub fn hex(x: f64) -> String {
    format!("{:016x}", x.to_bits())
}
pub fn unhex(h: &str) -> f64 {
    f64::from_bits(u64::from_str_radix(h, 16).expect("hex bits"))
}

/// index 99 stands for the whole reserved key text (spec/MC_C06.tla)
pub const RESERVED_KEY_INDEX: u64 = 99;

pub fn cs_to_string(cs: &J) -> String {
    let mut out = String::new();
    if let Some(a) = cs.as_array() {
        for i in a {
            let i = i.as_u64().expect("char index");
            if i == RESERVED_KEY_INDEX { out.push_str("__blots_function"); } else { out.push(ALPHABET[i as usize - 1]); }
        }
    }
    out
}

pub fn string_to_cs(s: &str) -> Option<J> {
    let mut out = vec![];
    for c in s.chars() {
        let i = ALPHABET.iter().position(|a| *a == c)?;
        out.push(json!(i + 1));
    }
    Some(J::Array(out))
}

pub fn num_of(m: &J, lift: Lift) -> f64 {
    match m["k"].as_str().unwrap_or("fin") {
        "fin" => lift.apply(m["n"].as_i64().expect("n")),
        "nan" => f64::NAN,
        "pinf" => f64::INFINITY,
        "ninf" => f64::NEG_INFINITY,
        "nzero" => -0.0,
        "bits" => unhex(m["h"].as_str().expect("h")),
        k => panic!("unknown number kind {k}"),
    }
}

/// Blots source text for a double that evaluates to exactly that double (no reliance on the printer
/// of the code under test): shortest round-trip decimal via Rust's `{:e}`, specials by expression.
pub fn num_src(x: f64) -> String {
    if x.is_nan() {
        "(0/0)".into()
    } else if x == f64::INFINITY {
        "inf".into()
    } else if x == f64::NEG_INFINITY {
        "(-inf)".into()
    } else if x == 0.0 && x.is_sign_negative() {
        "(-0)".into()
    } else if x < 0.0 {
        format!("({})", plain_decimal(x))
    } else {
        plain_decimal(x)
    }
}

/// A decimal literal in Blots' literal grammar (digits[.digits][e[+-]digits]) denoting exactly x.
pub fn plain_decimal(x: f64) -> String {
    if x.fract() == 0.0 && x.abs() < 1e15 {
        return format!("{:.0}", x);
    }
    let s = format!("{:e}", x); // e.g. 1.5e-7, always round-trips
    s
}

/// String literal source. The grammar has no escapes: a literal cannot contain its own quote
/// character or a newline; mixed quotes are built by concatenation.
pub fn str_src(s: &str) -> String {
    if !s.contains('"') {
        return format!("\"{}\"", s);
    }
    if !s.contains('\'') {
        return format!("'{}'", s);
    }
    // split into maximal runs without '"' / with only '"'
    let mut parts: Vec<String> = vec![];
    let mut cur = String::new();
    let mut cur_dq = false;
    for c in s.chars() {
        let is_dq = c == '"';
        if !cur.is_empty() && is_dq != cur_dq {
            parts.push(if cur_dq { format!("'{}'", cur) } else { format!("\"{}\"", cur) });
            cur.clear();
        }
        cur_dq = is_dq;
        cur.push(c);
    }
    if !cur.is_empty() {
        parts.push(if cur_dq { format!("'{}'", cur) } else { format!("\"{}\"", cur) });
    }
    format!("({})", parts.join(" + "))
}

/// Render a model value as a Blots expression (self-delimiting: always safe as an operand).
pub fn src(m: &J, lift: Lift) -> String {
    match m["t"].as_str().expect("tag") {
        "num" => num_src(num_of(m, lift)),
        "str" => str_src(&cs_to_string(&m["cs"])),
        "bool" => m["b"].as_bool().unwrap().to_string(),
        "null" => "null".into(),
        "list" => {
            let xs: Vec<String> = m["xs"].as_array().unwrap().iter().map(|x| src(x, lift)).collect();
            format!("[{}]", xs.join(", "))
        }
        "rec" => {
            let ks = m["ks"].as_array().unwrap();
            let vs = m["vs"].as_array().unwrap();
            let es: Vec<String> = ks
                .iter()
                .zip(vs.iter())
                .map(|(k, v)| {
                    let key = cs_to_string(k);
                    // dynamic key form works for every key text
                    format!("[{}]: {}", str_src(&key), src(v, lift))
                })
                .collect();
            format!("{{{}}}", es.join(", "))
        }
        "bi" => m["name"].as_str().unwrap().to_string(),
        t => panic!("cannot render model value with tag {t}"),
    }
}

/// Concrete canonical form (for equality of expected vs observed): numbers by bit pattern
/// (NaN canonicalised; -0 and +0 kept distinct), strings by text, records in order.
pub fn concrete(m: &J, lift: Lift) -> J {
    match m["t"].as_str().expect("tag") {
        "num" => {
            let x = num_of(m, lift);
            if x.is_nan() { json!({"n": "nan"}) } else { json!({"n": hex(x)}) }
        }
        "str" => json!({"s": cs_to_string(&m["cs"])}),
        "bool" => json!({"b": m["b"]}),
        "null" => J::Null,
        "list" => json!({"l": m["xs"].as_array().unwrap().iter().map(|x| concrete(x, lift)).collect::<Vec<_>>()}),
        "rec" => {
            let ks = m["ks"].as_array().unwrap();
            let vs = m["vs"].as_array().unwrap();
            json!({"r": ks.iter().zip(vs.iter()).map(|(k, v)| json!([cs_to_string(k), concrete(v, lift)])).collect::<Vec<_>>()})
        }
        "bi" => json!({"bi": m["name"]}),
        t => panic!("cannot concretise model value with tag {t}"),
    }
}

/// Concrete canonical form of a real value.
pub fn concrete_of_value(v: &Value, heap: &Heap) -> J {
    match v {
        Value::Number(x) => {
            if x.is_nan() { json!({"n": "nan"}) } else { json!({"n": hex(*x)}) }
        }
        Value::Bool(b) => json!({"b": b}),
        Value::Null => J::Null,
        Value::String(p) => json!({"s": p.reify(heap).as_string().unwrap()}),
        Value::List(p) => {
            json!({"l": p.reify(heap).as_list().unwrap().iter().map(|x| concrete_of_value(x, heap)).collect::<Vec<_>>()})
        }
        Value::Record(p) => {
            json!({"r": p.reify(heap).as_record().unwrap().iter().map(|(k, v)| json!([k, concrete_of_value(v, heap)])).collect::<Vec<_>>()})
        }
        // functions by their source text (heap positions differ between runs)
        Value::Lambda(_) => json!({"f": v.stringify_internal(heap)}),
        Value::BuiltIn(b) => json!({"bi": b.name()}),
        Value::Spread(_) => json!({"spread": true}),
    }
}

/// Project a real value back into the model vocabulary (inverse of `src` under `lift`).
/// Numbers outside the lift's image become opaque `bits`; strings outside ALPHABET become `raw`.
pub fn project(v: &Value, heap: &Heap, lift: Lift) -> J {
    match v {
        Value::Number(x) => project_num(*x, lift),
        Value::Bool(b) => json!({"t":"bool","b":b}),
        Value::Null => json!({"t":"null"}),
        Value::String(p) => project_str(p.reify(heap).as_string().unwrap()),
        Value::List(p) => {
            json!({"t":"list","xs": p.reify(heap).as_list().unwrap().iter().map(|x| project(x, heap, lift)).collect::<Vec<_>>()})
        }
        Value::Record(p) => {
            let r = p.reify(heap).as_record().unwrap();
            json!({"t":"rec",
                   "ks": r.keys().map(|k| string_to_cs(k).unwrap_or(json!([0]))).collect::<Vec<_>>(),
                   "vs": r.values().map(|x| project(x, heap, lift)).collect::<Vec<_>>()})
        }
        Value::Lambda(p) => json!({"t":"fn","id": p.index()}),
        Value::BuiltIn(b) => json!({"t":"bi","name": b.name()}),
        Value::Spread(_) => json!({"t":"spread"}),
    }
}

pub fn project_num(x: f64, lift: Lift) -> J {
    if x.is_nan() {
        json!({"t":"num","k":"nan","n":0})
    } else if x == f64::INFINITY {
        json!({"t":"num","k":"pinf","n":0})
    } else if x == f64::NEG_INFINITY {
        json!({"t":"num","k":"ninf","n":0})
    } else if x == 0.0 && x.is_sign_negative() {
        json!({"t":"num","k":"nzero","n":0})
    } else if let Some(n) = lift.invert(x) {
        json!({"t":"num","k":"fin","n":n})
    } else {
        json!({"t":"num","k":"bits","n":0,"h":hex(x)})
    }
}

pub fn project_str(s: &str) -> J {
    match string_to_cs(s) {
        Some(cs) => json!({"t":"str","cs":cs}),
        None => json!({"t":"str","cs":[],"raw":s}),
    }
}
