//! Random model values (in the vocabulary of spec/BlotsValues.tla).
use crate::rng::Rng;
use serde_json::{Value as J, json};

pub struct GenCfg {
    pub max_depth: u32,
    pub max_len: u64,
    pub rank: i64,
    pub alpha: Vec<u64>, // allowed ALPHABET indexes (1-based)
    pub specials: bool,  // pinf / ninf / nzero
}

impl Default for GenCfg {
    fn default() -> Self {
        GenCfg { max_depth: 3, max_len: 4, rank: 4, alpha: vec![5, 6, 8, 12, 13, 14, 16, 18, 19], specials: true }
    }
}

pub fn fin(n: i64) -> J {
    json!({"t":"num","k":"fin","n":n})
}

pub fn gen_num(r: &mut Rng, c: &GenCfg) -> J {
    if c.specials && r.chance(1, 8) {
        let k = *r.pick(&["pinf", "ninf", "nzero"]);
        json!({"t":"num","k":k,"n":0})
    } else {
        fin(r.range(-c.rank, c.rank))
    }
}

pub fn gen_cs(r: &mut Rng, c: &GenCfg) -> J {
    let n = r.below(c.max_len + 1);
    J::Array((0..n).map(|_| json!(*r.pick(&c.alpha))).collect())
}

pub fn gen_str(r: &mut Rng, c: &GenCfg) -> J {
    json!({"t":"str","cs":gen_cs(r, c)})
}

pub fn gen_value(r: &mut Rng, c: &GenCfg, depth: u32) -> J {
    let top = if depth >= c.max_depth { 5 } else { 8 };
    match r.below(top) {
        0 | 1 => gen_num(r, c),
        2 => gen_str(r, c),
        3 => json!({"t":"bool","b": r.chance(1, 2)}),
        4 => {
            if r.chance(1, 2) { json!({"t":"null"}) } else { gen_num(r, c) }
        }
        5 | 6 => {
            let n = r.below(c.max_len + 1);
            // lists are homogeneous most of the time so that they are comparable
            if r.chance(2, 3) {
                let kind = r.below(3);
                json!({"t":"list","xs": (0..n).map(|_| match kind {
                    0 => gen_num(r, c), 1 => gen_str(r, c), _ => gen_value(r, c, depth + 1)}).collect::<Vec<_>>()})
            } else {
                json!({"t":"list","xs": (0..n).map(|_| gen_value(r, c, depth + 1)).collect::<Vec<_>>()})
            }
        }
        _ => gen_rec(r, c, depth),
    }
}

pub fn gen_rec(r: &mut Rng, c: &GenCfg, depth: u32) -> J {
    let n = r.below(c.max_len.min(3) + 1);
    let mut ks: Vec<J> = vec![];
    let mut vs: Vec<J> = vec![];
    for _ in 0..n {
        let k = gen_cs(r, c);
        if ks.contains(&k) {
            continue;
        }
        ks.push(k);
        vs.push(gen_value(r, c, depth + 1));
    }
    json!({"t":"rec","ks":ks,"vs":vs})
}

/// A value near `v`: equal, or differing in one leaf / one length / key order.
pub fn mutate(r: &mut Rng, c: &GenCfg, v: &J) -> J {
    match v["t"].as_str().unwrap() {
        "num" => {
            if v["k"] == "fin" && r.chance(2, 3) {
                fin(v["n"].as_i64().unwrap() + r.range(-1, 1))
            } else if v["k"] == "nzero" || (v["k"] == "fin" && v["n"] == 0) {
                if r.chance(1, 2) { json!({"t":"num","k":"nzero","n":0}) } else { fin(0) }
            } else {
                v.clone()
            }
        }
        "str" => {
            let mut cs = v["cs"].as_array().unwrap().clone();
            match r.below(4) {
                0 => { cs.push(json!(*r.pick(&c.alpha))); }
                1 => { cs.pop(); }
                2 => { if !cs.is_empty() { let i = r.below(cs.len() as u64) as usize; cs[i] = json!(*r.pick(&c.alpha)); } }
                _ => {}
            }
            json!({"t":"str","cs":cs})
        }
        "list" => {
            let mut xs = v["xs"].as_array().unwrap().clone();
            match r.below(4) {
                0 => { if let Some(l) = xs.last().cloned() { xs.push(l); } else { xs.push(gen_num(r, c)); } }
                1 => { xs.pop(); }
                2 => { if !xs.is_empty() { let i = r.below(xs.len() as u64) as usize; xs[i] = mutate(r, c, &xs[i]); } }
                _ => {}
            }
            json!({"t":"list","xs":xs})
        }
        "rec" => {
            let mut ks = v["ks"].as_array().unwrap().clone();
            let mut vs = v["vs"].as_array().unwrap().clone();
            match r.below(4) {
                0 => { ks.reverse(); vs.reverse(); }
                1 => { if ks.len() > 1 { ks.rotate_left(1); vs.rotate_left(1); } }
                2 => { if !vs.is_empty() { let i = r.below(vs.len() as u64) as usize; vs[i] = mutate(r, c, &vs[i]); } }
                _ => {}
            }
            json!({"t":"rec","ks":ks,"vs":vs})
        }
        _ => v.clone(),
    }
}
