//! X05 - extended conformance (not a listed property): trim / uppercase / lowercase / replace against spec/BlotsStrings.tla.
use crate::c11::{describe, outcome_matches};
use crate::ev::Session;
use crate::mv::{self, Lift};
use serde_json::{Value as J, json};

pub fn replay(case: &J) -> J {
    let c = &case["c"];
    let f = c["f"].as_str().unwrap();
    let src = if f == "replace" { format!("replace({}, {}, {})", mv::src(&c["v"], Lift::Id), mv::src(&c["w"], Lift::Id), mv::src(&c["u"], Lift::Id)) }
              else { format!("{}({})", f, mv::src(&c["v"], Lift::Id)) };
    let s = Session::new();
    let o = s.eval(&src);
    let ok = outcome_matches(&case["exp"], &o, &s.heap.borrow(), Lift::Id);
    crate::ev::clear_stats();
    if ok { json!({"evals": 1, "mismatches": []}) } else { json!({"evals": 1, "mismatches": [{"src": src, "exp": case["exp"], "obs": describe(&o, &s.heap.borrow())}]}) }
}
