//! C13 - via / where / into agree with map / filter / application; callback protocol.
use crate::c04::{proj_outcome, same};
use crate::core;
use crate::ev::Session;
use blots_core::functions::verif_hooks as callhooks;
use serde_json::{Value as J, json};

pub fn replay(case: &J, setup: &J) -> J {
    let s = Session::new();
    for st in setup.as_array().unwrap() {
        let _ = s.eval(&core::render(st));
    }
    let mut mism = vec![];
    let a_src = core::render(&case["a"]);
    let b_src = core::render(&case["b"]);
    callhooks::start();
    let a = proj_outcome(&s.eval(&a_src), &s);
    let a_calls = callhooks::take();
    callhooks::start();
    let b = proj_outcome(&s.eval(&b_src), &s);
    let b_calls = callhooks::take();
    if !same(&case["exp"], &a) {
        mism.push(json!({"src": a_src, "exp": case["exp"], "obs": a}));
    }
    if !same(&case["exp"], &b) {
        mism.push(json!({"src": b_src, "exp": case["exp"], "obs": b}));
    }
    // the equivalent forms agree with each other, whatever the model says
    if mism.is_empty() && a != b && !(a["t"] == "err" && b["t"] == "err") {
        mism.push(json!({"src": format!("{a_src}  vs  {b_src}"), "exp": a, "obs": b}));
    }
    // callback protocol seen through the call hook: the callback named case.f is called with the same
    // argument counts, in the same order, by both forms
    let f = case["f"].as_str().unwrap();
    let pick = |calls: &Vec<callhooks::CallEvent>| -> Vec<usize> {
        let mut v = vec![];
        let mut base: Option<usize> = None;
        for c in calls {
            if c.name.contains(&format!("\"{}\"", f)) {
                // only the outermost calls of the callback (recursive calls are deeper)
                match base { None => { base = Some(c.depth); v.push(c.nargs); } Some(b) => if c.depth == b { v.push(c.nargs); } }
            }
        }
        v
    };
    let (pa, pb) = (pick(&a_calls), pick(&b_calls));
    if mism.is_empty() && pa != pb && a["t"] != "err" {
        mism.push(json!({"src": format!("{a_src}  vs  {b_src}"), "exp": format!("callback argument counts {:?}", pa), "obs": format!("{:?}", pb)}));
    }
    crate::ev::clear_stats();
    json!({"evals": 2, "mismatches": mism, "calls": pa.len()})
}
