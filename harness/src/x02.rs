//! X02 - extended conformance (not a listed property): the Start / End token stream of `tokenize` is a well-nested
//! bracket sequence with monotone positions inside the text (spec/Tokens.tla, validated by spec/Trace_X02.tla).
use crate::rng::Rng;
use crate::wasm_driver;
use serde_json::{Value as J, json};

pub fn record(seed: u64, n: usize) -> Vec<J> {
    let mut r = Rng::new(seed ^ 0x70C);
    let mut texts: Vec<String> = vec![];
    for dir in ["/repo/examples", "/repo/benches"] {
        if let Ok(rd) = std::fs::read_dir(dir) {
            let mut ps: Vec<_> = rd.flatten().map(|e| e.path()).filter(|p| p.extension().map_or(false, |x| x == "blots")).collect();
            ps.sort();
            for p in ps { if let Ok(s) = std::fs::read_to_string(&p) { texts.push(s); } }
        }
    }
    for t in ["", " ", "// only a comment", "x = \"\u{e9}\u{1f600}\" // \u{20ac}\n\n[1,\n 2] via (y => y)", "output \u{e9} = 1"] { texts.push(t.to_string()); }
    for _ in 0..n { texts.push(crate::proggen::program(&mut r)); }
    let mut out = vec![];
    for t in texts {
        let toks = match std::panic::catch_unwind(|| wasm_driver::tokenize(&t)) { Ok(Ok(j)) => j, _ => continue };
        out.push(json!({"ev":"reset","len":t.len(),"src": t.chars().take(120).collect::<String>()}));
        for tok in toks.as_array().cloned().unwrap_or_default() {
            let (kind, body) = if let Some(b) = tok.get("Start") { ("Start", b.clone()) } else if let Some(b) = tok.get("End") { ("End", b.clone()) } else { continue };
            let pos = body["pos"].as_u64().unwrap_or(u64::MAX) as usize;
            out.push(json!({"ev":"tok","kind":kind,"rule":body["rule"],"pos":pos,"boundary": pos <= t.len() && t.is_char_boundary(pos)}));
        }
        out.push(json!({"ev":"done"}));
    }
    out
}
