//! C04 - closures capture definition-time values; calls are call-site independent; argument binding.
use crate::core;
use crate::ev::{Outcome, Session};
use crate::mv::{self, Lift};
use blots_core::values::SerializableValue;
use indexmap::IndexMap;
use serde_json::{Value as J, json};

fn session() -> Session {
    let mut m = IndexMap::new();
    m.insert("a".to_string(), SerializableValue::Number(7.0));
    Session::with_inputs(m)
}

pub fn proj_outcome(o: &Outcome, s: &Session) -> J {
    match o {
        Outcome::Ok(v) => proj_value(v, s),
        Outcome::Err(_) => json!({"t":"err"}),
        Outcome::ParseErr(m) => json!({"t":"parse","m":m}),
        Outcome::Panic(m) => json!({"t":"panic","m":m}),
    }
}

pub fn proj_value(v: &blots_core::values::Value, s: &Session) -> J {
    use blots_core::heap::HeapPointer;
    use blots_core::values::Value;
    match v {
        Value::Lambda(_) => json!({"t":"fn"}),
        Value::List(p) => {
            let xs: Vec<Value> = p.reify(&s.heap.borrow()).as_list().unwrap().clone();
            json!({"t":"list","xs": xs.iter().map(|x| proj_value(x, s)).collect::<Vec<_>>()})
        }
        Value::Record(p) => {
            let r: Vec<(String, Value)> = p.reify(&s.heap.borrow()).as_record().unwrap().iter().map(|(k, v)| (k.clone(), *v)).collect();
            json!({"t":"rec","ks": r.iter().map(|(k, _)| mv::string_to_cs(k).unwrap_or(json!({"raw": k}))).collect::<Vec<_>>(),
                   "vs": r.iter().map(|(_, v)| proj_value(v, s)).collect::<Vec<_>>()})
        }
        _ => mv::project(v, &s.heap.borrow(), Lift::Id),
    }
}

/// expected (model) value vs observed projection; errors compare by class "err" only
pub fn same(exp: &J, got: &J) -> bool {
    if exp["t"] == "err" { return got["t"] == "err"; }
    if exp["t"] == "unk" { return got["t"] != "err" && got["t"] != "panic" && got["t"] != "parse"; }
    if exp["t"] == "list" && got["t"] == "list" {
        let (a, b) = (exp["xs"].as_array().unwrap(), got["xs"].as_array().unwrap());
        return a.len() == b.len() && a.iter().zip(b.iter()).all(|(x, y)| same(x, y));
    }
    if exp["t"] == "rec" && got["t"] == "rec" {
        let (a, b) = (exp["vs"].as_array().unwrap(), got["vs"].as_array().unwrap());
        return exp["ks"] == got["ks"] && a.len() == b.len() && a.iter().zip(b.iter()).all(|(x, y)| same(x, y));
    }
    exp == got
}

fn run_all(s: &Session, stmts: &J) {
    for st in stmts.as_array().unwrap() {
        let _ = s.eval(&core::render(st));
    }
}

pub fn replay(case: &J) -> J {
    let mut mism = vec![];
    let mut evals = 0;
    if case["fam"] == "ctx" {
        let s1 = session();
        run_all(&s1, &case["setup"]);
        let top_src = core::render(&case["top"]);
        let top = proj_outcome(&s1.eval(&top_src), &s1);
        let s2 = session();
        run_all(&s2, &case["setup"]);
        run_all(&s2, &case["pre"]);
        let ctx_src = core::render(&case["e"]);
        let ctx = proj_outcome(&s2.eval(&ctx_src), &s2);
        evals += 2;
        let setup: Vec<String> = case["setup"].as_array().unwrap().iter().map(core::render).collect();
        if !same(&case["expTop"], &top) {
            mism.push(json!({"where":"top","setup":setup,"src":top_src,"exp":case["expTop"],"obs":top}));
        }
        if !same(&case["expCtx"], &ctx) {
            mism.push(json!({"where":"ctx","setup":setup,"src":ctx_src,"exp":case["expCtx"],"obs":ctx}));
        }
        // the consequence itself, independent of the model's values: closed after capture => same result
        if case["closed"] == true && case["wrap"] == "id" && top != ctx && mism.is_empty() {
            mism.push(json!({"where":"call-site","setup":setup,"src":ctx_src,"exp":top,"obs":ctx}));
        }
    } else {
        let s = session();
        let src = core::render(&case["e"]);
        let got = proj_outcome(&s.eval(&src), &s);
        evals += 1;
        if !same(&case["exp"], &got) {
            mism.push(json!({"where":"args","src":src,"exp":case["exp"],"obs":got}));
        }
    }
    crate::ev::clear_stats();
    json!({"evals": evals, "mismatches": mism})
}

// ---------------------------------------------------------------- impl -> spec
use crate::rng::Rng;

/// Random parameter lists (shape required* optional* rest?) with random names and random integer arguments;
/// and random closure-in-context programs built from the constructors of the core language.
pub fn record(seed: u64, n: usize) -> Vec<J> {
    let mut r = Rng::new(seed);
    let mut out = vec![];
    let pool = ["p1", "p2", "q1", "q2", "rs", "x", "y", "z"];
    let num = |v: i64| json!({"k":"num","v":v});
    let id = |n: &str| json!({"k":"id","n":n});
    for i in 0..n {
        let s = session();
        if i % 2 == 0 {
            let mut names: Vec<&str> = pool.to_vec();
            // shuffle
            for j in (1..names.len()).rev() { let k = r.below(j as u64 + 1) as usize; names.swap(j, k); }
            let (nr, no, nz) = (r.below(4) as usize, r.below(3) as usize, r.below(2) as usize);
            let mut ps = vec![];
            for j in 0..(nr + no + nz) {
                let m = if j < nr { "req" } else if j < nr + no { "opt" } else { "rest" };
                ps.push(json!({"n": names[j], "m": m}));
            }
            let body = json!({"k":"list","xs": ps.iter().map(|p| id(p["n"].as_str().unwrap())).collect::<Vec<_>>()});
            let nargs = r.below((nr + no + 4) as u64) as usize;
            let args: Vec<J> = (0..nargs).map(|_| num(r.range(0, 50))).collect();
            let e = json!({"k":"call","f":{"k":"lam","ps":ps,"b":body},"args":args});
            let src = core::render(&e);
            let got = proj_outcome(&s.eval(&src), &s);
            out.push(json!({"ev":"call","setup":[],"e":e,"res":got,"src":src}));
        } else {
            // g = <v>; f = x => x + g  called through a random tower of shadowing contexts with random values
            let gv = r.range(1, 30);
            let setup = vec![json!({"k":"asg","n":"g","e":num(gv)}),
                             json!({"k":"asg","n":"f","e":{"k":"lam","ps":[{"n":"x","m":"req"}],"b":{"k":"bin","o":"add","l":id("x"),"r":id("g")}}})];
            let mut e = json!({"k":"call","f":id("f"),"args":[num(r.range(0, 20))]});
            for _ in 0..(1 + r.below(4)) {
                let sh = r.range(50, 99);
                e = match r.below(6) {
                    0 => json!({"k":"call","f":{"k":"lam","ps":[{"n":"g","m":"req"}],"b":e},"args":[num(sh)]}),
                    1 => json!({"k":"call","f":{"k":"lam","ps":[{"n":"x","m":"req"}],"b":e},"args":[num(sh)]}),
                    2 => json!({"k":"do","ss":[{"k":"asg","n":"g","e":num(sh)}],"r":e}),
                    3 => json!({"k":"idx","e":{"k":"bin","o":"via","l":{"k":"list","xs":[num(sh)]},"r":{"k":"lam","ps":[{"n":"g","m":"req"}],"b":e}},"i":num(0)}),
                    4 => json!({"k":"idx","e":{"k":"call","f":id("map"),"args":[{"k":"list","xs":[num(sh)]},{"k":"lam","ps":[{"n":"x","m":"req"},{"n":"g","m":"opt"}],"b":e}]},"i":num(0)}),
                    _ => json!({"k":"call","f":id("reduce"),"args":[{"k":"list","xs":[num(sh)]},{"k":"lam","ps":[{"n":"g","m":"req"},{"n":"x","m":"req"}],"b":e},num(sh)]}),
                };
            }
            for st in &setup { let _ = s.eval(&core::render(st)); }
            let src = core::render(&e);
            let got = proj_outcome(&s.eval(&src), &s);
            out.push(json!({"ev":"call","setup":setup,"e":e,"res":got,"src":src}));
        }
        crate::ev::clear_stats();
    }
    out
}
