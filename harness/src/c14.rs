//! C14 - indexing, spreading and the list / string / record built-ins.
use crate::c11::{describe, outcome_matches};
use crate::ev::{Outcome, Session};
use crate::mv::{self, Lift};
use crate::rng::Rng;
use crate::vgen::{self, GenCfg};
use serde_json::{Value as J, json};

pub fn keyfn_src(k: &str) -> &'static str {
    match k {
        "id" => "(x => x)",
        "neg" => "(x => -x)",
        "len" => "(x => len(x))",
        "first" => "(x => x[0])",
        "const" => "(x => 0)",
        "type" => "(x => if typeof(x) == \"number\" then \"a\" else if typeof(x) == \"string\" then \"b\" else if typeof(x) == \"list\" then \"c\" else \"z\")",
        _ => panic!("keyfn {k}"),
    }
}

fn int_src(i: i64) -> String {
    if i < 0 { format!("({})", i) } else { i.to_string() }
}

/// Source text of one call of the case vocabulary of spec/BlotsBuiltins.tla (Apply).
pub fn call_src(c: &J) -> String {
    let l = Lift::Id;
    let f = c["f"].as_str().unwrap();
    let v = || mv::src(&c["v"], l);
    let w = || mv::src(&c["w"], l);
    let i = || int_src(c["i"].as_i64().unwrap());
    let j = || int_src(c["j"].as_i64().unwrap());
    match f {
        "sort" | "unique" | "reverse" | "len" | "head" | "tail" | "flatten" | "keys" | "values" | "entries" => {
            format!("{}({})", f, v())
        }
        "sort_by" | "group_by" | "count_by" => format!("{}({}, {})", f, v(), keyfn_src(c["k"].as_str().unwrap())),
        "index" => format!("{}[{}]", v(), i()),
        "slice" => format!("slice({}, {}, {})", v(), i(), j()),
        "chunk" => format!("chunk({}, {})", v(), i()),
        "concat" => format!("concat({}, {})", v(), w()),
        "zip" => format!("zip({}, {})", v(), w()),
        "spread2" => format!("[...{}, ...{}]", v(), w()),
        "spread1" => format!("[...{}]", v()),
        "range" => format!("range({}, {})", i(), j()),
        "range1" => format!("range({})", i()),
        "field" => format!("{}[{}]", v(), w()),
        "split" => format!("split({}, {})", v(), w()),
        "join" => format!("join({}, {})", v(), w()),
        "splitjoin" => format!("join(split({}, {}), {})", v(), w(), w()),
        _ => panic!("call {f}"),
    }
}

fn is_permutation(input: &J, o: &Outcome, s: &Session) -> bool {
    match o {
        Outcome::Ok(v) => {
            let got = mv::concrete_of_value(v, &s.heap.borrow());
            let mut a: Vec<String> = match got["l"].as_array() {
                Some(xs) => xs.iter().map(|x| x.to_string()).collect(),
                None => return false,
            };
            let mut b: Vec<String> = input["xs"].as_array().unwrap().iter().map(|x| mv::concrete(x, Lift::Id).to_string()).collect();
            a.sort();
            b.sort();
            a == b
        }
        _ => false,
    }
}

pub fn replay(case: &J) -> J {
    let c = &case["c"];
    let s = Session::new();
    let src = call_src(c);
    let o = s.eval(&src);
    let f = c["f"].as_str().unwrap();
    let exp = &case["exp"];
    let mut ok = if exp["t"] == "unk" {
        match f {
            // elements / keys not mutually comparable: only "a permutation of its input" is claimed
            "sort" | "sort_by" => is_permutation(&c["v"], &o, &s),
            _ => !matches!(o, Outcome::Panic(_) | Outcome::ParseErr(_)),
        }
    } else {
        outcome_matches(exp, &o, &s.heap.borrow(), Lift::Id)
    };
    let mut extra = vec![];
    // field access through the dot form when the key is an identifier
    if ok && f == "field" {
        let key = mv::cs_to_string(&c["w"]["cs"]);
        if blots_core::ast_to_source::is_valid_identifier(&key) {
            let src2 = format!("{}.{}", mv::src(&c["v"], Lift::Id), key);
            let o2 = s.eval(&src2);
            if !outcome_matches(exp, &o2, &s.heap.borrow(), Lift::Id) {
                ok = false;
                extra.push(json!({"src": src2, "exp": exp, "obs": describe(&o2, &s.heap.borrow())}));
            }
        }
    }
    crate::ev::clear_stats();
    if ok {
        json!({"evals": 1, "mismatches": []})
    } else if !extra.is_empty() {
        json!({"evals": 2, "mismatches": extra})
    } else {
        json!({"evals": 1, "mismatches": [{"src": src, "exp": exp, "obs": describe(&o, &s.heap.borrow())}]})
    }
}

// ---------------------------------------------------------------- impl -> spec

fn proj(o: &Outcome, s: &Session) -> J {
    match o {
        Outcome::Ok(v) => mv::project(v, &s.heap.borrow(), Lift::Id),
        Outcome::Err(_) => json!({"t":"err"}),
        Outcome::ParseErr(m) => json!({"t":"parse","m":m}),
        Outcome::Panic(m) => json!({"t":"panic","m":m}),
    }
}

/// characters chosen to collide under truncation: same low byte (A / U+0141 / U+FF21 / U+1F441), same low 16 bits (U+0041 / U+10041),
/// plus combining marks, a 2-, 3- and 4-byte character each and ASCII
const WIDE: &[char] = &['A', '\u{141}', '\u{241}', '\u{ff21}', '\u{1f441}', '\u{10041}', 'a', '\u{161}', '\u{e9}', 'e', '\u{301}', '\u{20ac}', '\u{1f600}', ' ', '0', '\u{100}'];

fn strlaw_events(seed: u64, n: usize) -> Vec<J> {
    let mut r = Rng::new(seed ^ 0x57A);
    let mut out = vec![];
    let s = Session::new(); // one session for all strings: whatever the evaluator remembers between strings stays in play
    for _ in 0..n {
        let len = r.below(7) as usize;
        let chars: Vec<char> = (0..len).map(|_| *r.pick(WIDE)).collect();
        let text: String = chars.iter().collect();
        let lit = mv::str_src(&text);
        let strs = |o: Outcome| -> Vec<String> {
            match o { Outcome::Ok(v) => match mv::concrete_of_value(&v, &s.heap.borrow()) { J::Object(m) => m.get("l").and_then(|l| l.as_array()).map(|a| a.iter().map(|x| x["s"].as_str().unwrap_or("<?>").to_string()).collect()).unwrap_or(vec!["<not a list>".into()]), _ => vec!["<?>".into()] }, o => vec![format!("<{}>", o.class())] }
        };
        let spread = strs(s.eval(&format!("[...{lit}]")));
        let indexed = strs(s.eval(&format!("range({len}) via (i => {lit}[i])")));
        let sliced = strs(s.eval(&format!("range({len}) via (i => slice({lit}, i, i + 1))")));
        let n_len = match s.eval(&format!("len({lit})")) { Outcome::Ok(blots_core::values::Value::Number(x)) => x as i64, _ => -1 };
        let truth = |src: String| matches!(s.eval(&src), Outcome::Ok(blots_core::values::Value::Bool(true)));
        let joined = truth(format!("join([...{lit}], \"\") == {lit}"));
        let headtail = len == 0 || truth(format!("head({lit}) + tail({lit}) == {lit} and head({lit}) == {lit}[0]"));
        let want: Vec<String> = chars.iter().map(|c| c.to_string()).collect();
        out.push(json!({"ev":"strlaw","src":format!("[...{lit}] and friends"),"chars":want,"spread":spread,"indexed":indexed,"sliced":sliced,"len":n_len,"joined":joined,"headtail":headtail}));
        crate::ev::clear_stats();
    }
    out
}

pub fn record(seed: u64, n: usize) -> Vec<J> {
    let mut r = Rng::new(seed);
    let mut out = strlaw_events(seed, (n / 8).max(100));
    let null = json!({"t":"null"});
    // directed: sort / sort_by on lists of every length up to 40, with many ties and with few (merge passes that leave an
    // unpaired run at the tail only exist for some lengths)
    for len in 2..=40usize {
        for wide in [false, true] {
            let xs: Vec<J> = (0..len).map(|_| vgen::fin(if wide { r.range(-30, 30) } else { r.range(-2, 2) })).collect();
            let list = json!({"t":"list","xs": xs});
            for (f, k) in [("sort", ""), ("sort_by", "id"), ("sort_by", "neg")] {
                let c = json!({"f":f,"v":list,"w":(null.clone()),"i":0,"j":0,"k":k});
                let s = Session::new();
                let src = call_src(&c);
                let o = s.eval(&src);
                out.push(json!({"ev":"call","c":c,"res":proj(&o, &s),"src":src}));
            }
        }
        crate::ev::clear_stats();
    }
    for _ in 0..n {
        let cfg = GenCfg { max_depth: 2, max_len: 3, rank: 5, alpha: vec![2, 3, 5, 12, 13, 16, 17, 18, 19], specials: false };
        let big = r.chance(1, 6);
        let len = r.below(if big { 41 } else { 9 });
        // lists: numeric, strings, pairs or mixed
        let kind = r.below(4);
        let list = json!({"t":"list","xs": (0..len).map(|_| match kind {
            0 => vgen::fin(r.range(-3, 3)),
            1 => vgen::gen_str(&mut r, &cfg),
            2 => json!({"t":"list","xs":[vgen::fin(r.range(0, 2)), vgen::gen_str(&mut r, &cfg)]}),
            _ => vgen::gen_value(&mut r, &cfg, 1),
        }).collect::<Vec<_>>()});
        let scfg = GenCfg { max_len: 8, ..GenCfg { max_depth: 2, max_len: 8, rank: 5, alpha: vec![2, 3, 5, 12, 13, 16, 17, 18, 19], specials: false } };
        let st = vgen::gen_str(&mut r, &scfg);
        let fs: &[&str] = &["sort", "unique", "reverse", "len", "head", "tail", "flatten", "spread1", "chunk", "index", "slice",
            "sort_by", "group_by", "count_by", "concat", "spread2", "zip", "len_s", "head_s", "tail_s", "index_s", "slice_s",
            "spread1_s", "split", "splitjoin", "keys", "values", "entries", "field", "range"];
        let f = *r.pick(fs);
        let mk = |f: &str, v: &J, w: &J, i: i64, j: i64, k: &str| json!({"f":f,"v":v,"w":w,"i":i,"j":j,"k":k});
        let ln = len as i64;
        let sl = st["cs"].as_array().unwrap().len() as i64;
        let c = match f {
            "sort" | "unique" | "reverse" | "len" | "head" | "tail" | "flatten" | "spread1" => mk(f, &list, &null, 0, 0, ""),
            "chunk" => mk(f, &list, &null, r.range(1, 5), 0, ""),
            "index" => mk(f, &list, &null, r.range(-ln - 2, ln + 2), 0, ""),
            "slice" => { let a = r.range(0, ln + 1); mk(f, &list, &null, a, r.range(0, ln + 2), "") }
            "sort_by" => mk(f, &list, &null, 0, 0, match kind { 0 => *r.pick(&["id", "neg", "const"]), 1 => *r.pick(&["len", "id", "const"]), 2 => *r.pick(&["first", "const", "len"]), _ => "const" }),
            "group_by" | "count_by" => mk(f, &list, &null, 0, 0, if kind == 1 { *r.pick(&["id", "type"]) } else { "type" }),
            "concat" | "spread2" | "zip" => {
                let l2 = json!({"t":"list","xs": (0..r.below(5)).map(|_| vgen::gen_value(&mut r, &cfg, 1)).collect::<Vec<_>>()});
                mk(f, &list, &l2, 0, 0, "")
            }
            "len_s" | "head_s" | "tail_s" | "spread1_s" => mk(&f[..f.len() - 2], &st, &null, 0, 0, ""),
            "index_s" => mk("index", &st, &null, r.range(-sl - 2, sl + 2), 0, ""),
            "slice_s" => { let a = r.range(0, sl + 1); mk("slice", &st, &null, a, r.range(0, sl + 2), "") }
            "split" | "splitjoin" => {
                let dcfg = GenCfg { max_len: 2, ..GenCfg { max_depth: 1, max_len: 2, rank: 1, alpha: vec![2, 12, 13, 19], specials: false } };
                mk(f, &st, &vgen::gen_str(&mut r, &dcfg), 0, 0, "")
            }
            "keys" | "values" | "entries" => mk(f, &vgen::gen_rec(&mut r, &cfg, 1), &null, 0, 0, ""),
            "field" => {
                let rec = vgen::gen_rec(&mut r, &cfg, 1);
                let ks = rec["ks"].as_array().unwrap();
                let key = if !ks.is_empty() && r.chance(2, 3) { ks[r.below(ks.len() as u64) as usize].clone() } else { vgen::gen_cs(&mut r, &cfg) };
                mk(f, &rec, &json!({"t":"str","cs":key}), 0, 0, "")
            }
            _ => mk("range", &null, &null, r.range(-6, 6), r.range(-6, 12), ""),
        };
        let s = Session::new();
        let src = call_src(&c);
        let o = s.eval(&src);
        out.push(json!({"ev":"call","c":c,"res":proj(&o, &s),"src":src}));
        crate::ev::clear_stats();
    }
    out
}
