//! C05 - function outputs are portable: real emission -> JSON text -> real loading into a fresh heap.
use crate::c04::{proj_outcome, same};
use crate::core;
use crate::ev::{Outcome, Session};
use crate::mv;
use blots_core::values::{SerializableValue, Value};
use indexmap::IndexMap;
use serde_json::{Value as J, json};
use std::panic::{AssertUnwindSafe, catch_unwind};

/// functions nested in a result are compared as "some function" (their behaviour is observed by applying
/// top-level function results once more); equivalent functions may print differently
fn abstract_fns(j: &J) -> J {
    match j {
        J::Object(m) if m.len() == 1 && m.contains_key("f") => json!({"f": true}),
        J::Object(m) => J::Object(m.iter().map(|(k, v)| (k.clone(), abstract_fns(v))).collect()),
        J::Array(a) => J::Array(a.iter().map(abstract_fns).collect()),
        x => x.clone(),
    }
}

fn concrete(o: &Outcome, s: &Session) -> J {
    match o {
        Outcome::Ok(v) => json!({"ok": abstract_fns(&mv::concrete_of_value(v, &s.heap.borrow()))}),
        Outcome::Err(_) => json!("err"),
        Outcome::ParseErr(_) => json!("parse"),
        Outcome::Panic(m) => json!({"panic": m}),
    }
}

/// emit the function bound to `name` as JSON text, the way the CLI writes outputs
pub fn emit(s: &Session, name: &str) -> Result<String, String> {
    let v = s.env.get(name).ok_or_else(|| format!("{name} is not bound"))?;
    let r = catch_unwind(AssertUnwindSafe(|| {
        blots_core::expressions::validate_portable_value(&v, &s.heap.borrow(), &s.env).map_err(|e| format!("not portable: {e}"))?;
        let sv = SerializableValue::from_value(&v, &s.heap.borrow()).map_err(|e| format!("serialise: {e}"))?;
        serde_json::to_string(&sv.to_json()).map_err(|e| e.to_string())
    }));
    match r { Ok(x) => x, Err(p) => Err(format!("panic: {}", crate::ev::panic_msg(p))) }
}

/// load JSON text as input `fn` of a fresh program (fresh heap), the way the CLI reads inputs
pub fn reload(text: &str) -> Result<Session, String> {
    let r = catch_unwind(AssertUnwindSafe(|| -> Result<Session, String> {
        let j: serde_json::Value = serde_json::from_str(text).map_err(|e| format!("emitted JSON does not parse: {e}"))?;
        let sv = SerializableValue::from_json(&j);
        if !matches!(sv, SerializableValue::Lambda(_) | SerializableValue::BuiltIn(_)) {
            return Err(format!("emitted source is not read back as a function: {}", text.chars().take(160).collect::<String>()));
        }
        let mut m = IndexMap::new();
        m.insert("fn".to_string(), sv);
        let s = Session::with_inputs(m);
        // with_inputs drops inputs that fail to load
        let probe = s.eval("inputs.fn");
        match probe {
            Outcome::Ok(Value::Lambda(_)) | Outcome::Ok(Value::BuiltIn(_)) => Ok(s),
            _ => Err(format!("reloaded input is not a function: {}", text.chars().take(160).collect::<String>())),
        }
    }));
    match r { Ok(x) => x, Err(p) => Err(format!("panic: {}", crate::ev::panic_msg(p))) }
}

fn apply_src(f: &str, args: &[String], curried_probe: bool) -> String {
    let call = format!("{}({})", f, args.join(", "));
    if curried_probe { format!("({})(5)", call) } else { call }
}

/// result of applying f to args; if that is a function, apply it once more to 5 (compare by behaviour)
fn observe(s: &Session, f: &str, args: &[String]) -> (J, J) {
    let o = s.eval(&apply_src(f, args, false));
    if let Outcome::Ok(Value::Lambda(_)) = o {
        let o2 = s.eval(&apply_src(f, args, true));
        (concrete(&o2, s), proj_outcome(&o2, s))
    } else {
        (concrete(&o, s), proj_outcome(&o, s))
    }
}

pub struct Portable {
    pub orig: Vec<J>,
    pub problems: Vec<J>,
    pub emitted: Option<String>,
}

/// the whole C05 round trip for the function `name` of session `s` on the argument tuples
pub fn round_trip(s: &Session, name: &str, arg_tuples: &[Vec<String>], model: Option<&[J]>, cli: Option<(&str, &str)>) -> Portable {
    let mut problems = vec![];
    let orig: Vec<(J, J)> = arg_tuples.iter().map(|a| observe(s, name, a)).collect();
    if let Some(m) = model {
        for ((_, p), e) in orig.iter().zip(m.iter()) {
            if !same(e, p) { problems.push(json!({"what":"model","exp":e,"obs":p})); }
        }
    }
    let text = match emit(s, name) {
        Ok(t) => t,
        Err(m) => { problems.push(json!({"what":"emit","obs":m})); return Portable { orig: orig.into_iter().map(|x| x.0).collect(), problems, emitted: None }; }
    };
    let mut texts = vec![text.clone()];
    // first reload, then re-emission of the reloaded function and a second reload
    for round in 0..2 {
        let t = texts.last().unwrap().clone();
        match reload(&t) {
            Ok(s2) => {
                for (a, (o, _)) in arg_tuples.iter().zip(orig.iter()) {
                    let (got, _) = observe(&s2, "inputs.fn", a);
                    if got != *o {
                        problems.push(json!({"what": if round == 0 { "reloaded" } else { "re-emitted" }, "emitted": t, "args": a, "exp": o, "obs": got}));
                    }
                }
                if round == 0 {
                    let _ = s2.eval("refn = inputs.fn");
                    match emit(&s2, "refn") { Ok(t2) => texts.push(t2), Err(m) => { problems.push(json!({"what":"re-emit","emitted":t,"obs":m})); break; } }
                }
            }
            Err(m) => { problems.push(json!({"what": if round == 0 { "reload" } else { "re-emitted reload" }, "emitted": t, "obs": m})); break; }
        }
    }
    // the same through two real processes: blots prog1 | blots prog2
    if let Some((cli, prog1)) = cli {
        if let Some(a) = arg_tuples.first() {
            let p1 = std::process::Command::new("timeout").arg("20").arg(cli).arg(prog1).stdin(std::process::Stdio::null()).output();
            if let Ok(p1) = p1 {
                if p1.status.success() {
                    use std::io::Write;
                    let prog2 = format!("output r = {}", apply_src("inputs.fn", a, false));
                    let mut child = std::process::Command::new("timeout").arg("20").arg(cli).arg(&prog2)
                        .stdin(std::process::Stdio::piped()).stdout(std::process::Stdio::piped()).stderr(std::process::Stdio::null()).spawn().unwrap();
                    child.stdin.take().unwrap().write_all(&p1.stdout).unwrap();
                    let o2 = child.wait_with_output().unwrap();
                    // expected: the original's value as the CLI would print it
                    let exp = {
                        let o = s.eval(&apply_src(name, a, false));
                        match o { Outcome::Ok(v) => SerializableValue::from_value(&v, &s.heap.borrow()).ok().map(|sv| sv.to_json()), _ => None }
                    };
                    let got: Option<J> = if o2.status.success() { serde_json::from_slice::<J>(&o2.stdout).ok().map(|j| j["r"].clone()) } else { None };
                    // function objects inside results print their source, which may differ textually between equivalent functions
                    fn strip_fns(j: &J) -> J {
                        match j {
                            J::Object(m) if m.contains_key("__blots_function") => json!({"__blots_function": true}),
                            J::Object(m) => J::Object(m.iter().map(|(k, v)| (k.clone(), strip_fns(v))).collect()),
                            J::Array(a) => J::Array(a.iter().map(strip_fns).collect()),
                            x => x.clone(),
                        }
                    }
                    let exp = exp.map(|e| strip_fns(&e));
                    let got = got.map(|g| strip_fns(&g));
                    if exp != got {
                        problems.push(json!({"what":"cli-pipe","emitted":String::from_utf8_lossy(&p1.stdout),"exp":exp,"obs":got}));
                    }
                }
            }
        }
    }
    Portable { orig: orig.into_iter().map(|x| x.0).collect(), problems, emitted: Some(text) }
}

pub const POOLS: &[(&str, &str)] = &[
    ("numbers", "a = 2\nb = 3\nc = false\nl = [1, 2, 3]\nf = y => y + 1"),
    ("negative-fraction", "a = -5\nb = 0.5\nc = true\nl = []\nf = max"),
    ("quotes-backslashes", "a = \"it's\"\nb = 'say \"hi\"'\nc = \"a\\b\"\nl = [\"x\", 'q\"', \"both ' and \" + '\"']\nf = y => y"),
    ("non-finite", "a = inf\nb = -inf\nc = 0/0\nl = [[1], {k: 1}]\nf = (w => (y => y + w))(3)"),
    ("records", "a = {k: 1, \"a b\": 2, \"\": 3, \"0\": 4, \"caf\u{e9}\": 5, \"_\u{1f600}\": 6, \"x\u{301}\": 7, \"k\u{663}\": 8, \"\u{e9}\": 9}\nb = [1, [2, {z: \"s\"}]]\nc = null\nl = {x: [1], y: {z: 2}}\nf = p => q => [p, q]"),
];
pub const RICH_ARGS: &[&str] = &["0", "2", "\"s\"", "[1, 2]", "null"];

pub fn replay(case: &J, cli: Option<&str>, idx: usize, thorough: bool) -> J {
    let mut mism = vec![];
    let mut evals = 0;
    if idx == 0 {
        // once per run: every built-in, called by its name in a body and captured under another name, survives the trip
        let tuples: Vec<Vec<String>> = [vec!["1", "1"], vec!["1", "2"], vec!["2", "1"], vec!["[3, 1, 2]"], vec!["\"ab\""], vec!["[1, 2]", "x => x"], vec!["[2, 1]", "(a, b) => a - b", "0"],
                                        vec!["1"], vec!["4", "2", "3"], vec!["\"a\"", "\"a\""], vec!["[1]", "[1]"], vec!["{a: 1}"], vec!["2.5", "1"]]
            .iter().map(|t| t.iter().map(|x| x.to_string()).collect()).collect();
        // the names as the documentation lists them (not taken from the implementation's own name table)
        const NAMES: &[&str] = &["sqrt", "sin", "cos", "tan", "asin", "acos", "atan", "log", "log10", "exp", "abs", "floor", "ceil", "round", "trunc", "min", "max", "avg", "sum", "prod", "median",
            "percentile", "range", "any", "all", "len", "head", "tail", "slice", "concat", "dot", "unique", "sort", "sort_by", "reverse", "map", "reduce", "filter", "every", "some", "split", "join",
            "replace", "trim", "uppercase", "lowercase", "includes", "format", "typeof", "arity", "keys", "values", "entries", "group_by", "count_by", "flatten", "zip", "chunk", "to_string", "to_number",
            "to_bool", "convert", "ugt", "ult", "ugte", "ulte"];
        // captured and literal whole numbers at and beyond the 64-bit integer range, in every position a value can be written
        for def in ["z = 0 * (3 - 4)\nfn = (x) => [x / z, z, 0 - z, [z], {k: z}]", "fn = (x) => [x / (0 * (3 - 4)), -0, x / -0, -(0), -x]", "big = 2 ^ 64\nfn = (x) => x / big", "big = 0 - 2 ^ 70\nfn = (x) => [x + big, big]", "l = [2 ^ 63, 2 ^ 53, 25!, 1e300, 123456789012345678, 0 - 2 ^ 63]\nfn = (x) => map(l, y => y / x)",
                    "r = {m: 1e19, n: [9223372036854775807, 9223372036854775808, 18446744073709551616]}\nfn = (x) => [r.m / x, r.n]", "fn = (x) => x / 18446744073709551616 + 1e19 / 1e18"] {
            let s = Session::new();
            for line in def.lines() { let _ = s.eval(line); }
            let tuples: Vec<Vec<String>> = ["1", "2 ^ 64", "1e19", "3"].iter().map(|t| vec![t.to_string()]).collect();
            let p = round_trip(&s, "fn", &tuples, None, None);
            evals += 3 * tuples.len() as u64;
            for pr in p.problems { mism.push(json!({"class": "big whole numbers", "src": def.replace('\n', " ; "), "problem": pr})); }
        }
        for n in NAMES {
            for def in [format!("fn = (...xs) => {n}(...xs)"), format!("gn = {n}\nfn = (...xs) => gn(...xs)"), format!("gn = {{k: [{n}]}}\nfn = (...xs) => gn.k[0](...xs)")] {
                let s = Session::new();
                for line in def.lines() { let _ = s.eval(line); }
                let p = round_trip(&s, "fn", &tuples, None, None);
                evals += 3 * tuples.len() as u64;
                for pr in p.problems { mism.push(json!({"class": "built-in by name", "src": def.replace('\n', " ; "), "problem": pr})); }
            }
        }
    }
    if case.get("def").is_some() {
        // core-language definition with the model's expected result
        let s = Session::new();
        let setup: Vec<String> = case["setup"].as_array().unwrap().iter().map(core::render).collect();
        for st in &setup { let _ = s.eval(st); }
        let args: Vec<String> = case["args"].as_array().unwrap().iter().map(core::render).collect();
        let closed = case["closed"] == true;
        let prog1 = format!("{}\noutput fn = f", setup.join("\n"));
        let model = [case["exp"].clone()];
        if closed {
            let p = round_trip(&s, "f", &[args.clone()], Some(&model), cli.map(|c| (c, prog1.as_str())));
            evals += 4;
            for pr in p.problems { mism.push(json!({"class": format!("core def={}", case["def"].as_str().unwrap()), "src": format!("{} ; f({})", setup.join(" ; "), args.join(", ")), "problem": pr})); }
        } else {
            // not closed after capture: only the model's value of the original is claimed
            let (_, p) = observe(&s, "f", &args);
            evals += 1;
            if !same(&case["exp"], &p) { mism.push(json!({"class": format!("core def={}", case["def"].as_str().unwrap()), "src": setup.join(" ; "), "problem": {"what":"model","exp":case["exp"],"obs":p}})); }
        }
    } else {
        // rich body from the chain generator: fn = (x) => BODY under every captured-value pool
        let body = case["full"].as_str().unwrap();
        let pools: Vec<&(&str, &str)> = if thorough { POOLS.iter().collect() } else { vec![&POOLS[idx % POOLS.len()], &POOLS[(idx / 7 + 1) % POOLS.len()]] };
        for (pname, pool) in pools {
            let s = Session::new();
            for line in pool.lines() { let _ = s.eval(line); }
            let def = format!("fn = (x) => ({})", body);
            if !s.eval(&def).is_ok() { continue; }
            let tuples: Vec<Vec<String>> = RICH_ARGS.iter().map(|a| vec![a.to_string()]).collect();
            let prog1 = format!("{}\noutput {}", pool, def);
            let use_cli = if idx % 40 == 0 { cli.map(|c| (c, prog1.as_str())) } else { None };
            let p = round_trip(&s, "fn", &tuples, None, use_cli);
            evals += 3 * tuples.len() as u64;
            for pr in p.problems {
                mism.push(json!({"class": format!("rich pool={}", pname), "src": def, "problem": pr}));
            }
        }
    }
    crate::ev::clear_stats();
    json!({"evals": evals, "mismatches": mism})
}
