//! C06 - data survives output -> JSON -> input, through two real CLI processes.
use crate::mv::{self, Lift};
use crate::rng::Rng;
use crate::vgen::{self, GenCfg};
use serde_json::{Value as J, json};
use std::io::Write;
use std::process::{Command, Stdio};

fn run(cli: &str, args: &[String], stdin: Option<&str>) -> (Option<i32>, String, String) {
    let mut cmd = Command::new("timeout");
    cmd.arg("60").arg(cli);
    for a in args { cmd.arg(a); }
    cmd.stdout(Stdio::piped()).stderr(Stdio::piped());
    cmd.stdin(if stdin.is_some() { Stdio::piped() } else { Stdio::null() });
    let mut child = cmd.spawn().expect("spawn");
    if let Some(d) = stdin { let _ = child.stdin.take().unwrap().write_all(d.as_bytes()); }
    let o = child.wait_with_output().expect("wait");
    (o.status.code(), String::from_utf8_lossy(&o.stdout).to_string(), String::from_utf8_lossy(&o.stderr).to_string())
}

/// the raw text of every top-level member of a compact JSON object, in order
pub fn top_level_members(text: &str) -> Vec<(String, String)> {
    let b: Vec<char> = text.trim().chars().collect();
    let mut out = vec![];
    if b.first() != Some(&'{') { return out; }
    let mut i = 1;
    let read_string = |i: &mut usize| -> String {
        let mut s = String::new();
        *i += 1; // opening quote
        while *i < b.len() && b[*i] != '"' {
            if b[*i] == '\\' { s.push(b[*i]); *i += 1; }
            s.push(b[*i]);
            *i += 1;
        }
        *i += 1;
        s
    };
    while i < b.len() && b[i] != '}' {
        if b[i] == ',' { i += 1; continue; }
        let key = read_string(&mut i);
        i += 1; // colon
        let start = i;
        let mut depth = 0i32;
        while i < b.len() {
            match b[i] {
                '"' => { let _ = read_string(&mut i); continue; }
                '{' | '[' => depth += 1,
                '}' | ']' => { if depth == 0 { break; } depth -= 1; }
                ',' if depth == 0 => break,
                _ => {}
            }
            i += 1;
        }
        out.push((key, b[start..i].iter().collect()));
    }
    out
}

fn norm_numbers(j: &J) -> J {
    match j {
        J::Number(n) => json!({"#": mv::hex(n.as_f64().unwrap_or(f64::NAN))}),
        J::Array(a) => J::Array(a.iter().map(norm_numbers).collect()),
        J::Object(m) => J::Object(m.iter().map(|(k, v)| (k.clone(), norm_numbers(v))).collect()),
        x => x.clone(),
    }
}

/// a JSON document for a model value, in deliberately non-canonical style (spacing, key order as given, 7 / 7.0 / 7e0)
fn json_text(v: &J, style: usize) -> String {
    match v["t"].as_str().unwrap() {
        "num" => {
            let x = mv::num_of(v, Lift::Id);
            if x == 0.0 && x.is_sign_negative() { "-0.0".into() }
            else { match style % 3 { 0 => format!("{}", x as i64), 1 => format!("{:.1}", x), _ => format!("{}e0", x as i64) } }
        }
        "str" => serde_json::to_string(&mv::cs_to_string(&v["cs"])).unwrap(),
        "bool" => v["b"].to_string(),
        "null" => "null".into(),
        "list" => format!("[ {} ]", v["xs"].as_array().unwrap().iter().enumerate().map(|(i, x)| json_text(x, style + i)).collect::<Vec<_>>().join(" , ")),
        "rec" => format!("{{{}}}", v["ks"].as_array().unwrap().iter().zip(v["vs"].as_array().unwrap().iter()).enumerate()
            .map(|(i, (k, x))| format!("{} : {}", serde_json::to_string(&mv::cs_to_string(k)).unwrap(), json_text(x, style + i))).collect::<Vec<_>>().join(",")),
        t => panic!("json_text {t}"),
    }
}

/// one batch of values through `blots prog1 | blots prog2`
fn batch_values(cli: &str, items: &[(usize, String, bool)]) -> Vec<(usize, Vec<String>)> {
    let mut problems = vec![];
    let prog1: String = items.iter().map(|(i, src, _)| format!("output v{} = {}", i, src)).collect::<Vec<_>>().join("\n");
    // programs go through files: they may contain characters (NUL) that cannot be passed as an argument
    static SEQ: std::sync::atomic::AtomicUsize = std::sync::atomic::AtomicUsize::new(0);
    let dir = std::env::temp_dir().join(format!("bvh_c06_{}_{}", std::process::id(), SEQ.fetch_add(1, std::sync::atomic::Ordering::SeqCst)));
    let _ = std::fs::create_dir_all(&dir);
    let f1 = dir.join("p1.blots");
    let f2 = dir.join("p2.blots");
    std::fs::write(&f1, &prog1).unwrap();
    // every other batch travels through `-o FILE`, the file already holding an older, longer result
    let seq = SEQ.load(std::sync::atomic::Ordering::SeqCst);
    let (c1, out1, err1) = if seq % 2 == 0 {
        let fo = dir.join("out.json");
        std::fs::write(&fo, format!("{{\"stale\": \"{}\"}}\n", "x".repeat(prog1.len() * 4 + 4000))).unwrap();
        let (c, so, se) = run(cli, &["-o".to_string(), fo.display().to_string(), f1.display().to_string()], None);
        (c, std::fs::read_to_string(&fo).unwrap_or_default(), format!("{se}{so}"))
    } else {
        run(cli, &[f1.display().to_string()], None)
    };
    if c1 != Some(0) {
        for (i, _, _) in items { problems.push((*i, vec![format!("first program failed (exit {:?}): {}", c1, err1.chars().chain(out1.chars()).take(200).collect::<String>())])); }
        return problems;
    }
    let prog2: String = items.iter().map(|(i, src, _)| format!("output e{} = inputs.v{} .== {}\noutput v{} = inputs.v{}", i, i, src, i, i)).collect::<Vec<_>>().join("\n");
    std::fs::write(&f2, &prog2).unwrap();
    let (c2, out2, err2) = run(cli, &[f2.display().to_string()], Some(&out1));
    let _ = std::fs::remove_dir_all(&dir);
    if c2 != Some(0) {
        for (i, _, _) in items { problems.push((*i, vec![format!("second program failed (exit {:?}): {}", c2, err2.chars().chain(out2.chars()).take(200).collect::<String>())])); }
        return problems;
    }
    let m1: std::collections::HashMap<String, String> = top_level_members(&out1).into_iter().collect();
    let m2: std::collections::HashMap<String, String> = top_level_members(&out2).into_iter().collect();
    for (i, src, reserved) in items {
        if *reserved { continue; }
        let mut p = vec![];
        if m2.get(&format!("e{i}")).map(|s| s.as_str()) != Some("true") { p.push(format!("read back value is not .== the original: {}", src)); }
        let (a, b) = (m1.get(&format!("v{i}")), m2.get(&format!("v{i}")));
        if a.is_none() || a != b { p.push(format!("JSON written {:?}, after input and output again {:?}", a, b)); }
        if !p.is_empty() { problems.push((*i, p)); }
    }
    problems
}

fn doc_case(cli: &str, idx: usize, v: &J) -> Vec<String> {
    let doc = json_text(v, idx);
    let input = format!("{{\"x\": {}}}", doc);
    let (c, out, err) = run(cli, &["-i".into(), input.clone(), "output x = inputs.x".into()], None);
    if c != Some(0) { return vec![format!("exit {:?} for input {}: {}", c, input, err.chars().take(160).collect::<String>())]; }
    let want: J = match serde_json::from_str(&doc) { Ok(j) => j, Err(e) => return vec![format!("harness JSON {doc}: {e}")] };
    let got: J = match serde_json::from_str::<J>(&out) { Ok(j) => j["x"].clone(), Err(e) => return vec![format!("output is not JSON: {e}: {out}")] };
    if norm_numbers(&want) != norm_numbers(&got) { vec![format!("input document {} came back as {}", doc, got)] } else { vec![] }
}

pub fn replay_all(cases: &[J], cli: &str) -> Vec<J> {
    let mut results: Vec<J> = cases.iter().map(|_| json!({"evals": 1, "mismatches": []})).collect();
    let values: Vec<(usize, String, bool)> = cases.iter().enumerate().filter(|(_, c)| c["fam"] == "value")
        .map(|(i, c)| (i, mv::src(&c["v"], Lift::Id), c["reserved"] == true)).collect();
    let docs: Vec<(usize, &J, bool)> = cases.iter().enumerate().filter(|(_, c)| c["fam"] == "json").map(|(i, c)| (i, &c["v"], c["reserved"] == true)).collect();
    let mut found: Vec<(usize, Vec<String>)> = vec![];
    std::thread::scope(|sc| {
        let mut hs = vec![];
        for part in values.chunks(40) { hs.push(sc.spawn(move || batch_values(cli, part))); }
        let mut hd = vec![];
        for part in docs.chunks(50) {
            hd.push(sc.spawn(move || part.iter().filter(|d| !d.2).map(|(i, v, _)| (*i, doc_case(cli, *i, v))).filter(|x| !x.1.is_empty()).collect::<Vec<_>>()));
        }
        for h in hs { found.extend(h.join().unwrap()); }
        for h in hd { found.extend(h.join().unwrap()); }
    });
    for (i, p) in found {
        let src = if cases[i]["fam"] == "value" { mv::src(&cases[i]["v"], Lift::Id) } else { json_text(&cases[i]["v"], i) };
        results[i] = json!({"evals": 1, "mismatches": [{"src": format!("{} {}", cases[i]["fam"].as_str().unwrap(), src), "obs": p}]});
    }
    results
}

// ---------------------------------------------------------------- impl -> spec: random deep values with arbitrary doubles and Unicode
fn rand_string(r: &mut Rng) -> String {
    let n = r.below(6);
    (0..n).map(|_| match r.below(10) {
        0 => '"', 1 => '\'', 2 => '\\', 3 => char::from_u32(r.below(32) as u32).unwrap_or(' '), 4 => '\u{7f}',
        5 => char::from_u32(0x80 + r.below(0x700) as u32).unwrap_or('é'),
        6 => char::from_u32(0x800 + r.below(0xD000 - 0x800) as u32).unwrap_or('€'),
        7 => char::from_u32(0x10000 + r.below(0xFFFFF) as u32).unwrap_or('😀'),
        8 => *r.pick(&['/', '\u{2028}', '\u{feff}', '\u{301}', '\u{0}', '\n', '\r', '\t']),
        _ => (b'a' + r.below(26) as u8) as char,
    }).collect()
}

fn rand_value_src(r: &mut Rng, depth: u32) -> String {
    match r.below(if depth >= 5 { 5 } else { 8 }) {
        0 | 1 => mv::num_src(crate::c16::sample_double(r)),
        2 => mv::str_src(&rand_string(r)),
        3 => (*r.pick(&["true", "false", "null"])).to_string(),
        4 => mv::num_src(r.range(-5, 5) as f64),
        5 | 6 => format!("[{}]", (0..r.below(4)).map(|_| rand_value_src(r, depth + 1)).collect::<Vec<_>>().join(", ")),
        _ => {
            let mut keys: Vec<String> = vec![];
            let mut parts = vec![];
            for _ in 0..r.below(4) {
                let k = match r.below(6) { 0 => String::new(), 1 => r.range(0, 20).to_string(), 2 => "a".into(), 3 => "A".into(), _ => rand_string(r) };
                if keys.contains(&k) || k == "__blots_function" { continue; }
                keys.push(k.clone());
                parts.push(format!("[{}]: {}", mv::str_src(&k), rand_value_src(r, depth + 1)));
            }
            format!("{{{}}}", parts.join(", "))
        }
    }
}

pub fn record(seed: u64, n: usize, cli: &str) -> Vec<J> {
    let mut r = Rng::new(seed);
    let _ = (vgen::fin(0), GenCfg::default());
    let mut items: Vec<(usize, String, bool)> = (0..n).map(|i| (i, rand_value_src(&mut r, 0), false)).collect();
    // directed: text that looks like a comment inside strings and keys (JSON has no comments; every character is data) ...
    for t in ["a /* b */ c", "/*", "*/", " // x", "http://x //y", "a\n// b\nc", "/* never closed", "# x", "<!-- x -->", "\t//", "*/ /*"] {
        items.push((items.len(), mv::str_src(t), false));
        items.push((items.len(), format!("{{[{}]: 1, k: {}}}", mv::str_src(t), mv::str_src(t)), false));
    }
    // strings that spell a value of another type: every one of them is a string and stays one
    for t in ["Infinity", "-Infinity", "NaN", "inf", "null", "true", "false", "1", "1.0", "1e5", "-0", "[]", "{}", "undefined", "x => x", "\u{feff}", "a\u{feff}b\u{feff}"] {
        items.push((items.len(), mv::str_src(t), false));
        items.push((items.len(), format!("[{}, {{[{}]: {}}}]", mv::str_src(t), mv::str_src(t), mv::str_src(t)), false));
    }
    // one value reached twice (and three times) inside an output: sharing is not a cycle
    for t in ["(do {\n  a = [1, {k: \"v\"}]\n  return {p: a, q: a, r: [a, [a]]}\n})", "(do {\n  e = []\n  o = {}\n  return [e, e, o, o, {x: e, y: o}]\n})", "(s => [s, s, {s}])(\"twice\")", "(do {\n  r = {n: [1, 2]}\n  return [r, r.n, r.n, r]\n})"] {
        items.push((items.len(), t.to_string(), false));
    }
    items.push((items.len(), "[\"/*\", \"k\", \"*/\", {\"/* a\": 1, \"b */\": 2}, \" //\", 3]".to_string(), false));
    // ... and long strings of 2-, 3- and 4-byte characters at every byte alignment: a reader that decodes the piped
    // document piecewise splits a character wherever a piece ends
    let long_from = items.len();
    for (ch, count) in [('\u{e9}', 9000usize), ('\u{20ac}', 6000), ('\u{1f600}', 4500)] {
        for k in 0..ch.len_utf8() {
            items.push((items.len(), mv::str_src(&format!("{}{}", "a".repeat(k), ch.to_string().repeat(count))), false));
        }
    }
    let mut out = vec![];
    let mut bad: std::collections::HashMap<usize, Vec<String>> = std::collections::HashMap::new();
    std::thread::scope(|sc| {
        let mut hs: Vec<_> = items[..long_from].chunks(25).map(|part| sc.spawn(move || batch_values(cli, part))).collect();
        hs.extend(items[long_from..].chunks(1).map(|part| sc.spawn(move || batch_values(cli, part))));
        for h in hs { for (i, p) in h.join().unwrap() { bad.insert(i, p); } }
    });
    for (i, src, _) in &items {
        let p = bad.get(i).cloned().unwrap_or_default();
        out.push(json!({"ev":"roundtrip","src":src,"equal_after_input": !p.iter().any(|m| m.contains(".==") || m.contains("failed")),
                        "json_identical": !p.iter().any(|m| m.contains("JSON written") || m.contains("failed")), "problems": p}));
    }
    out
}
