//! The core-language ASTs of spec/BlotsEval.tla: rendering to (fully parenthesised) Blots source.
use serde_json::Value as J;

fn is_leaf(e: &J) -> bool {
    matches!(e["k"].as_str().unwrap(), "num" | "id" | "list" | "do" | "lit" | "rec") && !(e["k"] == "num" && e["v"].as_i64().unwrap_or(0) < 0)
}

pub fn wrap(e: &J) -> String {
    if is_leaf(e) { render(e) } else { format!("({})", render(e)) }
}

pub fn bin_sym(o: &str) -> &'static str {
    match o {
        "add" => "+", "sub" => "-", "mul" => "*", "div" => "/", "mod" => "%", "pow" => "^",
        "eq" => "==", "ne" => "!=", "lt" => "<", "le" => "<=", "gt" => ">", "ge" => ">=",
        "and" => "&&", "nand" => "and", "or" => "||", "nor" => "or", "coalesce" => "??",
        "via" => "via", "where" => "where", "into" => "into",
        _ => panic!("core bin {o}"),
    }
}

/// a record key: bare when it is a plain name, quoted otherwise
fn key_src(k: &str) -> String {
    let plain = !k.is_empty() && k.chars().all(|c| c.is_ascii_alphanumeric() || c == '_') && !k.chars().next().unwrap().is_ascii_digit();
    if plain { k.to_string() } else { crate::mv::str_src(k) }
}

pub fn param(p: &J) -> String {
    let n = p["n"].as_str().unwrap();
    match p["m"].as_str().unwrap() { "req" => n.to_string(), "opt" => format!("{n}?"), "rest" => format!("...{n}"), m => panic!("param mode {m}") }
}

pub fn render(e: &J) -> String {
    match e["k"].as_str().unwrap() {
        "num" => e["v"].as_i64().unwrap().to_string(),
        "id" => e["n"].as_str().unwrap().to_string(),
        "bin" => format!("{} {} {}", wrap(&e["l"]), bin_sym(e["o"].as_str().unwrap()), wrap(&e["r"])),
        "list" => format!("[{}]", e["xs"].as_array().unwrap().iter().map(render).collect::<Vec<_>>().join(", ")),
        "lam" => format!("({}) => {}", e["ps"].as_array().unwrap().iter().map(param).collect::<Vec<_>>().join(", "), wrap(&e["b"])),
        "call" => format!("{}({})", wrap(&e["f"]), e["args"].as_array().unwrap().iter().map(render).collect::<Vec<_>>().join(", ")),
        "do" => {
            let mut s = String::from("do {\n");
            for st in e["ss"].as_array().unwrap() { s.push_str("  "); s.push_str(&render(st)); s.push('\n'); }
            s.push_str("  return ");
            s.push_str(&render(&e["r"]));
            s.push_str("\n}");
            s
        }
        "asg" => format!("{} = {}", e["n"].as_str().unwrap(), render(&e["e"])),
        "if" => format!("if {} then {} else {}", wrap(&e["c"]), wrap(&e["t"]), wrap(&e["e"])),
        "idx" => format!("{}[{}]", wrap(&e["e"]), render(&e["i"])),
        "lit" => crate::mv::src(&e["v"], crate::mv::Lift::Id),
        "un" => format!("{}{}", if e["o"] == "neg" { "-" } else { "!" }, wrap(&e["e"])),
        "dot" => format!("{}.{}", wrap(&e["e"]), crate::mv::cs_to_string(&e["f"])),
        "spread" => format!("...{}", wrap(&e["e"])),
        "rec" => format!("{{{}}}", e["es"].as_array().unwrap().iter().map(|x| match x["m"].as_str().unwrap() {
            "static" => format!("{}: {}", key_src(&crate::mv::cs_to_string(&x["key"])), render(&x["e"])),
            "short" => x["n"].as_str().unwrap().to_string(),
            "spread" => format!("...{}", wrap(&x["e"])),
            "dyn" => format!("[{}]: {}", render(&x["ke"]), render(&x["e"])),
            m => panic!("core record entry {m}"),
        }).collect::<Vec<_>>().join(", ")),
        k => panic!("core kind {k}"),
    }
}

/// a statement [e, out]: `output n`, `output n = e` or a plain expression statement
pub fn render_stmt(st: &J) -> String {
    if st["out"].as_str().unwrap_or("") != "" { format!("output {}", render(&st["e"])) } else { render(&st["e"]) }
}
