//! Syntax binding: token rendering, the harness' own fully parenthesising printer for model trees,
//! parsing with the real parser and projecting the real AST to the model's tree vocabulary.
use blots_core::ast::{BinaryOp, Expr, PostfixOp, SpannedExpr, UnaryOp};
use blots_core::expressions::{pairs_to_expr, pairs_to_expr_with_comments};
use blots_core::parser::{Rule, get_pairs};
use serde_json::{Value as J, json};
use std::panic::{AssertUnwindSafe, catch_unwind};

pub const BIN: &[(&str, &str, bool)] = &[
    ("add", "+", false), ("sub", "-", false), ("mul", "*", false), ("div", "/", false), ("mod", "%", false),
    ("pow", "^", false), ("eq", "==", false), ("ne", "!=", false), ("lt", "<", false), ("le", "<=", false),
    ("gt", ">", false), ("ge", ">=", false), ("deq", ".==", false), ("dne", ".!=", false), ("dlt", ".<", false),
    ("dle", ".<=", false), ("dgt", ".>", false), ("dge", ".>=", false), ("and", "&&", false), ("nand", "and", true),
    ("or", "||", false), ("nor", "or", true), ("via", "via", true), ("into", "into", true), ("where", "where", true),
    ("coalesce", "??", false),
];

pub fn bin_sym(o: &str) -> &'static str {
    BIN.iter().find(|b| b.0 == o).map(|b| b.1).unwrap_or_else(|| panic!("binop {o}"))
}

pub fn binop_name(op: &BinaryOp) -> &'static str {
    match op {
        BinaryOp::Add => "add", BinaryOp::Subtract => "sub", BinaryOp::Multiply => "mul", BinaryOp::Divide => "div",
        BinaryOp::Modulo => "mod", BinaryOp::Power => "pow", BinaryOp::Equal => "eq", BinaryOp::NotEqual => "ne",
        BinaryOp::Less => "lt", BinaryOp::LessEq => "le", BinaryOp::Greater => "gt", BinaryOp::GreaterEq => "ge",
        BinaryOp::DotEqual => "deq", BinaryOp::DotNotEqual => "dne", BinaryOp::DotLess => "dlt", BinaryOp::DotLessEq => "dle",
        BinaryOp::DotGreater => "dgt", BinaryOp::DotGreaterEq => "dge", BinaryOp::And => "and", BinaryOp::NaturalAnd => "nand",
        BinaryOp::Or => "or", BinaryOp::NaturalOr => "nor", BinaryOp::Via => "via", BinaryOp::Into => "into",
        BinaryOp::Where => "where", BinaryOp::Coalesce => "coalesce",
    }
}

/// Token sequence (spec/Syntax.tla vocabulary) to source text, canonical spacing.
pub fn render_tokens(toks: &J) -> String {
    let mut s = String::new();
    for t in toks.as_array().unwrap() {
        let v = t["v"].as_str().unwrap_or("");
        match t["t"].as_str().unwrap() {
            "id" => s.push_str(v),
            "op" => {
                s.push(' ');
                s.push_str(bin_sym(v));
                s.push(' ');
            }
            "pre" => s.push_str(match v { "neg" => "-", "not" => "!", "notw" => "not ", _ => panic!("pre {v}") }),
            "post" => s.push_str(match v { "fact" => "!", "call" => "(x)", "idx" => "[0]", "dot" => ".f", _ => panic!("post {v}") }),
            "lp" => s.push('('),
            "rp" => s.push(')'),
            k => panic!("token {k}"),
        }
    }
    s
}

/// The real AST of an expression in the model's tree vocabulary (only the fragment Syntax.tla has).
pub fn tree_of(e: &SpannedExpr) -> J {
    match &e.node {
        Expr::Identifier(n) => json!({"k":"id","n":n}),
        Expr::BuiltIn(b) => json!({"k":"id","n":b.name()}),
        Expr::BinaryOp { op, left, right } => json!({"k":"bin","o":binop_name(op),"l":tree_of(left),"r":tree_of(right)}),
        Expr::UnaryOp { op, expr } => json!({"k":"un","o": match op { UnaryOp::Negate => "neg", UnaryOp::Not => "not", UnaryOp::Invert => "invert" },"e":tree_of(expr)}),
        Expr::PostfixOp { op: PostfixOp::Factorial, expr } => json!({"k":"post","o":"fact","e":tree_of(expr)}),
        Expr::Call { func, args } if args.len() == 1 && matches!(&args[0].node, Expr::Identifier(n) if n == "x") => {
            json!({"k":"post","o":"call","e":tree_of(func)})
        }
        Expr::Access { expr, index } if matches!(index.node, Expr::Number(n) if n == 0.0) => {
            json!({"k":"post","o":"idx","e":tree_of(expr)})
        }
        Expr::DotAccess { expr, field } if field == "f" => json!({"k":"post","o":"dot","e":tree_of(expr)}),
        other => json!({"k":"other","dbg":format!("{:?}", other).chars().take(80).collect::<String>()}),
    }
}

/// notw (the word spelling of not) and not (!) are one AST operator
pub fn normalise_tree(t: &J) -> J {
    match t {
        J::Object(m) => {
            let mut o = serde_json::Map::new();
            for (k, v) in m {
                if k == "semi" { continue; } // how a do-block was written (`;` or line breaks) is not part of the tree
                if k == "o" && v == "notw" { o.insert(k.clone(), json!("not")); } else { o.insert(k.clone(), normalise_tree(v)); }
            }
            J::Object(o)
        }
        J::Array(a) => J::Array(a.iter().map(normalise_tree).collect()),
        x => x.clone(),
    }
}

#[derive(Debug, Clone, PartialEq)]
pub enum Stmt {
    Expr(SpannedExpr),
    Output(SpannedExpr),
}

/// Parse a whole program with the real parser into statements (comments dropped).
pub fn parse_program(src: &str, with_comments: bool) -> Result<Vec<Stmt>, String> {
    let r = catch_unwind(AssertUnwindSafe(|| -> Result<Vec<Stmt>, String> {
        let pairs = get_pairs(src).map_err(|e| format!("parse: {}", e.to_string().replace('\n', " | ")))?;
        let mut out = vec![];
        for pair in pairs {
            if pair.as_rule() != Rule::statement { continue; }
            if let Some(inner) = pair.into_inner().next() {
                let conv = |p| if with_comments { pairs_to_expr_with_comments(p) } else { pairs_to_expr(p) };
                match inner.as_rule() {
                    Rule::expression => out.push(Stmt::Expr(conv(inner.into_inner()).map_err(|e| format!("ast: {e}"))?)),
                    Rule::output_declaration => out.push(Stmt::Output(conv(inner.into_inner()).map_err(|e| format!("ast: {e}"))?)),
                    _ => {}
                }
            }
        }
        Ok(out)
    }));
    match r {
        Ok(x) => x,
        Err(p) => Err(format!("panic: {}", crate::ev::panic_msg(p))),
    }
}

pub fn parse_single_expr(src: &str) -> Result<SpannedExpr, String> {
    let mut v = parse_program(src, false)?;
    if v.len() != 1 { return Err(format!("expected one statement, got {}", v.len())); }
    match v.pop().unwrap() { Stmt::Expr(e) => Ok(e), Stmt::Output(_) => Err("output statement".into()) }
}

pub fn deco(d: &str) -> &'static str {
    match d { "" => "", "s" => " ", "ss" => "  ", "n" => "\n", "c" => " // c\n", "sn" => " \n ", _ => panic!("deco {d}") }
}

// ---------------------------------------------------------------- rich trees (spec/SyntaxRich.tla)
use blots_core::ast::{RecordEntry, RecordKey};
use blots_core::values::LambdaArg;

pub fn rich_of(e: &SpannedExpr) -> J {
    match &e.node {
        Expr::Number(v) => {
            if v.fract() == 0.0 && v.abs() < 2e9 { json!({"k":"num","v": *v as i64}) } else { json!({"k":"num","bits": crate::mv::hex(*v)}) }
        }
        Expr::String(s) => json!({"k":"str","s":s,"dq": s.contains('"')}),
        Expr::Bool(b) => json!({"k":"bool","b":b}),
        Expr::Null => json!({"k":"null"}),
        Expr::Identifier(n) => json!({"k":"id","n":n}),
        Expr::BuiltIn(b) => json!({"k":"id","n":b.name()}),
        Expr::InputReference(n) => json!({"k":"inref","n":n}),
        Expr::List(xs) => json!({"k":"list","xs": xs.iter().map(|c| rich_of(&c.node)).collect::<Vec<_>>()}),
        Expr::Record(es) => json!({"k":"rec","es": es.iter().map(|c| rich_entry(&c.node)).collect::<Vec<_>>()}),
        Expr::Lambda { args, body } => json!({"k":"lam","ps": args.iter().map(|a| match a {
            LambdaArg::Required(n) => json!({"n":n,"m":"req"}),
            LambdaArg::Optional(n) => json!({"n":n,"m":"opt"}),
            LambdaArg::Rest(n) => json!({"n":n,"m":"rest"}),
        }).collect::<Vec<_>>(), "b": rich_of(body)}),
        Expr::Conditional { condition, then_expr, else_expr } => json!({"k":"if","c":rich_of(condition),"t":rich_of(then_expr),"e":rich_of(else_expr)}),
        Expr::DoBlock { statements, return_expr } => json!({"k":"do","ss": statements.iter().map(|c| rich_of(&c.node)).collect::<Vec<_>>(),"r": rich_of(&return_expr.node)}),
        Expr::Assignment { ident, value } => json!({"k":"asg","n":ident,"e":rich_of(value)}),
        Expr::Output { expr } => json!({"k":"output","e":rich_of(expr)}),
        Expr::Call { func, args } => json!({"k":"call","f":rich_of(func),"args": args.iter().map(rich_of).collect::<Vec<_>>()}),
        Expr::Access { expr, index } => json!({"k":"idx","e":rich_of(expr),"i":rich_of(index)}),
        Expr::DotAccess { expr, field } => json!({"k":"dot","e":rich_of(expr),"f":field}),
        Expr::BinaryOp { op, left, right } => json!({"k":"bin","o":binop_name(op),"l":rich_of(left),"r":rich_of(right)}),
        Expr::UnaryOp { op, expr } => json!({"k":"un","o": match op { UnaryOp::Negate => "neg", UnaryOp::Not => "not", UnaryOp::Invert => "invert" },"e":rich_of(expr)}),
        Expr::PostfixOp { op: PostfixOp::Factorial, expr } => json!({"k":"fact","e":rich_of(expr)}),
        Expr::Spread(e) => json!({"k":"spread","e":rich_of(e)}),
    }
}

fn rich_entry(e: &RecordEntry) -> J {
    match &e.key {
        RecordKey::Static(k) => json!({"ek":"static","key":k,"v":rich_of(&e.value)}),
        RecordKey::Dynamic(k) => json!({"ek":"dyn","ke":rich_of(k),"v":rich_of(&e.value)}),
        RecordKey::Shorthand(n) => json!({"ek":"short","n":n}),
        // the parser stores `...e` as Spread(e) under the key
        RecordKey::Spread(s) => match &s.node { Expr::Spread(inner) => json!({"ek":"spread","e":rich_of(inner)}), _ => json!({"ek":"spread","e":rich_of(s)}) },
    }
}
