//! No-op stand-in for #[wasm_bindgen]: the attribute leaves the item unchanged so that the
//! WASM driver's Rust functions can be compiled and called natively by the harness.
use proc_macro::TokenStream;

#[proc_macro_attribute]
pub fn wasm_bindgen(_attr: TokenStream, item: TokenStream) -> TokenStream {
    item
}
