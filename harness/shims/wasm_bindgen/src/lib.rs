//! Native stand-in for the part of wasm-bindgen that blots-wasm/src/lib.rs uses.
//! JsValue is a serde_json::Value; JsError carries a message.
pub type JsValue = serde_json::Value;

#[derive(Debug, Clone)]
pub struct JsError {
    pub message: String,
}

impl JsError {
    pub fn new(s: &str) -> Self {
        JsError { message: s.to_string() }
    }
}

impl<E: std::error::Error> From<E> for JsError {
    fn from(e: E) -> Self {
        JsError { message: e.to_string() }
    }
}

pub mod prelude {
    pub use super::{JsError, JsValue};
    pub use wasm_bindgen_macro::wasm_bindgen;
}
