//! Native stand-in for serde-wasm-bindgen: (de)serialises through serde_json::Value.
use serde::de::DeserializeOwned;
use serde::Serialize;
use serde_json::value::Serializer as JS;

#[derive(Debug)]
pub struct Error(pub String);

impl std::fmt::Display for Error {
    fn fmt(&self, f: &mut std::fmt::Formatter<'_>) -> std::fmt::Result {
        write!(f, "{}", self.0)
    }
}
impl std::error::Error for Error {}

pub fn from_value<T: DeserializeOwned>(v: serde_json::Value) -> Result<T, Error> {
    serde_json::from_value(v).map_err(|e| Error(e.to_string()))
}

/// `Serializer::json_compatible()`; `&Serializer` implements `serde::Serializer` like the real crate.
pub struct Serializer;

impl Serializer {
    pub fn json_compatible() -> Self {
        Serializer
    }
    pub fn new() -> Self {
        Serializer
    }
}

type R<T> = Result<T, serde_json::Error>;

impl<'a> serde::Serializer for &'a Serializer {
    type Ok = serde_json::Value;
    type Error = serde_json::Error;
    type SerializeSeq = <JS as serde::Serializer>::SerializeSeq;
    type SerializeTuple = <JS as serde::Serializer>::SerializeTuple;
    type SerializeTupleStruct = <JS as serde::Serializer>::SerializeTupleStruct;
    type SerializeTupleVariant = <JS as serde::Serializer>::SerializeTupleVariant;
    type SerializeMap = <JS as serde::Serializer>::SerializeMap;
    type SerializeStruct = <JS as serde::Serializer>::SerializeStruct;
    type SerializeStructVariant = <JS as serde::Serializer>::SerializeStructVariant;

    fn serialize_bool(self, v: bool) -> R<Self::Ok> { JS.serialize_bool(v) }
    fn serialize_i8(self, v: i8) -> R<Self::Ok> { JS.serialize_i8(v) }
    fn serialize_i16(self, v: i16) -> R<Self::Ok> { JS.serialize_i16(v) }
    fn serialize_i32(self, v: i32) -> R<Self::Ok> { JS.serialize_i32(v) }
    fn serialize_i64(self, v: i64) -> R<Self::Ok> { JS.serialize_i64(v) }
    fn serialize_u8(self, v: u8) -> R<Self::Ok> { JS.serialize_u8(v) }
    fn serialize_u16(self, v: u16) -> R<Self::Ok> { JS.serialize_u16(v) }
    fn serialize_u32(self, v: u32) -> R<Self::Ok> { JS.serialize_u32(v) }
    fn serialize_u64(self, v: u64) -> R<Self::Ok> { JS.serialize_u64(v) }
    fn serialize_f32(self, v: f32) -> R<Self::Ok> { JS.serialize_f32(v) }
    fn serialize_f64(self, v: f64) -> R<Self::Ok> { JS.serialize_f64(v) }
    fn serialize_char(self, v: char) -> R<Self::Ok> { JS.serialize_char(v) }
    fn serialize_str(self, v: &str) -> R<Self::Ok> { JS.serialize_str(v) }
    fn serialize_bytes(self, v: &[u8]) -> R<Self::Ok> { JS.serialize_bytes(v) }
    fn serialize_none(self) -> R<Self::Ok> { JS.serialize_none() }
    fn serialize_some<T: ?Sized + Serialize>(self, v: &T) -> R<Self::Ok> { JS.serialize_some(v) }
    fn serialize_unit(self) -> R<Self::Ok> { JS.serialize_unit() }
    fn serialize_unit_struct(self, n: &'static str) -> R<Self::Ok> { JS.serialize_unit_struct(n) }
    fn serialize_unit_variant(self, n: &'static str, i: u32, v: &'static str) -> R<Self::Ok> {
        JS.serialize_unit_variant(n, i, v)
    }
    fn serialize_newtype_struct<T: ?Sized + Serialize>(self, n: &'static str, v: &T) -> R<Self::Ok> {
        JS.serialize_newtype_struct(n, v)
    }
    fn serialize_newtype_variant<T: ?Sized + Serialize>(
        self, n: &'static str, i: u32, var: &'static str, v: &T,
    ) -> R<Self::Ok> {
        JS.serialize_newtype_variant(n, i, var, v)
    }
    fn serialize_seq(self, len: Option<usize>) -> R<Self::SerializeSeq> { JS.serialize_seq(len) }
    fn serialize_tuple(self, len: usize) -> R<Self::SerializeTuple> { JS.serialize_tuple(len) }
    fn serialize_tuple_struct(self, n: &'static str, len: usize) -> R<Self::SerializeTupleStruct> {
        JS.serialize_tuple_struct(n, len)
    }
    fn serialize_tuple_variant(
        self, n: &'static str, i: u32, v: &'static str, len: usize,
    ) -> R<Self::SerializeTupleVariant> {
        JS.serialize_tuple_variant(n, i, v, len)
    }
    fn serialize_map(self, len: Option<usize>) -> R<Self::SerializeMap> { JS.serialize_map(len) }
    fn serialize_struct(self, n: &'static str, len: usize) -> R<Self::SerializeStruct> {
        JS.serialize_struct(n, len)
    }
    fn serialize_struct_variant(
        self, n: &'static str, i: u32, v: &'static str, len: usize,
    ) -> R<Self::SerializeStructVariant> {
        JS.serialize_struct_variant(n, i, v, len)
    }
}
