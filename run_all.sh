#!/bin/sh
# runs every check of a tier and prints a one-line summary per property
tier=${1:-quick}
for c in C01 C02 C03 C04 C05 C06 C07 C08 C09 C10 C11 C12 C13 C14 C15 C16 C17 C18 C19 C20; do
  s=$(date +%s)
  out=$(./check $c --tier $tier 2>&1); rc=$?
  e=$(date +%s)
  echo "$c rc=$rc $((e-s))s violations=$(echo "$out" | grep -c '^VIOLATION') known=$(echo "$out" | grep -c '^KNOWN-FINDING') $(echo "$out" | grep TOOL-ERROR | head -1 | cut -c1-150)"
done
