"""Shared machinery of the /verif checks: building, running TLC, running the harness,
known findings, evidence.  Exit codes: 0 held, 1 VIOLATION, 2 tool error."""
import json, os, re, subprocess, sys, time, hashlib, shutil

VERIF = os.path.dirname(os.path.dirname(os.path.abspath(__file__)))
REPO = os.environ.get("BLOTS_REPO", "/repo")
BUILD = os.path.join(VERIF, "build")
SPEC = os.path.join(VERIF, "spec")
EVID = os.path.join(VERIF, "evidence")
HARNESS = os.path.join(BUILD, "harness-target", "release", "bvh")
CLI = os.path.join(BUILD, "cli-target", "release", "blots")
TLA_CP = "/opt/veriftools/tla/tla2tools.jar:/opt/veriftools/tla/CommunityModules-deps.jar"


class ToolError(Exception):
    pass


def log(*a):
    print(*a, file=sys.stderr, flush=True)


def env_offline():
    e = dict(os.environ)
    e.update({"CARGO_NET_OFFLINE": "true"})
    return e


def run(cmd, timeout=None, cwd=None, env=None, stdin=None, check=False):
    p = subprocess.run(cmd, cwd=cwd, env=env or env_offline(), stdin=stdin or subprocess.DEVNULL,
                       stdout=subprocess.PIPE, stderr=subprocess.PIPE, timeout=timeout)
    if check and p.returncode != 0:
        raise ToolError("command failed (%d): %s\n%s\n%s" % (
            p.returncode, " ".join(cmd), p.stdout.decode(errors="replace")[-4000:],
            p.stderr.decode(errors="replace")[-4000:]))
    return p


_built = {}


def build_harness():
    """Rebuild the harness (and with it blots-core from /repo's working tree, hooks on)."""
    if _built.get("harness"):
        return
    t0 = time.time()
    lock_src = os.path.join(REPO, "Cargo.lock")
    lock_dst = os.path.join(VERIF, "harness", "Cargo.lock")
    if not os.path.exists(lock_dst):
        shutil.copy(lock_src, lock_dst)
    p = run(["cargo", "build", "--release", "--offline"], cwd=os.path.join(VERIF, "harness"), timeout=1800)
    if p.returncode != 0:
        raise ToolError("harness build failed:\n" + p.stderr.decode(errors="replace")[-6000:])
    _built["harness"] = True
    log("[build] harness %.1fs" % (time.time() - t0))


def build_cli():
    """Rebuild the release CLI from /repo's working tree (the shipped configuration: hooks off)."""
    if _built.get("cli"):
        return
    t0 = time.time()
    p = run(["cargo", "build", "--release", "--offline", "-p", "blots", "--target-dir",
             os.path.join(BUILD, "cli-target")], cwd=REPO, timeout=1800)
    if p.returncode != 0:
        raise ToolError("CLI build failed:\n" + p.stderr.decode(errors="replace")[-6000:])
    _built["cli"] = True
    log("[build] cli %.1fs" % (time.time() - t0))


# --------------------------------------------------------------------------- TLC

_case_re = re.compile(r'^<<"([A-Z_]+)", "(.*)">>$')


def _unescape(s):
    out = []
    i = 0
    while i < len(s):
        c = s[i]
        if c == "\\" and i + 1 < len(s):
            n = s[i + 1]
            if n == "n":
                out.append("\n")
            elif n == "t":
                out.append("\t")
            else:
                out.append(n)
            i += 2
        else:
            out.append(c)
            i += 1
    return "".join(out)


class TlcResult:
    def __init__(self):
        self.generated = 0
        self.distinct = 0
        self.init_states = 0
        self.depth = 0
        self.ok = False
        self.violation = None   # text of invariant / property violation
        self.lines = {}         # tag -> list of parsed JSON payloads
        self.raw_tagged = {}    # tag -> raw TLA+ text payloads (non JSON)
        self.coverage = {}      # action name -> (count)
        self.out_path = None
        self.wall = 0.0

    @property
    def transitions(self):
        return max(self.generated - self.init_states, 0)


def run_tlc(name, module, cfg_text, workers=8, timeout=900, simulate=None, depth=None, seed=None,
            env_extra=None, java_opts=None, tags=("CASE",), coverage=False, xmx="6g", generated_module=None, stream_to=None):
    """Run TLC on spec/<module>.tla with the given cfg text. Returns TlcResult.
    Lines printed by the spec as <<"TAG", "json">> are collected under result.lines[TAG]; with stream_to={TAG: path} the JSON
    texts of that tag are written to the NDJSON file instead (one per line, nothing kept in memory) and counted in result.streamed."""
    d = os.path.join(BUILD, "tlc", name)
    shutil.rmtree(d, ignore_errors=True)
    os.makedirs(d, exist_ok=True)
    cfg = os.path.join(d, module + ".cfg")
    with open(cfg, "w") as f:
        f.write(cfg_text)
    out_path = os.path.join(d, "tlc.out")
    cmd = ["java", "-XX:+UseParallelGC", "-Xmx" + xmx]
    if java_opts:
        cmd += java_opts
    if not any(o.startswith("-Xss") for o in (java_opts or [])):
        cmd.append("-Xss256m")       # the reference evaluators recurse deeply (a StackOverflowError is a tool error, not a verdict)
    cmd += ["-cp", TLA_CP, "tlc2.TLC", "-workers", str(workers), "-metadir", os.path.join(d, "meta"),
            "-cleanup", "-noGenerateSpecTE", "-config", cfg]
    if coverage:
        cmd += ["-coverage", "1"]
    if simulate is not None:
        cmd += ["-simulate", "num=%d" % simulate]
        if depth is not None:
            cmd += ["-depth", str(depth)]
    if seed is not None:
        cmd += ["-seed", str(seed)]
    if generated_module is not None:
        # a module generated for this run (constants from measurements): lives next to the cfg, extends modules of spec/
        with open(os.path.join(d, module + ".tla"), "w") as f:
            f.write(generated_module)
        cmd.insert(1, "-DTLA-Library=" + SPEC)
        cmd += [os.path.join(d, module + ".tla")]
    else:
        cmd += [os.path.join(SPEC, module + ".tla")]
    e = env_offline()
    if env_extra:
        e.update(env_extra)
    t0 = time.time()
    with open(out_path, "wb") as fo:
        try:
            p = subprocess.run(cmd, cwd=d, env=e, stdin=subprocess.DEVNULL, stdout=fo,
                               stderr=subprocess.STDOUT, timeout=timeout)
        except subprocess.TimeoutExpired:
            raise ToolError("TLC timed out after %ss on %s" % (timeout, module))
    r = TlcResult()
    r.wall = time.time() - t0
    r.out_path = out_path
    tags = set(tags)
    err_text = []
    in_err = False
    stream_to = stream_to or {}
    sinks = {t: open(pth, "w") for t, pth in stream_to.items()}
    r.streamed = {t: 0 for t in stream_to}
    with open(out_path, "r", errors="replace") as f:
        for line in f:
            line = line.rstrip("\n")
            m = _case_re.match(line)
            if m and m.group(1) in sinks:
                sinks[m.group(1)].write(_unescape(m.group(2)) + "\n")
                r.streamed[m.group(1)] += 1
                continue
            if m and m.group(1) in tags:
                try:
                    r.lines.setdefault(m.group(1), []).append(json.loads(_unescape(m.group(2))))
                except Exception as ex:
                    raise ToolError("cannot parse %s line: %s (%s)" % (m.group(1), line[:300], ex))
                continue
            if line.startswith("<<\"") and not m:
                mm = re.match(r'^<<"([A-Z_]+)", (.*)>>$', line)
                if mm and mm.group(1) in tags:
                    r.raw_tagged.setdefault(mm.group(1), []).append(mm.group(2))
                    continue
            m2 = re.match(r"^(\d+) states generated, (\d+) distinct states found", line)
            if m2:
                r.generated = int(m2.group(1))
                r.distinct = int(m2.group(2))
            m3 = re.match(r"^Finished computing initial states: (\d+) distinct state", line)
            if m3:
                r.init_states = int(m3.group(1))
            m4 = re.match(r"^The depth of the complete state graph search is (\d+)", line)
            if m4:
                r.depth = int(m4.group(1))
            m5 = re.match(r"^<(\w+) line \d+, col \d+ to line \d+, col \d+ of module \w+>: (\d+):(\d+)", line)
            if m5:
                r.coverage[m5.group(1)] = r.coverage.get(m5.group(1), 0) + int(m5.group(3))
            if line.startswith("Error:"):
                in_err = True
            if in_err and len(err_text) < 60:
                err_text.append(line)
            if "Model checking completed. No error has been found." in line:
                r.ok = True
    if simulate is not None and p.returncode == 0:
        r.ok = True
    if not r.ok:
        r.violation = "\n".join(err_text) if err_text else "TLC exit %d" % p.returncode
    for fh in sinks.values():
        fh.close()
    return r


TRACE_JAVA_OPTS = ["-Xss1g", "-Dtlc2.tool.queue.IStateQueue=StateDeque"]


def validate_trace(name, module, trace_path, n_events, extra_cfg="", timeout=900, xmx="4g"):
    """Trace validation: TLC consumes the NDJSON trace through spec/<module>.tla.
    The trace spec prints <<"TRACE_RESULT", "{consumed:.., bad:[..]}">> in its final state.
    Returns (bad_indexes (1-based), TlcResult)."""
    cfg = "SPECIFICATION TraceSpec\nINVARIANT Final\nCHECK_DEADLOCK FALSE\n" + extra_cfg
    r = run_tlc(name, module, cfg, workers=1, timeout=timeout, env_extra={"TRACE": trace_path},
                java_opts=TRACE_JAVA_OPTS, tags=("TRACE_RESULT",), xmx=xmx)
    if not r.ok:
        raise ToolError("trace validation %s failed inside TLC:\n%s" % (module, r.violation))
    res = r.lines.get("TRACE_RESULT")
    if not res:
        raise ToolError("trace validation %s: trace not consumed to the end (see %s)" % (module, r.out_path))
    res = res[-1]
    if res["consumed"] != n_events:
        raise ToolError("trace validation %s consumed %d of %d events" % (module, res["consumed"], n_events))
    return res["bad"], r


# --------------------------------------------------------------------------- harness

def harness(args, timeout=1800, stdin_data=None):
    build_harness()
    p = subprocess.run([HARNESS] + args, env=env_offline(), stdin=subprocess.DEVNULL if stdin_data is None else None,
                       input=stdin_data, stdout=subprocess.PIPE, stderr=subprocess.PIPE, timeout=timeout)
    if p.returncode != 0:
        raise ToolError("harness %s exited %d:\n%s" % (" ".join(args[:3]), p.returncode,
                                                     p.stderr.decode(errors="replace")[-4000:]))
    return p.stdout.decode(errors="replace")


def write_ndjson(path, items):
    os.makedirs(os.path.dirname(path), exist_ok=True)
    with open(path, "w") as f:
        for it in items:
            f.write(json.dumps(it, separators=(",", ":")) + "\n")


def read_ndjson(path):
    out = []
    with open(path) as f:
        for line in f:
            line = line.strip()
            if line:
                out.append(json.loads(line))
    return out


def case_hash(obj):
    return hashlib.sha1(json.dumps(obj, sort_keys=True, separators=(",", ":")).encode()).hexdigest()[:16]


# --------------------------------------------------------------------------- findings / verdict

def load_known():
    p = os.path.join(VERIF, "known_findings.json")
    if not os.path.exists(p):
        return []
    return json.load(open(p)).get("findings", [])


class Verdict:
    """Collects mismatches (each with a signature), separates known findings from violations."""

    def __init__(self, prop):
        self.prop = prop
        self.known = [k for k in load_known() if k["property"] == prop]
        self.violations = []     # (signature, detail)
        self.known_hits = {}     # signature -> count

    def mismatch(self, signature, detail):
        for k in self.known:
            if k["signature"] == signature:
                self.known_hits[signature] = self.known_hits.get(signature, 0) + 1
                return
        self.violations.append((signature, detail))

    def finish(self, evidence, t0):
        os.makedirs(EVID, exist_ok=True)
        for sig, n in sorted(self.known_hits.items()):
            what = next(k["what"] for k in self.known if k["signature"] == sig)
            print("KNOWN-FINDING: property=%s %s [%s] (%d case(s) this run)" % (self.prop, what, sig, n))
        evidence["violations"] = len(self.violations)
        evidence["wall_s"] = round(time.time() - t0, 2)
        evidence.setdefault("coverage", {})["known_findings_hit"] = self.known_hits
        rc = 0
        with open(os.path.join(BUILD, "%s_violations.txt" % self.prop), "w") as f:
            for sig, detail in self.violations:
                f.write(sig + "\t" + json.dumps(detail)[:600] + "\n")
        if self.violations:
            rdir = os.path.join(EVID, "replays")
            os.makedirs(rdir, exist_ok=True)
            seen = set()
            for sig, detail in self.violations:
                if sig in seen:
                    continue
                seen.add(sig)
                path = os.path.join(rdir, "%s_%s.json" % (self.prop, hashlib.sha1(sig.encode()).hexdigest()[:10]))
                with open(path, "w") as f:
                    json.dump({"property": self.prop, "signature": sig, "detail": detail}, f, indent=1)
                print("VIOLATION property=%s replay=%s" % (self.prop, path))
                if len(seen) >= 8:
                    break
            evidence["coverage"]["violation_signatures"] = sorted({s for s, _ in self.violations})[:50]
            rc = 1
        with open(os.path.join(EVID, "%s.json" % self.prop), "w") as f:
            json.dump(evidence, f, indent=1)
        return rc


def seed():
    try:
        return int(os.environ.get("VERIF_SEED", "1"))
    except ValueError:
        return 1
