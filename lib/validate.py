#!/usr/bin/env python3
import json, glob, sys, jsonschema
ok = True
jsonschema.validate(json.load(open('/verif/MANIFEST.json')), json.load(open('/root/.vp/MANIFEST.schema.json')))
s = json.load(open('/root/.vp/EVIDENCE.schema.json'))
for f in sorted(glob.glob('/verif/evidence/C*.json')):
    try:
        jsonschema.validate(json.load(open(f)), s)
    except Exception as e:
        ok = False; print("INVALID", f, str(e)[:300])
print("schemas ok" if ok else "schema errors"); sys.exit(0 if ok else 1)
