#!/usr/bin/env python3
"""Regenerates MANIFEST.json from the table below (single place to keep claims and not_applicable current)."""
import json, os
V = os.path.dirname(os.path.dirname(os.path.abspath(__file__)))
props = [json.loads(l) for l in open(os.path.join(V, "properties.jsonl"))]
CLAIMS = {
 "C12": dict(category="model_checking", design_ref="5 C12",
   text="TLC checks the coherence laws (equivalence, trichotomy, unions, transitivity, prefix order, key-order insensitivity, u* agreement) on the specification's Equals/Compare over every pair and triple of a universe dense in near-equal values; every pair is then replayed through the real evaluator for all ten operators under several monotone number lifts, so the laws transfer to the code on that universe; seeded random pairs/triples recorded from the real evaluator are validated by TLC against the same operators.",
   note="Trusted: TLC, the harness renderer (value -> source text), monotone zero-preserving number lifts, code-point-sorted alphabet. NaN excluded as the property states. Random part is sampled, not exhaustive.",
   technique="TLA+ spec (BlotsOrder) model-checked with TLC; TLC-enumerated cases replayed into the real evaluator; recorded traces validated by TLC (Trace_C12)"),
}
NOT_YET = "check not built yet in this session (work in progress; see DESIGN.md section 5 for the plan)"
m = {
 "version": 1,
 "setup_cmd": "./check --setup",
 "hooks": {"guard": "blots_verif", "enable": "harness/.cargo/config.toml passes --cfg blots_verif when building blots-core as a path dependency",
           "baseline_off_cmd": "cd /repo && cargo test --workspace --no-fail-fast --offline", "source_commits": [], "add_only": True},
 "engines": [{"name": "tlc", "path": "spec/", "serves_properties": sorted(CLAIMS), "kind_free_text": "TLA+ specifications checked with TLC 1.8 (exhaustive, simulation and trace validation)"},
             {"name": "bvh", "path": "harness/", "serves_properties": sorted(CLAIMS), "kind_free_text": "Rust conformance harness: replays TLC-generated cases into blots-core / CLI / WASM driver and records traces for TLC"}],
 "checks": [], "not_applicable": [],
 "notes": "All checks: ./check <id> --tier quick|thorough. Exit 0 held / 1 VIOLATION / 2 tool error. Known findings in known_findings.json.",
}
hooks_file = os.path.join(V, "hooks.json")
if os.path.exists(hooks_file):
    m["hooks"]["source_commits"] = json.load(open(hooks_file))["source_commits"]
na_file = os.path.join(V, "not_applicable.json")
NA = json.load(open(na_file)) if os.path.exists(na_file) else {}
for p in props:
    i = p["id"]
    if i in CLAIMS:
        c = CLAIMS[i]
        m["checks"].append({"property_id": i, "quick_cmd": "./check %s --tier quick" % i, "thorough_cmd": "./check %s --tier thorough" % i,
          "evidence_file": "/verif/evidence/%s.json" % i, "replay_cmd_template": "./check %s --replay {path}" % i, "engine": "tlc",
          "level_claimed": {"category": c["category"], "text": c["text"], "design_ref": c["design_ref"]},
          "level_note": c["note"], "technique": c["technique"]})
    else:
        m["not_applicable"].append({"property_id": i, "reason": NA.get(i, NOT_YET)})
json.dump(m, open(os.path.join(V, "MANIFEST.json"), "w"), indent=1)
print("claimed:", sorted(CLAIMS), "not claimed:", [x["property_id"] for x in m["not_applicable"]])
