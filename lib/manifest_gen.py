#!/usr/bin/env python3
"""Regenerates MANIFEST.json from the table below (single place to keep claims and not_applicable current)."""
import json, os
V = os.path.dirname(os.path.dirname(os.path.abspath(__file__)))
props = [json.loads(l) for l in open(os.path.join(V, "properties.jsonl"))]
CLAIMS = {
 "C12": dict(category="model_checking", design_ref="5 C12",
   text="TLC checks the coherence laws (equivalence, trichotomy, unions, transitivity, prefix order, key-order insensitivity, u* agreement) on the specification's Equals/Compare over every pair and triple of a universe dense in near-equal values; every pair is then replayed through the real evaluator for all ten operators under several monotone number lifts, so the laws transfer to the code on that universe; seeded random pairs/triples recorded from the real evaluator are validated by TLC against the same operators.",
   note="Trusted: TLC, the harness renderer (value -> source text), monotone zero-preserving number lifts, code-point-sorted alphabet. NaN excluded as the property states. Random part is sampled, not exhaustive.",
   technique="TLA+ spec (BlotsOrder) model-checked with TLC; TLC-enumerated cases replayed into the real evaluator; recorded traces validated by TLC (Trace_C12)"),
 "C02": dict(category="exploration", design_ref="5 C02",
   text="Purity is a theorem of the reference evaluator that TLC checks for every (program, sub-expression position) of MC_C02: LetAbstractionLaw (binding the sub-expression to a fresh name and using the name gives the same result), TwiceLaw ([e, e] = [v, v]) and NoEffectLaw (the scope is unchanged); each state is replayed into the real evaluator, which must agree with the model, with its own [e, e], with the let-abstracted program, with two re-runs after unrelated evaluations and with three separate CLI processes (fresh hash seeds). Determinism itself cannot be enumerated: seeded random programs (sessions, built-in calls, broadcasts) are run twice in process and, sampled, three times as processes, and heap-cell digests before / after every statement are validated by TLC (append-only, at most one lambda name write, only by an assignment).",
   note="Exploration level: determinism over runs / processes / hash seeds is sampled. Trusted: TLC, renderer, Debug-form digests of heap cells. time_now and print excluded as the property says.",
   technique="TLA+ reference evaluator laws model-checked with TLC; cases replayed into several sessions and CLI processes; recorded run-sets and heap digests validated by TLC (Trace_C02)"),
 "C03": dict(category="model_checking", design_ref="5 C03",
   text="Session.tla is a state machine (root scope, outputs, last outcome) whose statements are evaluated by the reference evaluator BlotsEval.tla; TLC explores every statement sequence of length 2 (thorough: 3) over a 96-statement alphabet (binding, rebinding, nested and self-nested assignment, failing statements with partial effect, reserved names, do-block shadowing, closures, calls, parameter shadowing, assignment inside function bodies, outputs) and checks the action properties Immutable, OutputsAppendOnly and FailedStmtFrame on every transition. Every behaviour is replayed in a real session, comparing success, value and the whole root scope after each statement. Random 25-statement sessions over 8 names, recorded with the insertion hook, are validated by TLC: each statement is re-executed by the model and Immutable / NoDoubleInsert / NoLeak / InsertsExplainChange are evaluated on the observed states.",
   note="Trusted: TLC, the core-language renderer, hook H1 (Environment::insert, cfg blots_verif). Closures are compared by kind in scope snapshots and by behaviour through call statements.",
   technique="TLA+ state machine (Session over BlotsEval) model-checked with TLC; behaviours replayed into a real session; recorded sessions (with hook events) validated by TLC (Trace_C03)"),
 "C04": dict(category="model_checking", design_ref="5 C04",
   text="BlotsEval.tla gives lambdas by-value capture, the call-time chain caller < self name < captured < parameters, and positional argument binding; TLC checks CallSiteIndependent (closed-after-capture => same result in every context) for 15 closure definitions x 15 calling contexts (shadowing parameter / do-local, via / where / map / reduce callbacks, passed as value, refused redefinition, a parameter named inputs) and their two-level nestings, and ArgsLaw for every parameter list required^r optional^o rest^{0,1} x 0..7 arguments. Each state is replayed into the real evaluator (model value at top level and in context; the two real results must also agree). Random parameter lists / argument tuples and random towers of shadowing contexts are recorded and re-evaluated by TLC.",
   note="Trusted: TLC, core-language renderer. Documented parameter shape only. Errors compared as failure, not by message.",
   technique="TLA+ reference evaluator (BlotsEval) model-checked with TLC; cases replayed into the real evaluator; recorded calls validated by TLC (Trace_C04)"),
 "C07": dict(category="model_checking", design_ref="5 C07",
   text="SyntaxRich.tla defines whole-language trees, a fully parenthesising and a reference-minimal printer and the chain-complete tree generator (every node kind as child of every node kind at every operand position); TLC enumerates the trees (one state each) and emits both texts. The real parser must map the full text to exactly the model tree and the minimal text to the same tree (binding the reference parenthesisation rule to the grammar); the library formatter, the WASM driver and the CLI then format each program at several widths, as expression, output declaration and inside a multi-statement program, and the re-parsed statement sequence must be identical. Random operator expressions formatted for real are tokenised and judged by ParseRef (independent precedence table); corpus programs go through every driver and width (Trace_C07).",
   note="Trusted: TLC, AST projection, PartialEq of the repository AST (ignores spans), the WASM shim, the operator-fragment tokenizer. Comments are C09's subject. Widths sampled {1,20,40,default} quick / 10 widths thorough.",
   technique="TLA+ spec (SyntaxRich tree generator + reference printers) enumerated by TLC; cases replayed into the real parser, formatter, WASM and CLI drivers; recorded formatter runs validated by TLC against ParseRef (Trace_C07)"),
 "C08": dict(category="model_checking", design_ref="5 C08",
   text="Same TLC-enumerated chain-complete trees, drivers (library, WASM format_blots, CLI --format) and widths as C07; the formatter's output is formatted a second time with the same driver and width and must be returned unchanged as text (including blank-line spacing of the multi-statement programs); corpus programs likewise (Trace_C07, verdict bad8). Comment placement and 0-5 blank lines are exercised by the C09 comment state machine cases, whose second pass is also compared.",
   note="Trusted: TLC, WASM shim. Text equality is exact string equality. Widths sampled.",
   technique="TLA+ spec (SyntaxRich) enumerated by TLC; cases replayed twice through the real formatter drivers; recorded runs validated by TLC (Trace_C07, idempotent flag)"),
 "C09": dict(category="model_checking", design_ref="5 C09",
   text="Comments.tla is a TLA+ state machine of the parser's pending-comment bookkeeping (ReadComment / ReadItem / ReadSameLine / Finish) and of the formatter's emission, for lists, records, do-blocks and the top level; TLC explores every behaviour up to 3 items and 6-7 slots, checking TypeOK, NoDuplication, OrderKept, Conservation and LossOnlyWhenEmpty (the design loses comments exactly in item-less containers) with per-action coverage required. Every terminated behaviour becomes real programs (plain, assigned, nested in list / record / lambda / do-block, trailing comma, tricky comment texts, 0-5 blank lines) for the WASM driver, the library formatter and the CLI at several widths; the comment sequences of input and output are compared.",
   note="Trusted: TLC, lexical comment extraction (// outside string literals), WASM shim. Only the comment kinds the property names; comments in call parentheses or after infix operators are silent layout for the grammar. Known finding: item-less list / record.",
   technique="TLA+ state machine (Comments.tla) model-checked with TLC (-coverage); every behaviour replayed into the real formatter drivers; comment sequences compared"),
 "C10": dict(category="model_checking", design_ref="5 C10",
   text="The precedence table of the property is data in Syntax.tla with a reference precedence-climbing parser and two printers; TLC checks ParseRef(PrintFull(t)) = t and ParseRef(PrintMin(t)) = t on every enumerated tree (design check) and emits every flat token string (all operator pairs, triples, prefix/postfix decorations), every admitted layout decoration of every gap (and gap pair) of 18 templates, redundant-parenthesis / trailing-comma variants and every reserved word extended by a suffix/prefix; the real parser must produce exactly the reference tree (flat and fully parenthesised), the same program under every layout, and bound names must evaluate in 19 positions. Random deep token strings parsed by the real parser are validated by TLC against ParseRef.",
   note="Trusted: TLC, the token renderer and AST projection in the harness. The table is independent of precedence.rs (which feeds both the repo's parser and printer). Layout admissibility (Admit) is a measured subset of what grammar.pest admits.",
   technique="TLA+ spec (Syntax: precedence table, reference parser, printers) model-checked with TLC; cases replayed into the real parser; recorded parses validated by TLC (Trace_C10)"),
 "C11": dict(category="model_checking", design_ref="5 C11",
   text="The broadcasting law is written once in TLA+ (BinOp over ElemOp) and TLC checks its shape/content/failure conditions for every (operator, left, right) state - 17 operators x scalar-scalar, list-scalar, scalar-list, list-list (equal and unequal lengths) over pools with NaN, infinities, signed zero, strings, booleans, null, nested lists; every state is replayed through the real evaluator against the exact-integer / IEEE-special-value semantics of NumOp; recorded random broadcasts (length 0..8, arbitrary doubles) are validated by TLC against per-element results from the real evaluator, plus algebraic identities.",
   note="Trusted: TLC, value renderer, identity number lift. Correct rounding of arithmetic on general doubles is delegated to hardware/libm and is decided only through exact-integer, special-value and algebraic cases.",
   technique="TLA+ spec (BlotsOps) model-checked with TLC; TLC-enumerated cases replayed into the real evaluator; recorded traces validated by TLC (Trace_C11)"),
 "C13": dict(category="model_checking", design_ref="5 C13",
   text="The reference evaluator BlotsEval.tla defines via / where / into and map / filter / every / some / reduce (callbacks get the element, plus the 0-based index iff they accept one more argument, in list order); TLC checks FormsAgree (result or failure alike), CallbackProtocol, EverySome and ReduceIsLeftFold for every (form, list, function) state - lambdas of arity 1, 2, 3, optional and rest parameters, a closure, self- and mutually recursive named functions, built-ins of several arity classes, a non-function, a failing and a non-boolean callback. Both equivalent programs of every state are run in the real evaluator with the call hook on: values are compared with the model and with each other, callback argument counts between the forms.",
   note="Trusted: TLC, core-language renderer, hook H2 (FunctionDef::call, cfg blots_verif). The claim is stated for lists (x via f with a scalar x is f(x)). Errors compared as failure.",
   technique="TLA+ reference evaluator (BlotsEval) model-checked with TLC; every state replayed as two equivalent programs into the real evaluator with call-hook events compared"),
 "C14": dict(category="model_checking", design_ref="5 C14",
   text="Each built-in has a definitional TLA+ counterpart (stable sort as insertion after all <= keys, unique = first of each .== class, chunk/flatten/zip/slice/range/keys/values/entries/group_by/split/join, indexing, spreading); TLC checks the property's laws on the definitions for every call over exhaustive small pools and emits each call with its expected result, which the harness replays into the real evaluator; random calls (lists to length 40, non-ASCII strings, negative/out-of-range indexes) recorded from the real evaluator are recomputed by TLC.",
   note="Trusted: TLC, value renderer, identity lift. Sort order asserted only for mutually comparable elements/keys (else permutation); slice/chunk/range laws for non-negative integer arguments.",
   technique="TLA+ spec (BlotsBuiltins) model-checked with TLC; cases replayed into the real evaluator; recorded traces validated by TLC (Trace_C14)"),
 "C15": dict(category="model_checking", design_ref="5 C15",
   text="min/max/median/percentile are defined on ranks and TLC checks their defining properties and permutation invariance for every list (all permutations) up to the length bound incl. +-inf; sum/prod/avg are exact on small integers and IEEE specials. Each state is replayed in the three calling conventions under several strictly increasing number lifts; random lists of length 1..50 are recorded and validated by TLC (percentile membership/monotonicity/end points, order statistics, convention identity on arbitrary doubles).",
   note="Trusted: TLC, monotone lifts, the harness computing (lo+hi)/2 and sum/count in doubles. Rounding of sum/prod/avg on general doubles is not decided (only convention identity and exact cases).",
   technique="TLA+ spec (BlotsBuiltins aggregates) model-checked with TLC; cases replayed into the real evaluator; recorded traces validated by TLC (Trace_C15)"),
}
NOT_YET = "check not built yet in this session (work in progress; see DESIGN.md section 5 for the plan)"
m = {
 "version": 1,
 "setup_cmd": "./check --setup",
 "hooks": {"guard": "blots_verif", "enable": "harness/.cargo/config.toml passes --cfg blots_verif when building blots-core as a path dependency",
           "baseline_off_cmd": "cd /repo && cargo test --workspace --no-fail-fast --offline </dev/null", "source_commits": [], "add_only": True},
 "engines": [{"name": "tlc", "path": "spec/", "serves_properties": sorted(CLAIMS), "kind_free_text": "TLA+ specifications checked with TLC 1.8 (exhaustive, simulation and trace validation)"},
             {"name": "bvh", "path": "harness/", "serves_properties": sorted(CLAIMS), "kind_free_text": "Rust conformance harness: replays TLC-generated cases into blots-core / CLI / WASM driver and records traces for TLC"}],
 "checks": [], "not_applicable": [],
 "notes": "All checks: ./check <id> --tier quick|thorough. Exit 0 held / 1 VIOLATION / 2 tool error. Known findings in known_findings.json.",
}
hooks_file = os.path.join(V, "hooks.json")
if os.path.exists(hooks_file):
    m["hooks"]["source_commits"] = json.load(open(hooks_file))["source_commits"]
na_file = os.path.join(V, "not_applicable.json")
NA = json.load(open(na_file)) if os.path.exists(na_file) else {}
for p in props:
    i = p["id"]
    if i in CLAIMS:
        c = CLAIMS[i]
        m["checks"].append({"property_id": i, "quick_cmd": "./check %s --tier quick" % i, "thorough_cmd": "./check %s --tier thorough" % i,
          "evidence_file": "/verif/evidence/%s.json" % i, "replay_cmd_template": "./check %s --replay {path}" % i, "engine": "tlc",
          "level_claimed": {"category": c["category"], "text": c["text"], "design_ref": c["design_ref"]},
          "level_note": c["note"], "technique": c["technique"]})
    else:
        m["not_applicable"].append({"property_id": i, "reason": NA.get(i, NOT_YET)})
json.dump(m, open(os.path.join(V, "MANIFEST.json"), "w"), indent=1)
print("claimed:", sorted(CLAIMS), "not claimed:", [x["property_id"] for x in m["not_applicable"]])
