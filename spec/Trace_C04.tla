------------------------------ MODULE Trace_C04 ------------------------------
(***************************************************************************)
(* Trace validation for C04: recorded calls - random parameter lists with  *)
(* random argument tuples, and a captured-value closure called through     *)
(* random towers of shadowing contexts (parameters, do-locals, via / map / *)
(* reduce callbacks) - are re-evaluated by the reference evaluator.        *)
(***************************************************************************)
EXTENDS BlotsEval, TLC, Json, IOUtils

Events == ndJsonDeserialize(IOEnv.TRACE)
VARIABLES l, bad
vars == <<l, bad>>

RECURSIVE RunAll(_, _)
RunAll(ss, env) == IF ss = <<>> THEN env ELSE RunAll(Tail(ss), Eval(Head(ss), env, 0).env)
RECURSIVE ProjV(_)
ProjV(v) == IF v.t = "fn" THEN [t |-> "fn"]
            ELSE IF v.t = "list" THEN List([i \in 1..Len(v.xs) |-> ProjV(v.xs[i])])
            ELSE IF v.t = "err" THEN [t |-> "err"] ELSE v

CallOk(e) == ProjV(Eval(e.e, RunAll(e.setup, <<EmptyFrame>>), 0).v) = e.res

Init == l = 1 /\ bad = <<>>
Step == /\ l <= Len(Events)
        /\ bad' = IF CallOk(Events[l]) THEN bad ELSE Append(bad, l)
        /\ l' = l + 1
TraceSpec == Init /\ [][Step]_vars
Final == (l = Len(Events) + 1) => PrintT(<<"TRACE_RESULT", ToJson([consumed |-> l - 1, bad |-> bad])>>)
=============================================================================
