------------------------------ MODULE BlotsEval ------------------------------
(***************************************************************************)
(* A big-step reference evaluator for the core of Blots: numbers, strings, *)
(* booleans, null, lists and records (static / shorthand / computed keys,  *)
(* spreads), every broadcasting operator of BlotsOps, unary minus and not, *)
(* index and field access, conditionals, lambdas with required / optional  *)
(* / rest parameters, calls with spread arguments, do-blocks, assignment,  *)
(* via / where / into and the higher-order built-ins - with the scoping    *)
(* rules the properties C03, C04 and C13 state:                            *)
(*   - a name visible anywhere in the scope chain cannot be assigned       *)
(*     (checked before AND after evaluating the right-hand side);          *)
(*     direct statements of a do-block may shadow;                         *)
(*   - a lambda captures, by value, every free name visible at creation    *)
(*     (built-in names excluded); unbound free names stay late-bound;      *)
(*   - a call evaluates the body in                                        *)
(*        caller chain < self name < captured scope < parameters           *)
(*     and never changes the caller's bindings;                            *)
(*   - arguments bind positionally: required, optional (null), rest.       *)
(* Environments are sequences of frames (innermost last); a frame maps     *)
(* every name of the finite universe Names to a value or UNB.              *)
(***************************************************************************)
EXTENDS BlotsBuiltins

CONSTANTS Names,      \* finite universe of identifiers (variables and parameters)
          MaxDepth    \* fuel: nested call depth after which evaluation is cut with a depth error

UNB == [t |-> "unb"]
EmptyFrame == [n \in Names |-> UNB]
BuiltinNames == {"map", "filter", "reduce", "every", "some", "sort_by", "sort", "sum", "max", "len", "range"}
Keywords == {"if", "then", "else", "true", "false", "null", "and", "or", "inputs", "constants"}

ErrC(c) == [t |-> "err", c |-> c]          \* error with a class: unbound / defined / reserved / type / arity / depth / notfn
Closure(ps, b, scope, name) == [t |-> "fn", ps |-> ps, b |-> b, scope |-> scope, name |-> name]
IsFn(v) == v.t = "fn"
IsBi(v) == v.t = "bi"
IsE(v)  == v.t = "err"

\* ------------------------------------------------------------------ expressions
ENum(v)        == [k |-> "num", v |-> v]
EId(n)         == [k |-> "id", n |-> n]
EBin(o, l, r)  == [k |-> "bin", o |-> o, l |-> l, r |-> r]       \* o: add sub mul eq lt (scalar ops of BlotsOps), via where into
EList(xs)      == [k |-> "list", xs |-> xs]
ELam(ps, b)    == [k |-> "lam", ps |-> ps, b |-> b]               \* ps: <<[n |-> name, m |-> "req"|"opt"|"rest"]>>
ECall(f, args) == [k |-> "call", f |-> f, args |-> args]
EDo(ss, r)     == [k |-> "do", ss |-> ss, r |-> r]
EAsg(n, e)     == [k |-> "asg", n |-> n, e |-> e]
EIf(c, t, e)   == [k |-> "if", c |-> c, t |-> t, e |-> e]
EIdx(e, i)     == [k |-> "idx", e |-> e, i |-> i]
ELit(v)        == [k |-> "lit", v |-> v]                          \* a string, boolean or null literal
EUn(o, e)      == [k |-> "un", o |-> o, e |-> e]                  \* o: "neg" | "not"
EDot(e, f)     == [k |-> "dot", e |-> e, f |-> f]                 \* f: the key as a character-index sequence
ESpread(e)     == [k |-> "spread", e |-> e]                       \* only as a list item or a call argument
ERec(es)       == [k |-> "rec", es |-> es]                        \* entries, in source order:
RStatic(key, e) == [m |-> "static", key |-> key, e |-> e]         \*   key: e
RShort(n)       == [m |-> "short", n |-> n]                       \*   n          (shorthand for n: n)
RSpreadE(e)     == [m |-> "spread", e |-> e]                      \*   ...e
RDyn(ke, e)     == [m |-> "dyn", ke |-> ke, e |-> e]              \*   [ke]: e
\* the characters of the one-letter names, as indexes into the harness ALPHABET (sorted by code point)
NameCs(n) == CASE n = "a" -> <<12>> [] n = "b" -> <<13>> [] n = "c" -> <<14>> [] n = "z" -> <<15>>
Prm(n, m)      == [n |-> n, m |-> m]
Req(n)         == Prm(n, "req")

ParamNames(ps) == {ps[i].n : i \in 1..Len(ps)}

\* ------------------------------------------------------------------ scope chain
MaxIdx(S) == CHOOSE m \in S : \A x \in S : x <= m
Lookup(env, n) == LET idx == {i \in 1..Len(env) : env[i][n] # UNB} IN
                  IF idx = {} THEN UNB ELSE env[MaxIdx(idx)][n]
Visible(env, n) == Lookup(env, n) # UNB
SetTop(env, n, v) == [env EXCEPT ![Len(env)][n] = v]

\* free names of an expression (names of the universe only; built-ins are not names)
RECURSIVE FreeVars(_, _)
RECURSIVE FreeVarsSeq(_, _)
RECURSIVE FreeVarsDo(_, _, _)
RECURSIVE FreeVarsRec(_, _)
FreeVarsSeq(es, bound) == IF es = <<>> THEN {} ELSE FreeVars(Head(es), bound) \cup FreeVarsSeq(Tail(es), bound)
\* in a do-block a direct assignment binds its name for the statements after it
FreeVarsDo(ss, r, bound) ==
  IF ss = <<>> THEN FreeVars(r, bound)
  ELSE IF Head(ss).k = "asg"
       THEN FreeVars(Head(ss).e, bound) \cup FreeVarsDo(Tail(ss), r, bound \cup {Head(ss).n})
       ELSE FreeVars(Head(ss), bound) \cup FreeVarsDo(Tail(ss), r, bound)
FreeVars(e, bound) ==
  CASE e.k = "num"  -> {}
    [] e.k = "id"   -> IF e.n \in bound \/ e.n \notin Names THEN {} ELSE {e.n}
    [] e.k = "bin"  -> FreeVars(e.l, bound) \cup FreeVars(e.r, bound)
    [] e.k = "list" -> FreeVarsSeq(e.xs, bound)
    [] e.k = "lam"  -> FreeVars(e.b, bound \cup ParamNames(e.ps))
    [] e.k = "call" -> FreeVars(e.f, bound) \cup FreeVarsSeq(e.args, bound)
    [] e.k = "do"   -> FreeVarsDo(e.ss, e.r, bound)
    [] e.k = "asg"  -> FreeVars(e.e, bound)
    [] e.k = "if"   -> FreeVars(e.c, bound) \cup FreeVars(e.t, bound) \cup FreeVars(e.e, bound)
    [] e.k = "idx"  -> FreeVars(e.e, bound) \cup FreeVars(e.i, bound)
    [] e.k = "lit"  -> {}
    [] e.k \in {"un", "dot", "spread"} -> FreeVars(e.e, bound)
    [] e.k = "rec"  -> FreeVarsRec(e.es, bound)
FreeVarsRec(es, bound) ==
  IF es = <<>> THEN {}
  ELSE LET x == Head(es) IN
       (CASE x.m = "static" -> FreeVars(x.e, bound)
          [] x.m = "short"  -> IF x.n \in bound \/ x.n \notin Names THEN {} ELSE {x.n}
          [] x.m = "spread" -> FreeVars(x.e, bound)
          [] x.m = "dyn"    -> FreeVars(x.ke, bound) \cup FreeVars(x.e, bound))
       \cup FreeVarsRec(Tail(es), bound)

MkClosure(ps, b, env) ==
  LET fv == FreeVars(b, ParamNames(ps)) IN
  Closure(ps, b, [n \in Names |-> IF n \in fv THEN Lookup(env, n) ELSE UNB], "")

\* all free names of the function (and of the functions it captured) were bound when it was created
RECURSIVE ClosedAfterCapture(_)
ClosedAfterCapture(f) ==
  /\ \A n \in FreeVars(f.b, ParamNames(f.ps)) : f.scope[n] # UNB \/ n = f.name
  /\ \A n \in Names : (f.scope[n] # UNB /\ IsFn(f.scope[n])) => ClosedAfterCapture(f.scope[n])

\* ------------------------------------------------------------------ arity and argument binding (C04)
NReq(ps)    == Cardinality({i \in 1..Len(ps) : ps[i].m = "req"})
HasRest(ps) == \E i \in 1..Len(ps) : ps[i].m = "rest"
CanAccept(ps, n) == IF HasRest(ps) THEN n >= NReq(ps) ELSE n >= NReq(ps) /\ n <= Len(ps)
BindArgs(ps, args) ==
  [n \in Names |->
     IF \E i \in 1..Len(ps) : ps[i].n = n
     THEN LET i == MaxIdx({j \in 1..Len(ps) : ps[j].n = n}) IN
          CASE ps[i].m = "req"  -> args[i]
            [] ps[i].m = "opt"  -> IF i <= Len(args) THEN args[i] ELSE Null
            [] ps[i].m = "rest" -> List(IF i <= Len(args) THEN SubSeq(args, i, Len(args)) ELSE <<>>)
     ELSE UNB]
BiArity(name) == CASE name \in {"map", "filter", "every", "some", "sort_by"} -> [lo |-> 2, hi |-> 2]
                   [] name = "reduce" -> [lo |-> 3, hi |-> 3]
                   [] name \in {"sum", "max"} -> [lo |-> 1, hi |-> 99]
                   [] name \in {"len", "sort"} -> [lo |-> 1, hi |-> 1]
                   [] name = "range" -> [lo |-> 1, hi |-> 2]
FnCanAccept(f, n) == IF IsFn(f) THEN CanAccept(f.ps, n) ELSE n >= BiArity(f.name).lo /\ n <= BiArity(f.name).hi

\* ------------------------------------------------------------------ evaluation
Res(v, env) == [v |-> v, env |-> env]

RECURSIVE Eval(_, _, _)
RECURSIVE EvalSeq(_, _, _, _)
RECURSIVE EvalDo(_, _, _, _)
RECURSIVE EvalRec(_, _, _, _)
RECURSIVE ApplyFn(_, _, _, _)
RECURSIVE MapCb(_, _, _, _, _, _)
RECURSIVE FoldCb(_, _, _, _, _, _)

\* what a spread contributes to a list or an argument list: the elements, the characters, or [key, value] pairs
Flatten(v) == CASE IsList(v) -> v.xs
                [] IsStr(v)  -> [i \in 1..Len(v.cs) |-> Str(<<v.cs[i]>>)]
                [] IsRec(v)  -> [i \in 1..Len(v.ks) |-> List(<<Str(v.ks[i]), v.vs[i]>>)]
\* left-to-right evaluation of list items / call arguments, threading the environment; first error wins
EvalSeq(es, env, d, acc) ==
  IF es = <<>> THEN Res(List(acc), env)
  ELSE IF Head(es).k = "spread" THEN
       LET r == Eval(Head(es).e, env, d) IN
       IF IsE(r.v) THEN r
       ELSE IF ~(IsList(r.v) \/ IsStr(r.v) \/ IsRec(r.v)) THEN Res(ErrC("type"), r.env)
       ELSE EvalSeq(Tail(es), r.env, d, acc \o Flatten(r.v))
  ELSE LET r == Eval(Head(es), env, d) IN
       IF IsE(r.v) THEN r ELSE EvalSeq(Tail(es), r.env, d, Append(acc, r.v))

\* a record literal: entries in order; a repeated key keeps its first position and takes the last value
PutKey(acc, k, v) == LET p == KeyPos(acc.ks, k, 1) IN
                     IF p = 0 THEN Rec(Append(acc.ks, k), Append(acc.vs, v)) ELSE Rec(acc.ks, [acc.vs EXCEPT ![p] = v])
EvalRec(es, env, d, acc) ==
  IF es = <<>> THEN Res(acc, env)
  ELSE LET x == Head(es) IN
       CASE x.m = "static" -> LET r == Eval(x.e, env, d) IN
                              IF IsE(r.v) THEN r ELSE EvalRec(Tail(es), r.env, d, PutKey(acc, x.key, r.v))
         [] x.m = "short"  -> LET v == IF x.n \in Names THEN Lookup(env, x.n) ELSE UNB IN
                              IF v = UNB THEN Res(ErrC("unbound"), env) ELSE EvalRec(Tail(es), env, d, PutKey(acc, NameCs(x.n), v))
         [] x.m = "dyn"    -> LET kr == Eval(x.ke, env, d) IN
                              IF IsE(kr.v) THEN kr ELSE IF ~IsStr(kr.v) THEN Res(ErrC("type"), kr.env)
                              ELSE LET r == Eval(x.e, kr.env, d) IN
                                   IF IsE(r.v) THEN r ELSE EvalRec(Tail(es), r.env, d, PutKey(acc, kr.v.cs, r.v))
         [] x.m = "spread" -> LET r == Eval(x.e, env, d) IN
                              IF IsE(r.v) THEN r
                              ELSE IF IsRec(r.v) THEN EvalRec(Tail(es), r.env, d, RecInsertAll(acc, r.v.ks, r.v.vs))
                              ELSE IF IsList(r.v) \/ IsStr(r.v) THEN      \* keys "0", "1", ..: the model names the first two
                                   LET xs == Flatten(r.v) IN
                                   IF Len(xs) > 2 THEN Res(Unk, r.env)
                                   ELSE EvalRec(Tail(es), r.env, d, RecInsertAll(acc, [i \in 1..Len(xs) |-> IF i = 1 THEN <<5>> ELSE <<6>>], xs))
                              ELSE Res(ErrC("type"), r.env)

\* a function takes the name of the first binding it is given; binding it again (an alias) leaves it as it is
NameIt(v, n) == IF IsFn(v) /\ v.name = "" THEN [v EXCEPT !.name = n] ELSE v

\* statements of a do-block: direct assignments may shadow (no visibility check), other statements are plain
\* (`inputs` and `constants` are ordinary names inside a block); `return n = e` is such a direct assignment too
DoKeywords == Keywords \ {"inputs", "constants"}
EvalDo(ss, r, env, d) ==
  IF ss = <<>> THEN
       IF r.k = "asg" THEN
            IF r.n \in DoKeywords THEN Res(ErrC("reserved"), env)
            ELSE LET x == Eval(r.e, env, d) IN
                 IF IsE(x.v) THEN x ELSE Res(NameIt(x.v, r.n), SetTop(x.env, r.n, NameIt(x.v, r.n)))
       ELSE Eval(r, env, d)
  ELSE LET s == Head(ss) IN
       IF s.k = "asg" THEN
            IF s.n \in DoKeywords THEN Res(ErrC("reserved"), env)
            ELSE LET x == Eval(s.e, env, d) IN
                 IF IsE(x.v) THEN x ELSE EvalDo(Tail(ss), r, SetTop(x.env, s.n, NameIt(x.v, s.n)), d)
       ELSE LET x == Eval(s, env, d) IN IF IsE(x.v) THEN x ELSE EvalDo(Tail(ss), r, x.env, d)

\* calling a callback once per element: mode "map" collects results, "filter" keeps elements, "every"/"some" fold booleans
MapCb(f, xs, i, env, d, mode) ==
  IF i > Len(xs) THEN
       CASE mode.m = "map" -> List(mode.acc) [] mode.m = "filter" -> List(mode.acc)
         [] mode.m = "every" -> Bool(TRUE) [] mode.m = "some" -> Bool(FALSE)
  ELSE LET args == IF FnCanAccept(f, 2) THEN <<xs[i], Fin(i - 1)>> ELSE <<xs[i]>>
           r == ApplyFn(f, args, env, d) IN
       IF IsE(r) THEN r
       ELSE CASE mode.m = "map" -> MapCb(f, xs, i + 1, env, d, [mode EXCEPT !.acc = Append(@, r)])
              [] mode.m = "filter" -> IF ~IsBool(r) THEN ErrC("type")
                                      ELSE MapCb(f, xs, i + 1, env, d, IF r.b THEN [mode EXCEPT !.acc = Append(@, xs[i])] ELSE mode)
              [] mode.m = "every" -> IF ~IsBool(r) THEN ErrC("type") ELSE IF ~r.b THEN Bool(FALSE) ELSE MapCb(f, xs, i + 1, env, d, mode)
              [] mode.m = "some"  -> IF ~IsBool(r) THEN ErrC("type") ELSE IF r.b THEN Bool(TRUE) ELSE MapCb(f, xs, i + 1, env, d, mode)
\* reduce: the left fold from the initial value
FoldCb(f, xs, i, acc, env, d) ==
  IF i > Len(xs) THEN acc
  ELSE LET args == IF FnCanAccept(f, 3) THEN <<acc, xs[i], Fin(i - 1)>> ELSE <<acc, xs[i]>>
           r == ApplyFn(f, args, env, d) IN
       IF IsE(r) THEN r ELSE FoldCb(f, xs, i + 1, r, env, d)

\* Apply: call a function value with argument values from a caller whose scope chain is env. Returns a value.
ApplyFn(f, args, env, d) ==
  IF ~(IsFn(f) \/ IsBi(f)) THEN ErrC("notfn")
  ELSE IF ~FnCanAccept(f, Len(args)) THEN ErrC("arity")
  ELSE IF d > MaxDepth THEN ErrC("depth")
  ELSE IF IsFn(f) THEN
       LET self  == IF f.name # "" /\ f.name \in Names /\ f.scope[f.name] = UNB
                    THEN [EmptyFrame EXCEPT ![f.name] = f] ELSE EmptyFrame
           chain == env \o <<self, f.scope, BindArgs(f.ps, args)>> IN
       Eval(f.b, chain, d + 1).v
  ELSE CASE f.name = "map"    -> IF ~IsList(args[1]) THEN ErrC("type") ELSE IF ~(IsFn(args[2]) \/ IsBi(args[2])) THEN ErrC("notfn") ELSE MapCb(args[2], args[1].xs, 1, env, d + 2, [m |-> "map", acc |-> <<>>])
         [] f.name = "filter" -> IF ~IsList(args[1]) THEN ErrC("type") ELSE IF ~(IsFn(args[2]) \/ IsBi(args[2])) THEN ErrC("notfn") ELSE MapCb(args[2], args[1].xs, 1, env, d + 2, [m |-> "filter", acc |-> <<>>])
         [] f.name = "every"  -> IF ~IsList(args[1]) THEN ErrC("type") ELSE IF ~(IsFn(args[2]) \/ IsBi(args[2])) THEN ErrC("notfn") ELSE MapCb(args[2], args[1].xs, 1, env, d + 2, [m |-> "every"])
         [] f.name = "some"   -> IF ~IsList(args[1]) THEN ErrC("type") ELSE IF ~(IsFn(args[2]) \/ IsBi(args[2])) THEN ErrC("notfn") ELSE MapCb(args[2], args[1].xs, 1, env, d + 2, [m |-> "some"])
         [] f.name = "reduce" -> IF ~IsList(args[1]) THEN ErrC("type") ELSE IF ~(IsFn(args[2]) \/ IsBi(args[2])) THEN ErrC("notfn") ELSE FoldCb(args[2], args[1].xs, 1, args[3], env, d + 2)
         [] f.name = "sort_by" ->
              IF ~IsList(args[1]) THEN ErrC("type")
              ELSE LET ks == [i \in 1..Len(args[1].xs) |-> ApplyFn(args[2], <<args[1].xs[i]>>, env, d + 2)] IN
                   IF \E i \in 1..Len(ks) : IsE(ks[i]) THEN Unk
                   ELSE IF MutuallyComparable(ks) THEN List(StableSort(args[1].xs, ks)) ELSE Unk
         [] f.name = "sort" -> IF ~IsList(args[1]) THEN ErrC("type")
                               ELSE IF MutuallyComparable(args[1].xs) THEN List(StableSort(args[1].xs, args[1].xs)) ELSE Unk
         [] f.name = "sum" -> LET xs == IF Len(args) = 1 /\ IsList(args[1]) THEN args[1].xs ELSE args IN
                              IF xs = <<>> \/ \E i \in 1..Len(xs) : ~IsNum(xs[i]) THEN ErrC("type") ELSE SumOf(xs)
         [] f.name = "max" -> LET xs == IF Len(args) = 1 /\ IsList(args[1]) THEN args[1].xs ELSE args IN
                              IF xs = <<>> \/ \E i \in 1..Len(xs) : ~IsNum(xs[i]) THEN ErrC("type") ELSE MaxOf(xs)
         [] f.name = "len" -> IF IsList(args[1]) \/ IsStr(args[1]) THEN Fin(LenOf(args[1])) ELSE ErrC("type")
         [] f.name = "range" -> IF \E i \in 1..Len(args) : ~(IsNum(args[i]) /\ args[i].k = "fin") THEN ErrC("type")
                                ELSE LET rr == IF Len(args) = 1 THEN RangeOf(0, args[1].n) ELSE RangeOf(args[1].n, args[2].n) IN
                                     IF IsErr(rr) THEN ErrC("type") ELSE rr

\* every broadcasting operator: the law of BlotsOps (both operands are evaluated first, also for && || ??)
\* (an operand the model leaves open - the result of inexact arithmetic - leaves the result open too)
ScalarBin(o, a, b) == IF a = Unk \/ b = Unk THEN Unk
                      ELSE LET x == BinOp(o, a, b) IN
                           IF IsErr(x) THEN ErrC("type") ELSE x

Eval(e, env, d) ==
  CASE e.k = "num"  -> Res(Fin(e.v), env)
    [] e.k = "id"   -> IF e.n \in {"inf", "infinity"} THEN Res(PInf, env)       \* the constant, whatever is bound under that name
                       ELSE IF e.n \in BuiltinNames THEN Res([t |-> "bi", name |-> e.n], env)
                       ELSE IF e.n \notin Names THEN Res(ErrC("unbound"), env)
                       ELSE LET v == Lookup(env, e.n) IN Res(IF v = UNB THEN ErrC("unbound") ELSE v, env)
    [] e.k = "bin"  -> LET a == Eval(e.l, env, d) IN
                       IF IsE(a.v) THEN a
                       ELSE LET b == Eval(e.r, a.env, d) IN
                            IF IsE(b.v) THEN b
                            ELSE CASE e.o = "via" ->
                                        Res(IF ~(IsFn(b.v) \/ IsBi(b.v)) THEN ErrC("notfn")
                                            ELSE IF IsList(a.v) THEN MapCb(b.v, a.v.xs, 1, b.env, d, [m |-> "map", acc |-> <<>>])
                                            ELSE ApplyFn(b.v, <<a.v>>, b.env, d), b.env)
                                   [] e.o = "where" ->
                                        Res(IF ~(IsFn(b.v) \/ IsBi(b.v)) \/ ~IsList(a.v) THEN ErrC("type")
                                            ELSE MapCb(b.v, a.v.xs, 1, b.env, d, [m |-> "filter", acc |-> <<>>]), b.env)
                                   [] e.o = "into" ->
                                        Res(IF ~(IsFn(b.v) \/ IsBi(b.v)) THEN ErrC("notfn") ELSE ApplyFn(b.v, <<a.v>>, b.env, d), b.env)
                                   [] OTHER -> Res(ScalarBin(e.o, a.v, b.v), b.env)
    [] e.k = "list" -> EvalSeq(e.xs, env, d, <<>>)
    [] e.k = "lam"  -> Res(MkClosure(e.ps, e.b, env), env)
    [] e.k = "call" -> LET fr == Eval(e.f, env, d) IN
                       IF IsE(fr.v) THEN fr
                       ELSE LET ar == EvalSeq(e.args, fr.env, d, <<>>) IN
                            IF IsE(ar.v) THEN ar ELSE Res(ApplyFn(fr.v, ar.v.xs, ar.env, d), ar.env)
    [] e.k = "do"   -> Res(EvalDo(e.ss, e.r, Append(env, EmptyFrame), d).v, env)
    [] e.k = "asg"  -> IF e.n \in Keywords \cup BuiltinNames THEN Res(ErrC("reserved"), env)
                       ELSE IF Visible(env, e.n) THEN Res(ErrC("defined"), env)
                       ELSE LET r == Eval(e.e, env, d) IN
                            IF IsE(r.v) THEN r
                            ELSE IF Visible(r.env, e.n) THEN Res(ErrC("defined"), r.env)   \* re-check: the right-hand side may have bound it
                            ELSE Res(NameIt(r.v, e.n), SetTop(r.env, e.n, NameIt(r.v, e.n)))
    [] e.k = "if"   -> LET c == Eval(e.c, env, d) IN
                       IF IsE(c.v) THEN c ELSE IF ~IsBool(c.v) THEN Res(ErrC("type"), c.env)
                       ELSE IF c.v.b THEN Eval(e.t, c.env, d) ELSE Eval(e.e, c.env, d)
    [] e.k = "idx"  -> LET a == Eval(e.e, env, d) IN
                       IF IsE(a.v) THEN a
                       ELSE LET i == Eval(e.i, a.env, d) IN
                            IF IsE(i.v) THEN i
                            ELSE Res(IF (IsList(a.v) \/ IsStr(a.v)) /\ IsNum(i.v) /\ i.v.k = "fin" THEN Index(a.v, i.v.n)
                                     ELSE IF IsRec(a.v) /\ IsStr(i.v) THEN Field(a.v, i.v.cs)
                                     ELSE ErrC("type"), i.env)
    [] e.k = "lit"  -> Res(e.v, env)
    [] e.k = "un"   -> LET a == Eval(e.e, env, d) IN
                       IF IsE(a.v) THEN a
                       ELSE Res(IF e.o = "neg" THEN (IF IsNum(a.v) THEN Neg(a.v) ELSE ErrC("type"))
                                ELSE (IF IsBool(a.v) THEN Bool(~a.v.b) ELSE ErrC("type")), a.env)
    [] e.k = "dot"  -> LET a == Eval(e.e, env, d) IN
                       IF IsE(a.v) THEN a ELSE Res(IF IsRec(a.v) THEN Field(a.v, e.f) ELSE ErrC("type"), a.env)
    [] e.k = "rec"  -> EvalRec(e.es, env, d, Rec(<<>>, <<>>))
=============================================================================
