------------------------------- MODULE MC_X02 -------------------------------
(* The token machine on its own: every sequence of Start / End events over two rules and positions 0..MaxPos. *)
EXTENDS Tokens
CONSTANTS MaxPos, MaxOpen
Rules == {"r1", "r2"}
Init == TInit
Next == \E r \in Rules, p \in 0..MaxPos : (Len(stack) < MaxOpen /\ TStart(r, p, MaxPos)) \/ TEnd(r, p, MaxPos)
Spec == Init /\ [][Next]_tvars
TypeOK == pos \in 0..MaxPos /\ Len(stack) <= MaxOpen
Bounded == closed <= 6
=============================================================================
