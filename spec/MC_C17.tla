------------------------------- MODULE MC_C17 -------------------------------
(***************************************************************************)
(* C17 on the real unit table.  One TLC state per check:                   *)
(*  listed(u, i)   - identifier i of unit u                                *)
(*  variant(v)     - a case variant of an identifier (upper / lower /      *)
(*                   capitalised), or a string that is no identifier       *)
(*  prefix(u,b,k)  - a (prefixed unit, base unit, prefix) triple           *)
(*  pair(u1, u2)   - a unit and a category representative: convertible iff *)
(*                   same category                                         *)
(* The laws are evaluated on the exported table and reported per state (a  *)
(* FALSE is a finding about the table, i.e. about the code); every state   *)
(* is also replayed against units::resolve_unit / units::convert and the   *)
(* convert built-in.                                                       *)
(***************************************************************************)
EXTENDS Units, TLC

\* [v, lv]: a string and the same lower-cased;  [u, b, k]: prefixed unit, base unit, index into Prefixes
VariantSeq == ndJsonDeserialize(IOEnv.VARIANTS)
TripleSeq  == ndJsonDeserialize(IOEnv.TRIPLES)

VARIABLE c
\* one representative unit per category (the first listed)
CategoryReps == {u \in 1..N : \A w \in 1..(u - 1) : Table[w].cat # Table[u].cat}
Init == \/ c \in {[fam |-> "listed", u |-> u, i |-> i, a |-> "", b |-> "", base |-> 0] : u \in 1..N, i \in 1..8}
        \/ c \in {[fam |-> "variant", u |-> 0, i |-> 0, a |-> VariantSeq[k].v, b |-> VariantSeq[k].lv, base |-> 0] : k \in 1..Len(VariantSeq)}
        \/ c \in {[fam |-> "prefix", u |-> TripleSeq[k].u, i |-> TripleSeq[k].k, a |-> "", b |-> "", base |-> TripleSeq[k].b] : k \in 1..Len(TripleSeq)}
        \/ c \in {[fam |-> "pair", u |-> x, i |-> y, a |-> "", b |-> "", base |-> 0] : x \in 1..N, y \in CategoryReps}
Next == UNCHANGED c
Spec == Init /\ [][Next]_c

Valid == c.fam # "listed" \/ c.i <= Len(Table[c.u].ids)
\* consistency of the specification's own operator
ResolveTotal == c.fam = "variant" => Resolve(c.a, c.b) \in -1..N

Emit == Valid => PrintT(<<"CASE", ToJson(
   CASE c.fam = "listed"  -> [fam |-> "listed", id |-> Table[c.u].ids[c.i], unit |-> c.u, resolves |-> Resolve(Table[c.u].ids[c.i], Table[c.u].lids[c.i]),
                              ok |-> (ListedResolves(c.u, c.i) /\ AliasesAgree(c.u))]
     [] c.fam = "variant" -> [fam |-> "variant", id |-> c.a, resolves |-> Resolve(c.a, c.b), ok |-> CaseVariantLaw(c.a, c.b)]
     [] c.fam = "prefix"  -> [fam |-> "prefix", unit |-> c.u, base |-> c.base, power |-> Prefixes[c.i].e, ok |-> PrefixLaw(c.u, c.base, c.i)]
     [] c.fam = "pair"    -> [fam |-> "pair", a |-> Table[c.u].ids[1], b |-> Table[c.i].ids[1], convertible |-> Convertible(c.u, c.i), ok |-> TRUE])>>)
=============================================================================
