------------------------------ MODULE Trace_C06 ------------------------------
(***************************************************************************)
(* Trace validation for C06: random deep values (arbitrary finite doubles, *)
(* strings over the full Unicode scalar range incl. quotes, backslashes,   *)
(* control characters, keys incl. empty / numeric-looking ones, depth to   *)
(* 6) were written by one real CLI process and read by a second one.       *)
(* Every event states what was observed; the action requires both halves   *)
(* of the property: the value read back is .== the original, and the JSON  *)
(* produced from the re-read value is identical to the JSON first written. *)
(***************************************************************************)
EXTENDS Naturals, Sequences, TLC, Json, IOUtils

Events == ndJsonDeserialize(IOEnv.TRACE)
VARIABLES l, bad
vars == <<l, bad>>

RoundTripOk(e) == e.ev = "roundtrip" /\ e.equal_after_input /\ e.json_identical /\ e.problems = <<>>

Init == l = 1 /\ bad = <<>>
Step == /\ l <= Len(Events)
        /\ bad' = IF RoundTripOk(Events[l]) THEN bad ELSE Append(bad, l)
        /\ l' = l + 1
TraceSpec == Init /\ [][Step]_vars
Final == (l = Len(Events) + 1) => PrintT(<<"TRACE_RESULT", ToJson([consumed |-> l - 1, bad |-> bad])>>)
=============================================================================
