------------------------------- MODULE MC_C03 -------------------------------
(***************************************************************************)
(* C03: every statement sequence up to SDepth over the alphabet of          *)
(* Appendix B (binding, rebinding, nested and self-nested assignment,      *)
(* failing statements with and without partial effect, reserved names,     *)
(* do-block shadowing and leaking attempts, closures, calls, parameter     *)
(* shadowing, assignment inside function bodies, outputs).  TLC checks     *)
(* Immutable / OutputsAppendOnly / FailedStmtFrame on every transition and *)
(* prints each complete behaviour for replay into a real session.          *)
(***************************************************************************)
EXTENDS Session, TLC, Json

CONSTANTS Vars,     \* the names statements bind: a subset of Names
          SDepth,
          Alphabet  \* "full": everything below; "fn": the statements about function values only, for deeper runs

N1 == ENum(1)
Plus(x, y) == EBin("add", x, y)
\* function values observed through their names: a closure over a name bound before or after it (late-bound), aliases at
\* top level and inside do-blocks (which must not alter the function the old name shows), a recursive function leaving a do-block
FnStmts ==
     {St(EAsg(n, ENum(k)), "") : n \in Vars, k \in {1}}
  \cup {St(EAsg(n, ELam(<<Req("x")>>, Plus(EId(m), EId("x")))), "") : n \in Vars, m \in Vars}
  \cup {St(EAsg(n, EId(m)), "") : n \in Vars, m \in Vars}
  \cup {St(EDo(<<EAsg(m, EId(n))>>, ENum(0)), "") : n \in Vars, m \in Vars}                  \* alias inside a do-block
  \cup {St(EAsg(n, EDo(<<EAsg(m, ELam(<<Req("x")>>, EIf(EBin("lt", EId("x"), N1), ENum(0), ECall(EId(m), <<EBin("sub", EId("x"), N1)>>))))>>, EId(m))), "") : n \in Vars, m \in Vars}
  \cup {St(ECall(EId(n), <<ENum(2)>>), "") : n \in Vars}
  \* a block-local name inside the function body must not hide the captured outer name after the block, whoever calls
  \cup {St(EAsg(n, ELam(<<Req("x")>>, Plus(EDo(<<EAsg(m, ENum(5))>>, EId(m)), EId(m)))), "") : n \in Vars, m \in Vars}
  \cup {St(EDo(<<EAsg(m, ENum(50))>>, ECall(EId(n), <<ENum(2)>>)), "") : n \in Vars, m \in Vars}     \* called under a local of the caller
\* data values observed through their names: records (static / shorthand / computed keys, spreads), strings, booleans, null,
\* field and index access, spreads into lists and calls, unary and logical operators - over whatever the names hold by then
SA == Str(<<12>>)   \* "a"
DataStmts ==
     {St(EAsg(n, ERec(<<RStatic(<<12>>, N1), RStatic(<<13>>, EList(<<N1>>))>>)), "") : n \in Vars}      \* n = {a: 1, b: [1]}
  \cup {St(EAsg(n, ELit(v)), "") : n \in Vars, v \in {SA, Bool(TRUE), Null}}
  \cup {St(EAsg(n, EList(<<ENum(2)>>)), "") : n \in Vars}
  \cup {St(EAsg(n, EBin("add", EId(m), EId(m))), "") : n \in Vars, m \in Vars}                             \* n = m + m: a new value, m stays
  \cup {St(EAsg(n, EList(<<EAsg(m, EList(<<ENum(2), N1>>)), EId("zz")>>)), "") : n \in Vars, m \in Vars}   \* n = [(m = [2, 1]), zz] fails; m stays bound to its list
  \cup {St(EAsg(n, EList(<<ENum(2), N1>>)), "") : n \in Vars}                                               \* n = [2, 1]
  \cup {St(EAsg(n, ECall(EId("sort"), <<EId(m)>>)), "") : n \in Vars, m \in Vars}                          \* n = sort(m): m stays as it was
  \cup {St(ECall(EId("sort_by"), <<EId(m), ELam(<<Req("x")>>, EId("x"))>>), "") : m \in Vars}
  \cup {St(EAsg(n, ERec(<<RShort(m), RStatic(<<12>>, ENum(2))>>)), "") : n \in Vars, m \in Vars}          \* n = {m, a: 2}
  \cup {St(EAsg(n, ERec(<<RStatic(<<14>>, ENum(3)), RSpreadE(EId(m)), RStatic(<<14>>, ENum(4))>>)), "") : n \in Vars, m \in Vars}
  \cup {St(EAsg(n, ERec(<<RDyn(EId(m), N1)>>)), "") : n \in Vars, m \in Vars}                              \* n = {[m]: 1}
  \cup {St(EAsg(n, EDot(EId(m), <<12>>)), "") : n \in Vars, m \in Vars}                                      \* n = m.a
  \cup {St(EIdx(EId(m), ELit(SA)), "") : m \in Vars}                                                          \* m["a"]
  \cup {St(EIdx(EId(m), ENum(0)), "") : m \in Vars}
  \cup {St(EAsg(n, EList(<<ESpread(EId(m)), ENum(3)>>)), "") : n \in Vars, m \in Vars}                      \* n = [...m, 3]
  \cup {St(ECall(EId("max"), <<ESpread(EId(m)), N1>>), "") : m \in Vars}                                      \* max(...m, 1)
  \cup {St(EAsg(n, EBin("add", EId(m), ELit(Str(<<13>>)))), "") : n \in Vars, m \in Vars}                   \* n = m + "b"
  \cup {St(EUn(o, EId(m)), "") : o \in {"neg", "not"}, m \in Vars}
  \cup {St(EBin(o, EId(m), ELit(Bool(TRUE))), "") : o \in {"and", "nor"}, m \in Vars}
  \cup {St(EAsg(n, EBin("coalesce", EId(m), ENum(5))), "") : n \in Vars, m \in Vars}
  \cup {St(EBin("or", EAsg(n, ELit(Bool(TRUE))), EId("zz")), "") : n \in Vars}                                \* (n = true) || zz : both sides run
  \cup {St(EIf(EId(m), N1, ENum(2)), "") : m \in Vars}
  \cup {St(EId(n), n) : n \in Vars}
AllStmts ==
     {St(EAsg(n, ENum(k)), "") : n \in Vars, k \in {1, 2}}
  \cup {St(EAsg(n, EId(m)), "") : n \in Vars, m \in Vars}
  \cup {St(EAsg(n, Plus(EAsg(m, ENum(2)), N1)), "") : n \in Vars, m \in Vars}               \* n = (m = 2) + 1, incl. n = m
  \cup {St(EAsg(n, EId("zz")), "") : n \in Vars}                                             \* fails
  \cup {St(EAsg(n, Plus(EAsg(m, ENum(3)), EId("zz"))), "") : n \in Vars, m \in Vars}         \* partial effect, fails
  \cup {St(EAsg(w, N1), "") : w \in {"inputs", "constants", "sum"}}                          \* reserved
  \cup {St(EDo(<<EAsg(n, ENum(9))>>, EId(n)), "") : n \in Vars}                              \* shadow in a do-block
  \cup {St(EAsg(n, EDo(<<EAsg(m, ENum(7))>>, Plus(EId(m), N1))), "") : n \in Vars, m \in Vars} \* no leak of m
  \cup {St(EAsg(n, ELam(<<Req("x")>>, Plus(EId(m), EId("x")))), "") : n \in Vars, m \in Vars} \* closure over m
  \cup {St(EAsg(n, ECall(EId(m), <<N1>>)), "") : n \in Vars, m \in Vars}
  \cup {St(ECall(ELam(<<Req(n)>>, Plus(EId(n), N1)), <<ENum(5)>>), "") : n \in Vars}         \* parameter shadows
  \cup {St(EAsg(n, ELam(<<>>, EAsg(m, ENum(5)))), "") : n \in Vars, m \in Vars}              \* assignment inside a body
  \cup {St(ECall(EId(n), <<>>), "") : n \in Vars}
  \cup {St(EId(n), n) : n \in Vars}                                                          \* output n
  \cup {St(EAsg(n, ENum(k)), n) : n \in Vars, k \in {3}}                                     \* output n = 3
  \cup {St(EBin("via", EList(<<N1, ENum(2)>>), ELam(<<Req(n)>>, EId(n))), "") : n \in Vars}
  \cup {St(Plus(EId(n), N1), "") : n \in Vars}
  \cup {St(EDo(<<EAsg(m, EId(n))>>, ENum(0)), "") : n \in Vars, m \in Vars}
  \cup {St(EAsg(n, ECall(EId("max"), <<EAsg(m, ENum(3)), N1>>)), "") : n \in Vars, m \in Vars}   \* n = max(m = 3, 1), incl. n = m: the call is the whole right-hand side
  \cup {St(EAsg(n, ECall(ELam(<<Req("x")>>, EId("x")), <<EAsg(m, ENum(3))>>)), "") : n \in Vars, m \in Vars}
  \cup {St(ECall(ELam(<<>>, EAsg(n, ENum(4))), <<>>), "") : n \in Vars}                          \* (() => n = 4)(): nothing to bind but the body's own name
  \cup {St(ECall(ELam(<<>>, Plus(EAsg(n, ENum(4)), EId(m))), <<>>), "") : n \in Vars, m \in Vars}  \* the same, capturing m
  \cup {St(ECall(EDot(ERec(<<RStatic(<<12>>, ELam(<<>>, EAsg(n, ENum(0))))>>), <<12>>), <<>>), "") : n \in Vars}   \* {a: () => n = 0}.a()
  \cup {St(EDo(<<>>, EAsg(n, ENum(9))), "") : n \in Vars}                                    \* do { return n = 9 }: a block without statements
  \cup {St(EAsg(n, EDo(<<>>, EAsg(m, ENum(8)))), "") : n \in Vars, m \in Vars}               \* n = do { return m = 8 }
  \cup {St(EAsg(n, EDo(<<EAsg(m, ENum(6))>>, EAsg(m, Plus(EId(m), N1)))), "") : n \in Vars, m \in Vars}
  \cup {St(EDo(<<>>, EDo(<<>>, EAsg(n, ENum(4)))), "") : n \in Vars}
  \cup {St(ECall(ELam(<<>>, EDo(<<>>, EAsg(n, ENum(4)))), <<>>), "") : n \in Vars}            \* a block as the whole function body
Stmts == CASE Alphabet = "fn" -> FnStmts [] Alphabet = "data" -> DataStmts [] OTHER -> AllStmts

Init == SInit
\* in the function alphabet the last statement of a behaviour is an observation (a call): the other last statements add
\* nothing to what their prefixes already show
FnObs == {St(ECall(EId(n), <<ENum(2)>>), "") : n \in Vars} \cup {St(EDo(<<EAsg(m, ENum(50))>>, ECall(EId(n), <<ENum(2)>>)), "") : n \in Vars, m \in Vars}
Next == \E st \in Stmts : (Len(hist) < SDepth) /\ ((Alphabet = "fn" /\ Len(hist) = SDepth - 1) => (st \in FnObs)) /\ Do(st)
Spec == Init /\ [][Next]_svars

EmitDone == Len(hist) = SDepth => PrintT(<<"CASE", ToJson([steps |-> hist, outs |-> outs])>>)
=============================================================================
