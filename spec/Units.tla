-------------------------------- MODULE Units --------------------------------
(***************************************************************************)
(* Unit identifiers and their resolution (property C17), stated over the   *)
(* unit table exported from the working tree (NDJSON, one unit per line,   *)
(* path in the environment variable UNITS): a sequence of                  *)
(*   [cat, ids, lids, kind, digits, exp10]                                 *)
(* (category, identifiers, the same lower-cased, conversion kind, and the  *)
(* coefficient as its shortest decimal: digit string and power of ten).    *)
(*   Resolve(id, lid) = the unit listed with exactly id if there is one    *)
(* such unit; "ambiguous" (-1) if several; else the unit with a            *)
(* case-insensitive match if unique; -1 if several; "unknown" (0) if none. *)
(* lid is id lower-cased (done outside: TLC has no character operations).  *)
(***************************************************************************)
EXTENDS Naturals, Integers, Sequences, FiniteSets, Json, IOUtils

Table == ndJsonDeserialize(IOEnv.UNITS)

N == Len(Table)
Has(seq, x) == \E i \in 1..Len(seq) : seq[i] = x
ExactMatches(id) == {u \in 1..N : Has(Table[u].ids, id)}
CaseMatches(lid) == {u \in 1..N : Has(Table[u].lids, lid)}
Resolve(id, lid) == LET ex == ExactMatches(id)  cs == CaseMatches(lid) IN
               IF Cardinality(ex) = 1 THEN CHOOSE u \in ex : TRUE
               ELSE IF Cardinality(ex) > 1 THEN -1                       \* ambiguous
               ELSE IF Cardinality(cs) = 1 THEN CHOOSE u \in cs : TRUE
               ELSE IF Cardinality(cs) > 1 THEN -1
               ELSE 0                                                    \* unknown
Convertible(u1, u2) == Table[u1].cat = Table[u2].cat

\* ------------------------------------------------------------------ laws of C17 on the table
\* every listed identifier resolves to its own unit
ListedResolves(u, i) == Resolve(Table[u].ids[i], Table[u].lids[i]) = u
\* all identifiers of a unit behave identically
AliasesAgree(u) == \A i, j \in 1..Len(Table[u].ids) :
                      Resolve(Table[u].ids[i], Table[u].lids[i]) = Resolve(Table[u].ids[j], Table[u].lids[j])
\* a case variant resolves iff it is unambiguous, and then to the unit that lists it
CaseVariantLaw(v, lv) == LET cs == CaseMatches(lv)  ex == ExactMatches(v) IN
                     /\ (Cardinality(ex) = 0 /\ Cardinality(cs) = 1) => Resolve(v, lv) \in cs
                     /\ (Cardinality(ex) = 0 /\ Cardinality(cs) > 1) => Resolve(v, lv) = -1
                     /\ (Cardinality(ex) = 0 /\ Cardinality(cs) = 0) => Resolve(v, lv) = 0
\* metric prefixes: <prefix><base name> has the base's digits and an exponent shifted by the prefix's power
Prefixes == <<[p |-> "yotta", e |-> 24], [p |-> "zetta", e |-> 21], [p |-> "exa", e |-> 18], [p |-> "peta", e |-> 15],
              [p |-> "tera", e |-> 12], [p |-> "giga", e |-> 9], [p |-> "mega", e |-> 6], [p |-> "kilo", e |-> 3],
              [p |-> "hecto", e |-> 2], [p |-> "deca", e |-> 1], [p |-> "deka", e |-> 1], [p |-> "deci", e |-> -1],
              [p |-> "centi", e |-> -2], [p |-> "milli", e |-> -3], [p |-> "micro", e |-> -6], [p |-> "nano", e |-> -9],
              [p |-> "pico", e |-> -12], [p |-> "femto", e |-> -15]>>
PrefixLaw(u, b, k) ==   \* unit u is Prefixes[k] applied to base unit b (decided by the harness from the names)
  (Table[u].kind = "linear" /\ Table[b].kind = "linear") =>
     /\ Table[u].cat = Table[b].cat
     /\ Table[u].digits = Table[b].digits
     /\ Table[u].exp10 = Table[b].exp10 + Prefixes[k].e
=============================================================================
