--------------------------------- MODULE Cli ---------------------------------
(***************************************************************************)
(* One invocation of the blots CLI as a state machine (property C19).      *)
(*                                                                         *)
(*   phase "merge" : the input sources are consumed left to right - piped  *)
(*                   stdin first, then every --input flag - one per step   *)
(*                   (MergeSource); an object's keys override earlier      *)
(*                   ones, any other JSON value is named value_1, value_2, *)
(*                   ... in order of appearance; invalid JSON ends the run *)
(*   phase "parse" : the whole script is parsed; a parse error anywhere    *)
(*                   means no statement runs                               *)
(*   phase "exec"  : one statement per step (ExecStmt); the first failing  *)
(*                   statement ends the run                                *)
(*   phase "done"  : exit status and (iff it is 0) exactly one outputs     *)
(*                   object: declared names in declaration order, each     *)
(*                   with the value the name had at its declaration        *)
(***************************************************************************)
EXTENDS Naturals, Integers, Sequences, FiniteSets, TLC

CONSTANTS MaxSources, MaxStmts

\* ------------------------------------------------------------------ values (JSON-like)
NullV == [t |-> "null"]
IntV(i) == [t |-> "int", v |-> i]
StrV(s) == [t |-> "str", s |-> s]
ListV(xs) == [t |-> "list", xs |-> xs]
Unb == [t |-> "unb"]
FnV == [t |-> "fn"]

\* ------------------------------------------------------------------ input sources
Obj(ks, vs) == [k |-> "obj", ks |-> ks, vs |-> vs]
Val(v) == [k |-> "val", v |-> v]
Bad == [k |-> "bad"]
SourcePool == {Obj(<<"a">>, <<IntV(1)>>), Obj(<<"a", "b">>, <<IntV(2), IntV(3)>>), Obj(<<"b">>, <<StrV("s")>>), Obj(<<>>, <<>>),
               Obj(<<"a">>, <<NullV>>),                  \* a later null overrides an earlier value like any other value
               Obj(<<"value_1">>, <<StrV("n")>>),        \* an object key spelled like the name an unnamed value gets: later sources still win, by order of appearance
               Obj(<<"__blots_function">>, <<StrV("sum")>>),   \* at the top level an object is a set of named inputs whatever its keys are called
               Val(IntV(7)), Val(StrV("t")), Val(ListV(<<IntV(1)>>)), Val(NullV), Bad}
InputNames == {"a", "b", "value_1", "value_2", "value_3", "zz", "__blots_function"}

\* ------------------------------------------------------------------ statements
\* kinds: outin(n, key): output n = inputs.key     outref(n, key): output n = #key
\*        bind(n, v): n = v                        out(n): output n
\*        outlit(n, v): output n = v               evalerr: w = nosuch
\*        parseerr: output = 3                     nonportable: output f = x => x + q
\*        refs(n): output n = [#a, inputs.a, #zz, inputs.zz]
\*        refsdo(n): output n = do { inputs = {a: 9}  return [#a, inputs.a, #zz] }      (a block-local `inputs`)
\*        refsfn(n): output n = (inputs => [#a, inputs.a, #zz])({a: 9})                (a parameter named `inputs`)
S(k, n, x) == [k |-> k, n |-> n, x |-> x]
StmtPool == {S("outin", "x", "a"), S("outin", "y", "b"), S("outref", "z", "b"), S("outin", "v", "value_1"), S("outref", "u", "value_2"),
             S("bind", "y", 5), S("bind", "x", 6), S("out", "y", 0), S("out", "x", 0), S("outlit", "x", 1), S("outlit", "w", 2),
             S("evalerr", "", 0), S("parseerr", "", 0), S("nonportable", "f", 0), S("refs", "r", 0), S("plain", "", 0),
             S("refsdo", "r", 0), S("refsfn", "v", 0), S("outin", "w", "__blots_function")}
OutNames == {"x", "y", "z", "v", "u", "w", "f", "r"}
Modes == {"inline", "file", "evaluate", "outfile"}

VARIABLES mode, stdin, flags, script,       \* the invocation (chosen at Init, never changes)
          phase, pos, inputs, unnamed,       \* merge / exec progress; inputs: InputNames -> value or Unb
          env, outs, exit
cvars == <<mode, stdin, flags, script>>
vars == <<mode, stdin, flags, script, phase, pos, inputs, unnamed, env, outs, exit>>

NoInputs == [n \in InputNames |-> Unb]
NoEnv == [n \in OutNames |-> Unb]
\* in --evaluate mode stdin carries the program, not inputs
Sources == (IF mode = "evaluate" \/ stdin = <<>> THEN <<>> ELSE stdin) \o flags

Init == /\ mode \in Modes
        /\ stdin \in {<<>>} \cup {<<s>> : s \in SourcePool}
        /\ flags \in UNION {[1..n -> SourcePool] : n \in 0..MaxSources}
        /\ script \in UNION {[1..n -> StmtPool] : n \in 0..MaxStmts}
        /\ phase = "merge" /\ pos = 1 /\ inputs = NoInputs /\ unnamed = 0
        /\ env = NoEnv /\ outs = <<>> /\ exit = -1

RECURSIVE MergeObj(_, _, _)
MergeObj(inp, ks, vs) == IF ks = <<>> THEN inp ELSE MergeObj([inp EXCEPT ![Head(ks)] = Head(vs)], Tail(ks), Tail(vs))
ValueName(i) == CASE i = 1 -> "value_1" [] i = 2 -> "value_2" [] OTHER -> "value_3"

MergeSource ==
  /\ phase = "merge" /\ pos <= Len(Sources)
  /\ LET s == Sources[pos] IN
     CASE s.k = "bad" -> /\ phase' = "done" /\ exit' = 1 /\ UNCHANGED <<inputs, unnamed, pos>>
       [] s.k = "obj" -> /\ inputs' = MergeObj(inputs, s.ks, s.vs) /\ pos' = pos + 1 /\ UNCHANGED <<phase, exit, unnamed>>
       [] s.k = "val" -> /\ inputs' = [inputs EXCEPT ![ValueName(unnamed + 1)] = s.v] /\ unnamed' = unnamed + 1
                         /\ pos' = pos + 1 /\ UNCHANGED <<phase, exit>>
  /\ UNCHANGED <<cvars, env, outs>>
MergeDone ==
  /\ phase = "merge" /\ pos > Len(Sources)
  /\ phase' = "parse" /\ pos' = 1
  /\ UNCHANGED <<cvars, inputs, unnamed, env, outs, exit>>
Parse ==
  /\ phase = "parse"
  /\ IF \E i \in 1..Len(script) : script[i].k = "parseerr"
     THEN phase' = "done" /\ exit' = 1
     ELSE phase' = "exec" /\ exit' = exit
  /\ UNCHANGED <<cvars, pos, inputs, unnamed, env, outs>>

In(key) == IF key \in InputNames /\ inputs[key] # Unb THEN inputs[key] ELSE NullV
\* effect of one statement: [ok, env, outs]
Effect(st) ==
  LET bound(n) == env[n] # Unb
      bindout(n, v) == IF bound(n) THEN [ok |-> FALSE, env |-> env, outs |-> outs]
                       ELSE [ok |-> TRUE, env |-> [env EXCEPT ![n] = v], outs |-> Append(outs, <<n, v>>)] IN
  CASE st.k = "outin"  -> bindout(st.n, In(st.x))
    [] st.k = "outref" -> bindout(st.n, In(st.x))                    \* #name always equals inputs.name
    [] st.k = "outlit" -> bindout(st.n, IntV(st.x))
    [] st.k = "refs"   -> bindout(st.n, ListV(<<In("a"), In("a"), In("zz"), In("zz")>>))
    \* #name is inputs.name for whatever `inputs` means at that place
    [] st.k \in {"refsdo", "refsfn"} -> bindout(st.n, ListV(<<IntV(9), IntV(9), NullV>>))
    [] st.k = "bind"   -> IF bound(st.n) THEN [ok |-> FALSE, env |-> env, outs |-> outs]
                          ELSE [ok |-> TRUE, env |-> [env EXCEPT ![st.n] = IntV(st.x)], outs |-> outs]
    [] st.k = "out"    -> IF bound(st.n) THEN [ok |-> TRUE, env |-> env, outs |-> Append(outs, <<st.n, env[st.n]>>)]
                          ELSE [ok |-> FALSE, env |-> env, outs |-> outs]
    [] st.k = "evalerr" -> [ok |-> FALSE, env |-> env, outs |-> outs]
    [] st.k = "nonportable" -> [ok |-> FALSE, env |-> env, outs |-> outs]
    [] st.k = "plain"  -> [ok |-> TRUE, env |-> env, outs |-> outs]
ExecStmt ==
  /\ phase = "exec" /\ pos <= Len(script)
  /\ LET x == Effect(script[pos]) IN
     /\ env' = x.env /\ outs' = x.outs
     /\ IF x.ok THEN pos' = pos + 1 /\ UNCHANGED <<phase, exit>>
        ELSE phase' = "done" /\ exit' = 1 /\ UNCHANGED pos
  /\ UNCHANGED <<cvars, inputs, unnamed>>
Finish ==
  /\ phase = "exec" /\ pos > Len(script)
  /\ phase' = "done" /\ exit' = 0
  /\ UNCHANGED <<cvars, pos, inputs, unnamed, env, outs>>

Next == MergeSource \/ MergeDone \/ Parse \/ ExecStmt \/ Finish \/ (phase = "done" /\ UNCHANGED vars)
Spec == Init /\ [][Next]_vars

\* ------------------------------------------------------------------ what the CLI shows
\* the outputs object: first declaration fixes the position of a key
RECURSIVE Dedup(_, _)
Dedup(os, acc) == IF os = <<>> THEN acc
                  ELSE IF \E i \in 1..Len(acc) : acc[i][1] = Head(os)[1] THEN Dedup(Tail(os), acc)
                  ELSE Dedup(Tail(os), Append(acc, Head(os)))
Object == Dedup(outs, <<>>)

\* ------------------------------------------------------------------ invariants
TypeOK == phase \in {"merge", "parse", "exec", "done"} /\ exit \in {-1, 0, 1}
ExitOnlyWhenDone == (exit # -1) <=> (phase = "done")
\* exit 0 iff every source was valid JSON, the script parsed and every statement succeeded
ExitZeroIff == phase = "done" =>
   ((exit = 0) <=> /\ \A i \in 1..Len(Sources) : Sources[i].k # "bad"
                   /\ pos = Len(script) + 1)
\* immutability seen through outputs: an emitted name has one value
OutputsFunctional == \A i, j \in 1..Len(outs) : outs[i][1] = outs[j][1] => outs[i][2] = outs[j][2]
\* later sources override earlier ones, key by key; the k-th unnamed value writes the key value_k - also when an object
\* source has a key of that very name: order of appearance decides, nothing is renamed
Vals == {i \in 1..Len(Sources) : Sources[i].k = "val"}
Writes(i, key) == \/ Sources[i].k = "obj" /\ \E j \in 1..Len(Sources[i].ks) : Sources[i].ks[j] = key
                  \/ Sources[i].k = "val" /\ ValueName(Cardinality({j \in Vals : j <= i})) = key
Written(i, key) == IF Sources[i].k = "val" THEN Sources[i].v
                   ELSE Sources[i].vs[CHOOSE j \in 1..Len(Sources[i].ks) : Sources[i].ks[j] = key]
MergeLaw == phase # "merge" /\ exit # 1 =>
   \A key \in InputNames :
      LET idx == {i \in 1..Len(Sources) : Writes(i, key)} IN
      IF idx = {} THEN inputs[key] = Unb
      ELSE inputs[key] = Written(CHOOSE i \in idx : \A j \in idx : j <= i, key)
UnnamedLaw == phase # "merge" /\ exit # 1 => unnamed = Cardinality(Vals)
=============================================================================
