------------------------------ MODULE CallDepth ------------------------------
(***************************************************************************)
(* The call-depth guard and the native stack (property C18).               *)
(*                                                                         *)
(* A recursive program shape s descends one level per step.  Per level the *)
(* evaluator's call depth grows by Inc[s] (1 for direct / mutual / via /   *)
(* where / into recursion, 3 through a higher-order built-in: the built-in *)
(* is called at d+1 and calls its callback at d+2, whose body runs at d+3) *)
(* and the native stack by Cost[s] KiB (measured on the optimised build    *)
(* with the call hook, rounded up).  A call entered with depth > Limit     *)
(* trips the guard; a stack above StackKiB is an overflow (a crash).       *)
(*   Descend   - one more level of recursion                               *)
(*   GuardTrip - the guard fires: the run ends with the depth error        *)
(*   Overflow  - the native stack is exhausted first: the process dies     *)
(* C18: Overflow is never enabled before GuardTrip (GuardBeforeOverflow),  *)
(* and a recursion of a few hundred levels reaches neither (Completes).    *)
(***************************************************************************)
EXTENDS Naturals, Integers, Sequences, TLC

CONSTANTS Shapes,       \* set of shape names
          Inc,          \* [Shapes -> 1..3] call-depth units per level
          Cost,         \* [Shapes -> Nat]  KiB of native stack per level
          Base,         \* KiB used before the recursion starts
          Limit,        \* 1000
          StackKiB      \* native stack available to evaluation

VARIABLES shape, level, depth, stack, status
vars == <<shape, level, depth, stack, status>>

Init == /\ shape \in Shapes /\ level = 0 /\ depth = 0 /\ stack = Base /\ status = "running"

\* the call at the next level is entered with the current depth; it trips iff that depth exceeds the limit
Descend ==
  /\ status = "running" /\ depth <= Limit /\ stack + Cost[shape] <= StackKiB
  /\ level' = level + 1 /\ depth' = depth + Inc[shape] /\ stack' = stack + Cost[shape]
  /\ UNCHANGED <<shape, status>>
GuardTrip ==
  /\ status = "running" /\ depth > Limit
  /\ status' = "guard" /\ UNCHANGED <<shape, level, depth, stack>>
Overflow ==
  /\ status = "running" /\ depth <= Limit /\ stack + Cost[shape] > StackKiB
  /\ status' = "overflow" /\ UNCHANGED <<shape, level, depth, stack>>
Next == Descend \/ GuardTrip \/ Overflow \/ (status # "running" /\ UNCHANGED vars)
Spec == Init /\ [][Next]_vars

TypeOK == /\ level \in Nat /\ depth \in Nat /\ stack \in Nat /\ status \in {"running", "guard", "overflow"}
DepthIsLevels == depth = level * Inc[shape] /\ stack = Base + level * Cost[shape]
GuardBeforeOverflow == status # "overflow"
\* the guard fires at the first level whose entry depth exceeds the limit
GuardAtLimit == status = "guard" => (depth > Limit /\ depth - Inc[shape] <= Limit)
\* recursion a few hundred calls deep is far from both limits
Completes == level = 300 => (status = "running" /\ depth <= Limit /\ stack <= StackKiB)
\* inductive form of the safety argument (checked by TLC here; by Apalache in spec/CallDepthInd.tla)
IndInv == /\ TypeOK /\ DepthIsLevels
          /\ status = "running" => depth <= Limit + Inc[shape]
=============================================================================
