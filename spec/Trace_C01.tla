------------------------------ MODULE Trace_C01 ------------------------------
(***************************************************************************)
(* Trace validation for C01: the stage events recorded while the real code *)
(* processed an input (a built-in call on boundary arguments, a token      *)
(* string, a corpus-mutated / random / deeply nested text, optionally with *)
(* a JSON input document) are replayed through the Pipeline machine.  An   *)
(* event is accepted iff it is an enabled action of the machine: its stage *)
(* may run now, its outcome is ok or err (a panic, abort, hang or crash of *)
(* the worker process is none of them), and a reported location lies       *)
(* inside the text it refers to, on character boundaries.                  *)
(***************************************************************************)
EXTENDS Pipeline, Json, IOUtils

Events == ndJsonDeserialize(IOEnv.TRACE)
VARIABLES l, bad
tvars == <<l, bad, st, last, textlen>>

Accept(e) == /\ e.stage \in Stages /\ e.outcome \in Outcomes
             /\ e.boundary_ok
             /\ (e.located => (e.outcome = "err" /\ 0 <= e.start /\ e.start <= e.end /\ e.end <= e.textlen))
             /\ (e.stage \in ChainSet => Enabled(e.stage))

TInit == l = 1 /\ bad = <<>> /\ st = [s \in ChainSet |-> "none"] /\ last = NoEvent /\ textlen = 0
Reset == /\ l <= Len(Events) /\ Events[l].ev = "reset"
         /\ st' = [s \in ChainSet |-> "none"] /\ last' = NoEvent /\ l' = l + 1 /\ UNCHANGED <<bad, textlen>>
Stage == /\ l <= Len(Events) /\ Events[l].ev = "stage"
         /\ LET e == Events[l] IN
            /\ bad' = IF Accept(e) THEN bad ELSE Append(bad, l)
            /\ st' = IF e.stage \in ChainSet /\ e.outcome \in Outcomes THEN Set(e.stage, e.outcome) ELSE st
            /\ last' = Ev(e.stage, e.outcome, e.located, e.start, e.end)
         /\ l' = l + 1 /\ UNCHANGED textlen
TraceSpec == TInit /\ [][Reset \/ Stage]_tvars
Final == (l = Len(Events) + 1) => PrintT(<<"TRACE_RESULT", ToJson([consumed |-> l - 1, bad |-> bad])>>)
=============================================================================
