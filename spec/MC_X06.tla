------------------------------- MODULE MC_X06 -------------------------------
(* X06: every interactive session of up to Depth typed lines over Alphabet (plus end of input), each with the response the   *)
(* REPL machine of Repl.tla gives to every line; emitted one behaviour per finished session for replay against the real CLI *)
(* running under a pseudo-terminal.  hist / resps are history variables: one state per session prefix.                       *)
EXTENDS Repl, TLC, Json
CONSTANTS Depth, Alphabet
VARIABLES hist, resps
mvars == <<vars, hist, resps>>
MInit == Init /\ hist = <<>> /\ resps = <<>>
MNext == /\ ~done /\ Len(hist) < Depth
         /\ \/ \E l \in Alphabet : Type(l) /\ hist' = Append(hist, l) /\ resps' = Append(resps, resp')
            \/ Eof /\ hist' = Append(hist, "eof") /\ resps' = Append(resps, resp')
MSpec == MInit /\ [][MNext]_mvars
Finished == done \/ Len(hist) = Depth
TextOf(l) == IF l = "eof" THEN "" ELSE LineText[l]
OutsJson(o) == [i \in 1..Len(o) |-> [n |-> o[i][1], v |-> o[i][2]]]
RespJson(r) == IF r.k = "exit" THEN [k |-> "exit", outs |-> OutsJson(r.v)] ELSE r
Emit == Finished => PrintT(<<"CASE", ToJson([lines |-> hist, texts |-> [i \in 1..Len(hist) |-> TextOf(hist[i])],
                                             resps |-> [i \in 1..Len(resps) |-> RespJson(resps[i])],
                                             done |-> done, continuing |-> acc # <<>>, outs |-> OutsJson(outs)])>>)
=============================================================================
