------------------------------ MODULE Trace_C16 ------------------------------
(***************************************************************************)
(* Trace validation for C16.                                               *)
(*  rt  - a double (by bit pattern) went through a textual path of the     *)
(*        real code (to_string / to_number, JSON out / in, function-source *)
(*        emission, the formatter, two real CLI processes); the double     *)
(*        that came back must be identical, and on the source paths the    *)
(*        text must be a literal of the documented grammar (LitAccepts);   *)
(*  lit - a random long literal (multi-group underscores, 17+ digits,      *)
(*        exponents to +-330, 0x to 24 digits, 0b to 80) parsed by the     *)
(*        real parser: it must be accepted iff the automaton accepts, and  *)
(*        the automaton's exact value is printed for the nearest-double    *)
(*        check done outside (TLC has no floating point).                  *)
(***************************************************************************)
EXTENDS Numerals, TLC, Json, IOUtils

Events == ndJsonDeserialize(IOEnv.TRACE)
VARIABLES l, bad
vars == <<l, bad>>

RtOk(e) == /\ e.out = e.in
           /\ (e.literal => LitAccepts(e.cs))
LitOk(e) == LET s == LitRun(LitInit, e.cs) IN
            /\ LitAccepting(s)
            /\ PrintT(<<"VALUE", ToJson([i |-> l, mant |-> s.mant, scale |-> LitScale(s), radix |-> s.radix])>>)
EventOk(e) == CASE e.ev = "rt" -> RtOk(e) [] e.ev = "lit" -> LitOk(e) [] OTHER -> FALSE

Init == l = 1 /\ bad = <<>>
Step == /\ l <= Len(Events)
        /\ bad' = IF EventOk(Events[l]) THEN bad ELSE Append(bad, l)
        /\ l' = l + 1
TraceSpec == Init /\ [][Step]_vars
Final == (l = Len(Events) + 1) => PrintT(<<"TRACE_RESULT", ToJson([consumed |-> l - 1, bad |-> bad])>>)
=============================================================================
