------------------------------ MODULE Trace_C11 ------------------------------
(***************************************************************************)
(* Trace validation for C11.  Events recorded from the real evaluator:     *)
(*  bcast  - a broadcast over scalar elements together with the outcome of *)
(*           each element operation evaluated on its own by the real       *)
(*           evaluator; the law relates the two (numbers are opaque);      *)
(*  scalar - one scalar operation on model-vocabulary operands, recomputed *)
(*           with ElemOp;                                                  *)
(*  alg    - an algebraic identity on arbitrary doubles, judged as         *)
(*           identity of the two observed values.                          *)
(***************************************************************************)
EXTENDS BlotsOps, TLC, Json, IOUtils

Events == ndJsonDeserialize(IOEnv.TRACE)
VARIABLES l, bad
vars == <<l, bad>>

BcastOk(e) ==
  IF e.shape = "ll" /\ e.llen # e.rlen THEN IsErr(e.res)
  ELSE IF \E i \in 1..Len(e.elems) : IsErr(e.elems[i]) THEN IsErr(e.res)
  ELSE /\ Len(e.elems) = e.llen
       /\ e.res = List(e.elems)

ScalarOk(e) == LET x == ElemOp(e.op, e.a, e.b) IN
               IF x = Unk THEN IsNum(e.res) ELSE e.res = x

AlgOk(e) == e.lhs = e.rhs /\ e.lhs.t \in {"num", "bool", "err"}

\* the IEEE-754 result of the host for one arithmetic operator on two doubles (bit patterns as text), the same in the scalar form
\* and in every broadcast form
IeeeOk(e) == e.scalar = e.want /\ e.list_scalar = e.want /\ e.scalar_list = e.want /\ e.list_list = e.want
EventOk(e) == CASE e.ev = "bcast"  -> BcastOk(e)
                [] e.ev = "scalar" -> ScalarOk(e)
                [] e.ev = "alg"    -> AlgOk(e)
                [] e.ev = "ieee"   -> IeeeOk(e)
                [] OTHER -> FALSE

Init == l = 1 /\ bad = <<>>
Step == /\ l <= Len(Events)
        /\ bad' = IF EventOk(Events[l]) THEN bad ELSE Append(bad, l)
        /\ l' = l + 1
TraceSpec == Init /\ [][Step]_vars
Final == (l = Len(Events) + 1) => PrintT(<<"TRACE_RESULT", ToJson([consumed |-> l - 1, bad |-> bad])>>)
=============================================================================
