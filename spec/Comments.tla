------------------------------ MODULE Comments ------------------------------
(***************************************************************************)
(* The comment-attachment state machine of the parser and the emission of  *)
(* the formatter, for one container (list, record, do-block) or for the    *)
(* top level of a program.                                                 *)
(*                                                                         *)
(* A source is a sequence of slots:                                        *)
(*    "c"  a comment on a line of its own                                  *)
(*    "i"  an item (list item, record entry, do-statement, statement)      *)
(*    "s"  a comment on the same line, right after the preceding item      *)
(*         (after its comma when the item is not the last one)             *)
(* The parser walks the slots keeping a `pending` list                     *)
(* (expressions.rs: Rule::list / Rule::record / Rule::do_block) - one      *)
(* action per slot - and the formatter then emits leading comments, the    *)
(* item and its trailing comments (formatter.rs).  C09 demands that the    *)
(* emitted comment sequence equals the source's; C08 that parsing the      *)
(* emission again and emitting gives the same emission.                    *)
(***************************************************************************)
EXTENDS Naturals, Sequences, FiniteSets

CONSTANTS Kind,      \* "list" | "rec" | "do" | "top"
          MaxItems, MaxSlots

Slots == {"c", "i", "s"}
\* well-formed sources: "s" only directly after an item; bounded items and length; a do-block's last item is the return
WellFormed(src) ==
  /\ \A p \in 1..Len(src) : src[p] = "s" => (p > 1 /\ src[p - 1] = "i")
  /\ Cardinality({p \in 1..Len(src) : src[p] = "i"}) <= MaxItems
  /\ \A p \in 1..(Len(src) - 2) : ~(src[p] = "c" /\ src[p + 1] = "c" /\ src[p + 2] = "c")
  /\ (Kind = "do") => (\E p \in 1..Len(src) : src[p] = "i" /\ \A q \in (p + 1)..Len(src) : src[q] # "i")
  /\ (Kind = "do") => (src # <<>> /\ src[Len(src)] = "i")        \* nothing may follow `return e` inside the block
Sources == {src \in UNION {[1..n -> Slots] : n \in 0..MaxSlots} : WellFormed(src)}

\* comment identities: the p-th slot that is a comment carries number = its rank among comments
CommentNo(src, p) == Cardinality({q \in 1..p : src[q] # "i"})
ItemNo(src, p)    == Cardinality({q \in 1..p : src[q] = "i"})
NItems(src)       == Cardinality({p \in 1..Len(src) : src[p] = "i"})
NComments(src)    == Cardinality({p \in 1..Len(src) : src[p] # "i"})
IsLastItem(src, p) == src[p] = "i" /\ ItemNo(src, p) = NItems(src)

VARIABLES src, pos, pending, elems, lost, phase, out
vars == <<src, pos, pending, elems, lost, phase, out>>

Elem(lead, trail) == [lead |-> lead, trail |-> trail]

Init == /\ src \in Sources
        /\ pos = 1 /\ pending = <<>> /\ elems = <<>> /\ lost = <<>> /\ phase = "attach" /\ out = <<>>

\* a comment on its own line: remembered until the next item
ReadComment ==
  /\ phase = "attach" /\ pos <= Len(src) /\ src[pos] = "c"
  /\ pending' = Append(pending, CommentNo(src, pos))
  /\ pos' = pos + 1
  /\ UNCHANGED <<src, elems, lost, phase, out>>

\* an item takes the pending comments as its leading comments
ReadItem ==
  /\ phase = "attach" /\ pos <= Len(src) /\ src[pos] = "i"
  /\ elems' = Append(elems, Elem(pending, <<>>))
  /\ pending' = <<>>
  /\ pos' = pos + 1
  /\ UNCHANGED <<src, lost, phase, out>>

\* a same-line comment: after the LAST item (no comma follows) it is the item's end-of-line comment;
\* after a comma it is an ordinary comment for the grammar, i.e. pending for the next item.
\* At top level and in do-blocks every statement may carry its own end-of-line comment.
ReadSameLine ==
  /\ phase = "attach" /\ pos <= Len(src) /\ src[pos] = "s"
  /\ IF Kind \in {"top", "do"} \/ IsLastItem(src, pos - 1)
     THEN /\ elems' = [elems EXCEPT ![Len(elems)].trail = Append(@, CommentNo(src, pos))]
          /\ UNCHANGED pending
     ELSE /\ pending' = Append(pending, CommentNo(src, pos))
          /\ UNCHANGED elems
  /\ pos' = pos + 1
  /\ UNCHANGED <<src, lost, phase, out>>

\* end of the container: left-over comments go to the last item - or nowhere if there is none
Finish ==
  /\ phase = "attach" /\ pos > Len(src)
  /\ IF pending = <<>> THEN UNCHANGED <<elems, lost>>
     ELSE IF elems # <<>> THEN /\ elems' = [elems EXCEPT ![Len(elems)].trail = @ \o pending]
                               /\ UNCHANGED lost
     ELSE /\ lost' = pending /\ UNCHANGED elems
  /\ pending' = <<>>
  /\ phase' = "emit"
  /\ UNCHANGED <<src, pos, out>>

RECURSIVE EmitElems(_, _)
EmitElems(es, n) == IF es = <<>> THEN <<>>
                    ELSE [j \in 1..Len(es[1].lead) |-> [s |-> "c", k |-> es[1].lead[j]]]
                         \o <<[s |-> "i", k |-> n]>>
                         \o [j \in 1..Len(es[1].trail) |-> [s |-> (IF j = 1 THEN "s" ELSE "c"), k |-> es[1].trail[j]]]
                         \o EmitElems(Tail(es), n + 1)
Emit ==
  /\ phase = "emit"
  /\ out' = EmitElems(elems, 1)
  /\ phase' = "done"
  /\ UNCHANGED <<src, pos, pending, elems, lost>>

Next == ReadComment \/ ReadItem \/ ReadSameLine \/ Finish \/ Emit \/ (phase = "done" /\ UNCHANGED vars)
Spec == Init /\ [][Next]_vars

\* ------------------------------------------------------------------ properties
Ks(o) == LET idx == {j \in 1..Len(o) : o[j].s # "i"} IN
         [j \in 1..Cardinality(idx) |-> o[CHOOSE p \in idx : Cardinality({q \in idx : q <= p}) = j].k]
Expected == [j \in 1..NComments(src) |-> j]
Loses == phase = "done" /\ Ks(out) # Expected

\* invariants of the machine
TypeOK == /\ pos \in 1..(Len(src) + 1)
          /\ phase \in {"attach", "emit", "done"}
NoDuplication == phase = "done" => \A i, j \in 1..Len(Ks(out)) : i # j => Ks(out)[i] # Ks(out)[j]
OrderKept     == phase = "done" => \A i, j \in 1..Len(Ks(out)) : i < j => Ks(out)[i] < Ks(out)[j]
\* every comment is, at every moment, in exactly one place: still unread, pending, attached, or lost
Conservation  == phase = "attach" =>
                   NComments(src) = Cardinality({p \in pos..Len(src) : src[p] # "i"}) + Len(pending) + Len(lost)
                                    + (LET RECURSIVE S(_) S(es) == IF es = <<>> THEN 0 ELSE Len(es[1].lead) + Len(es[1].trail) + S(Tail(es)) IN S(elems))
\* the only way this design loses a comment: a container without items
LossOnlyWhenEmpty == Loses => (elems = <<>> /\ lost = Expected)
\* C08 on the model: the emission, read again as a source, attaches to the same elements
Reattach(o) == [j \in 1..Len(o) |-> o[j].s]
=============================================================================
