------------------------------- MODULE MC_X05 -------------------------------
(* X05: trim / uppercase / lowercase on every string up to length 4 over a case-closed pool, replace on every (text, pattern, replacement) of a small universe. *)
EXTENDS BlotsStrings, TLC, Json, FiniteSets
SeqsOver(P, n) == UNION {[1..k -> P] : k \in 0..n}
TrimPool == {1, 2, 12, 6}                    \* tab space a 1
CaseStr  == {Str(s) : s \in SeqsOver({12, 15, 8, 9, 6, 2, 11}, 3)}
TrimStr  == {Str(s) : s \in SeqsOver(TrimPool, 4)}
RepText  == {Str(s) : s \in SeqsOver({12, 13}, 4)}
RepPat   == {Str(s) : s \in SeqsOver({12, 13}, 2)}
RepNew   == {Str(<<>>), Str(<<14>>), Str(<<12>>), Str(<<12, 12>>)}
NonStr   == {Null, Fin(1), List(<<>>)}
Cases == {SCall("trim", s, Null, Null) : s \in TrimStr \cup NonStr}
    \cup {SCall(f, s, Null, Null) : f \in {"uppercase", "lowercase"}, s \in CaseStr \cup NonStr}
    \cup {SCall("replace", s, p, n) : s \in RepText, p \in RepPat, n \in RepNew}
    \cup {SCall("replace", s, p, n) : s \in {Str(<<12>>), Fin(1)}, p \in {Str(<<12>>), Null}, n \in {Str(<<>>), Fin(2)}}
VARIABLE c
Init == c \in Cases
Next == UNCHANGED c
Spec == Init /\ [][Next]_c
res == SApply(c)
TrimLaws == (c.f = "trim" /\ IsStr(c.v)) => /\ SApply(SCall("trim", res, Null, Null)) = res              \* idempotent
                                              /\ (res.cs # <<>> => ~Blank(res.cs[1]) /\ ~Blank(res.cs[Len(res.cs)]))
                                              /\ \E i \in 0..Len(c.v.cs) : \E j \in 0..Len(c.v.cs) : i + j <= Len(c.v.cs) /\ res.cs = SubSeq(c.v.cs, i + 1, Len(c.v.cs) - j)
CaseLaws == (c.f \in {"uppercase", "lowercase"} /\ IsStr(c.v)) =>
   /\ Len(res.cs) = Len(c.v.cs)
   /\ SApply(SCall(c.f, res, Null, Null)) = res
   /\ SApply(SCall("lowercase", SApply(SCall("uppercase", c.v, Null, Null)), Null, Null)) = SApply(SCall("lowercase", c.v, Null, Null))
ReplaceLaws == (c.f = "replace" /\ ~(res = Err)) =>
   /\ (c.w = c.u => res = c.v)                                                    \* replacing a pattern by itself changes nothing
   /\ (c.w.cs # <<>> /\ ~\E p \in 1..Len(c.v.cs) : IsPrefix(c.w.cs, SubSeq(c.v.cs, p, Len(c.v.cs)))) => res = c.v   \* no occurrence, no change
   /\ (c.u.cs = <<>> /\ Len(c.w.cs) = 1) => \A i \in 1..Len(res.cs) : res.cs[i] # c.w.cs[1]      \* deleting a character leaves none of it
Emit == PrintT(<<"CASE", ToJson([c |-> c, exp |-> res])>>)
=============================================================================
