---------------------------- MODULE CallDepthInd ----------------------------
(***************************************************************************)
(* The CallDepth machine for one recursion shape, typed for Apalache, with *)
(* an inductive invariant: for EVERY call-depth increment 1..4, per-level  *)
(* stack cost and base usage, if the evaluator's stack holds               *)
(* (Limit / Inc + 2) levels then the guard always fires before the stack   *)
(* is exhausted (GuardBeforeOverflow), unboundedly many steps.             *)
(*   apalache-mc check --cinit=ConstInit --init=Init    --inv=IndInv --length=0 CallDepthInd.tla   (Init => IndInv)        *)
(*   apalache-mc check --cinit=ConstInit --init=IndInit --inv=IndInv --length=1 CallDepthInd.tla   (IndInv /\ Next => IndInv') *)
(*   apalache-mc check --cinit=ConstInit --init=IndInit --inv=Safe   --length=0 CallDepthInd.tla   (IndInv => Safe)        *)
(***************************************************************************)
EXTENDS Integers

CONSTANTS
    \* @type: Int;
    Inc,
    \* @type: Int;
    Cost,
    \* @type: Int;
    Base,
    \* @type: Int;
    Limit,
    \* @type: Int;
    StackKiB

VARIABLES
    \* @type: Int;
    level,
    \* @type: Int;
    depth,
    \* @type: Int;
    stack,
    \* @type: Str;
    status

\* levels until the guard: the call entered with depth > Limit trips; depth = level * Inc
MaxLevels == (Limit \div Inc) + 2
ConstInit == /\ Inc \in 1..4 /\ Cost \in 1..512 /\ Base \in 0..4096 /\ Limit = 1000
             /\ StackKiB \in Int /\ StackKiB >= Base + MaxLevels * Cost

Init == level = 0 /\ depth = 0 /\ stack = Base /\ status = "running"

Descend == /\ status = "running" /\ depth <= Limit /\ stack + Cost <= StackKiB
           /\ level' = level + 1 /\ depth' = depth + Inc /\ stack' = stack + Cost /\ status' = status
GuardTrip == /\ status = "running" /\ depth > Limit
             /\ status' = "guard" /\ UNCHANGED <<level, depth, stack>>
Overflow == /\ status = "running" /\ depth <= Limit /\ stack + Cost > StackKiB
            /\ status' = "overflow" /\ UNCHANGED <<level, depth, stack>>
Stutter == UNCHANGED <<level, depth, stack, status>>
Next == Descend \/ GuardTrip \/ Overflow \/ Stutter

IndInv == /\ level >= 0 /\ level <= MaxLevels
          /\ depth = level * Inc
          /\ stack = Base + level * Cost
          /\ status \in {"running", "guard"}
          /\ (status = "running" => depth <= Limit + Inc)
IndInit == /\ level \in Int /\ depth \in Int /\ stack \in Int /\ status \in {"running", "guard", "overflow"}
           /\ IndInv
Safe == status # "overflow"
=============================================================================
