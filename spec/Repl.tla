-------------------------------- MODULE Repl --------------------------------
(***************************************************************************)
(* The interactive session of the `blots` CLI (blots/src/main.rs, the      *)
(* "REPL loop"; commands in blots/src/commands.rs).                        *)
(*                                                                         *)
(* One action per line the user types.  The loop keeps                     *)
(*   acc   - the lines accumulated so far for the statement being typed,   *)
(*   env   - the session's bindings (they survive every failure),          *)
(*   outs  - the outputs recorded so far, in order of first recording,     *)
(* and answers each line with exactly one of                               *)
(*   cont        nothing printed, the prompt becomes "... "                *)
(*   none        nothing printed, prompt "> " (an empty line)              *)
(*   help        the help text                                             *)
(*   value v     "= v"                                                     *)
(*   rec n       "[output 'n' recorded]"                                   *)
(*   valrec v n  "= v" then "[output 'n' recorded]"                        *)
(*   everr       "[evaluation error] ..."                                  *)
(*   outerr      "[output error] ..." (the value cannot be an output; a    *)
(*               binding the declaration made stays)                       *)
(*   perr        "[parse error] ..."                                       *)
(*   exit o      the outputs as one JSON object, exit status 0             *)
(*                                                                         *)
(* The code's rule for continuing a statement on the next line: the text   *)
(* accumulated so far does not parse AND it has more ( than ), or more [   *)
(* than ], or more { than }.  `help`, `quit` and `exit` are commands only  *)
(* as the first line of a statement; inside a continued statement they are *)
(* text like any other.  End of input (Ctrl-D) ends the session like quit, *)
(* also in the middle of a continued statement.                            *)
(*                                                                         *)
(* Lines are abstract: each has the counts of brackets it contributes and  *)
(* a role in the tiny grammar below, which is all the model needs to know  *)
(* about the parser (the parser itself is the subject of C07 / C10).       *)
(***************************************************************************)
EXTENDS Naturals, Sequences, FiniteSets

Unb == [t |-> "unb"]
IntV(n) == [t |-> "int", n |-> n]
ListV(xs) == [t |-> "list", xs |-> xs]
\* a function value; self-contained ones can be recorded as outputs, one that mentions an unbound name cannot
FnV(n, portable) == [t |-> "fn", n |-> n, portable |-> portable]

Names == {"x", "y", "z", "w", "f", "g", "u", "v", "c"}

\* ------------------------------------------------------------------ the line alphabet
\* text is what the conformance driver types; the model only uses the id
LineText == [bindx  |-> "x = 1",       bindx2 |-> "x = 2",  refx  |-> "x",        bindy |-> "y = x + 1",
             outx   |-> "output x",    outz   |-> "output z = x",                  blank |-> "",
             perr   |-> "= 3",         help   |-> "help",   quit  |-> "quit",     exitc |-> "exit",
             lopen  |-> "[1,",         litem  |-> "2,",     lclose |-> "3]",
             popen  |-> "w = (1 +",    pclose |-> "2)",     refw  |-> "w",        outw  |-> "output w",
             ropen  |-> "{a: 1,",      rclose |-> "b: 2}",
             outf   |-> "output f = v => v + nosuch",   outg |-> "output g = v => v + 1",
             outf2  |-> "output f",    callg  |-> "g(1)",   callf |-> "f(1)",
             nestl  |-> "v = [(u = [1, 2]), nope]",     bindc |-> "c = [7, 8, 9]",  refu |-> "u"]
AllLines == DOMAIN LineText
Commands == {"help", "quit", "exitc"}
\* statements that are complete on one line
Complete == {"bindx", "bindx2", "refx", "bindy", "outx", "outz", "blank", "refw", "outw", "outf", "outg", "outf2", "callg", "callf", "nestl", "bindc", "refu"}

Opens(l, b)  == IF (b = "(" /\ l = "popen") \/ (b = "[" /\ l = "lopen") \/ (b = "{" /\ l = "ropen") THEN 1 ELSE 0
Closes(l, b) == IF (b = ")" /\ l = "pclose") \/ (b = "]" /\ l = "lclose") \/ (b = "}" /\ l = "rclose") THEN 1 ELSE 0
RECURSIVE Count(_, _, _)
Count(acc, b, open) == IF acc = <<>> THEN 0
                       ELSE (IF open THEN Opens(Head(acc), b) ELSE Closes(Head(acc), b)) + Count(Tail(acc), b, open)
Unbalanced(acc) == \/ Count(acc, "(", TRUE) > Count(acc, ")", FALSE)
                   \/ Count(acc, "[", TRUE) > Count(acc, "]", FALSE)
                   \/ Count(acc, "{", TRUE) > Count(acc, "}", FALSE)

\* the accumulated lines form a program: one complete line, or a bracketed group closed by its own closer with
\* nothing but item lines (for the list) or empty lines in between
Middle(acc) == SubSeq(acc, 2, Len(acc) - 1)
AllIn(s, S) == \A i \in 1..Len(s) : s[i] \in S
Parses(acc) == \/ Len(acc) = 1 /\ acc[1] \in Complete
               \/ Len(acc) >= 2 /\ acc[1] = "lopen" /\ acc[Len(acc)] = "lclose" /\ AllIn(Middle(acc), {"litem", "blank"})
               \/ Len(acc) >= 2 /\ acc[1] = "popen" /\ acc[Len(acc)] = "pclose" /\ AllIn(Middle(acc), {"blank"})
               \/ Len(acc) >= 2 /\ acc[1] = "ropen" /\ acc[Len(acc)] = "rclose" /\ AllIn(Middle(acc), {"blank"})

VARIABLES acc, env, outs, resp, done
vars == <<acc, env, outs, resp, done>>

R(k) == [k |-> k]
RV(k, v) == [k |-> k, v |-> v]
RN(k, n) == [k |-> k, n |-> n]
RVN(k, v, n) == [k |-> k, v |-> v, n |-> n]

Bound(n) == env[n] # Unb
\* outputs: a sequence of <<name, value>>; recording a name again keeps its place
HasOut(n) == \E i \in 1..Len(outs) : outs[i][1] = n
Record(n, v) == IF HasOut(n) THEN [i \in 1..Len(outs) |-> IF outs[i][1] = n THEN <<n, v>> ELSE outs[i]]
                ELSE Append(outs, <<n, v>>)

Init == acc = <<>> /\ env = [n \in Names |-> Unb] /\ outs = <<>> /\ resp = R("start") /\ done = FALSE

\* ------------------------------------------------------------------ what a parsed program does
Fail == /\ resp' = R("everr") /\ UNCHANGED <<env, outs>>
Bind(n, v) == IF Bound(n) THEN Fail
              ELSE /\ env' = [env EXCEPT ![n] = v] /\ resp' = RV("value", v) /\ UNCHANGED outs
Ref(n) == IF Bound(n) THEN /\ resp' = RV("value", env[n]) /\ UNCHANGED <<env, outs>> ELSE Fail
Portable(v) == v.t # "fn" \/ v.portable
OutRef(n) == IF ~Bound(n) THEN Fail
             ELSE IF ~Portable(env[n]) THEN /\ resp' = R("outerr") /\ UNCHANGED <<env, outs>>
             ELSE /\ outs' = Record(n, env[n]) /\ resp' = RN("rec", n) /\ UNCHANGED env
OutAsg(n, ok, v) == IF Bound(n) \/ ~ok THEN Fail
                    ELSE IF ~Portable(v) THEN /\ env' = [env EXCEPT ![n] = v] /\ resp' = R("outerr") /\ UNCHANGED outs
                    ELSE /\ env' = [env EXCEPT ![n] = v] /\ outs' = Record(n, v) /\ resp' = RVN("valrec", v, n)

NItems(a) == Cardinality({i \in 1..Len(a) : a[i] = "litem"})
Exec(a) ==
  CASE a[1] = "bindx"  -> Bind("x", IntV(1))
    [] a[1] = "bindx2" -> Bind("x", IntV(2))
    [] a[1] = "refx"   -> Ref("x")
    [] a[1] = "refw"   -> Ref("w")
    [] a[1] = "bindy"  -> IF Bound("x") THEN Bind("y", IntV(env["x"].n + 1)) ELSE Fail
    [] a[1] = "outx"   -> OutRef("x")
    [] a[1] = "outw"   -> OutRef("w")
    [] a[1] = "outz"   -> OutAsg("z", Bound("x"), env["x"])
    [] a[1] = "outf"   -> OutAsg("f", TRUE, FnV("f", FALSE))
    [] a[1] = "outg"   -> OutAsg("g", TRUE, FnV("g", TRUE))
    [] a[1] = "outf2"  -> OutRef("f")
    [] a[1] = "callg"  -> IF Bound("g") THEN /\ resp' = RV("value", IntV(2)) /\ UNCHANGED <<env, outs>> ELSE Fail
    [] a[1] = "callf"  -> Fail                         \* f unbound, or its body fails on the unbound name
    \* a statement that fails after a nested assignment has been made: the nested binding stays (and keeps its value, whatever
    \* is built on the heap afterwards), nothing else happens
    [] a[1] = "nestl"  -> IF Bound("u") \/ Bound("v") THEN Fail
                          ELSE /\ env' = [env EXCEPT !["u"] = ListV(<<IntV(1), IntV(2)>>)] /\ resp' = R("everr") /\ UNCHANGED outs
    [] a[1] = "bindc"  -> Bind("c", ListV(<<IntV(7), IntV(8), IntV(9)>>))
    [] a[1] = "refu"   -> Ref("u")
    [] a[1] = "blank"  -> /\ resp' = R("none") /\ UNCHANGED <<env, outs>>
    [] a[1] = "lopen"  -> /\ resp' = RV("value", ListV(<<IntV(1)>> \o [i \in 1..NItems(a) |-> IntV(2)] \o <<IntV(3)>>))
                          /\ UNCHANGED <<env, outs>>
    [] a[1] = "popen"  -> Bind("w", IntV(3))
    [] a[1] = "ropen"  -> /\ resp' = RV("value", [t |-> "rec"]) /\ UNCHANGED <<env, outs>>

\* ------------------------------------------------------------------ the actions: one line typed, or end of input
Leave == /\ resp' = RV("exit", outs) /\ done' = TRUE /\ UNCHANGED <<acc, env, outs>>

Type(l) ==
  /\ ~done
  /\ IF acc = <<>> /\ l \in Commands
     THEN IF l = "help" THEN /\ resp' = R("help") /\ UNCHANGED <<acc, env, outs, done>>
          ELSE Leave
     ELSE LET a == Append(acc, l) IN
          IF Parses(a) THEN /\ Exec(a) /\ acc' = <<>> /\ UNCHANGED done
          ELSE IF Unbalanced(a) THEN /\ acc' = a /\ resp' = R("cont") /\ UNCHANGED <<env, outs, done>>
          ELSE /\ acc' = <<>> /\ resp' = R("perr") /\ UNCHANGED <<env, outs, done>>

Eof == ~done /\ Leave

Next == (\E l \in AllLines : Type(l)) \/ Eof
Spec == Init /\ [][Next]_vars

\* ------------------------------------------------------------------ properties of the session
TypeOK == /\ acc \in Seq(AllLines) /\ done \in BOOLEAN
          /\ \A n \in Names : env[n] = Unb \/ env[n].t \in {"int", "fn", "list"}
\* a binding made in the session is never changed or lost, whatever is typed afterwards
BindingsImmutable == [][\A n \in Names : env[n] # Unb => env'[n] = env[n]]_vars
\* recorded outputs are never dropped or reordered, and always carry the value the name is bound to
OutputsGrow == [][Len(outs') >= Len(outs) /\ \A i \in 1..Len(outs) : outs'[i][1] = outs[i][1]]_vars
OutputsAreBindings == \A i \in 1..Len(outs) : env[outs[i][1]] = outs[i][2]
\* a statement is being continued exactly when its text so far has an unclosed bracket
ContinuationIsOpenBracket == acc # <<>> => Unbalanced(acc)
\* a failed or abandoned statement leaves nothing behind
ErrorsChangeNothing == [][/\ ((resp'.k \in {"perr", "cont", "none", "help"}) => (env' = env /\ outs' = outs))
                            /\ ((resp'.k = "everr") => (outs' = outs))]_vars   \* (a failed statement may leave the bindings its nested assignments made)
\* only what can be handed to another program is ever recorded
OutputsArePortable == \A i \in 1..Len(outs) : Portable(outs[i][2])
=============================================================================
