------------------------------- MODULE Syntax -------------------------------
(***************************************************************************)
(* The expression syntax of Blots as the property C10 states it:           *)
(* the precedence table as DATA, a reference precedence-climbing parser    *)
(* over token sequences (ParseRef), a fully parenthesising printer         *)
(* (PrintFull) and a minimal one (PrintMin), and the table of optional     *)
(* layout (where spaces / line breaks / comments are admitted).            *)
(*                                                                         *)
(* The repository derives both its parser and its printer from one table   *)
(* (precedence.rs); this module is the independent statement of what that  *)
(* table must be.                                                          *)
(***************************************************************************)
EXTENDS Naturals, Integers, Sequences, FiniteSets

\* ------------------------------------------------------------------ the table (C10)
L1 == {"and", "nand", "or", "nor", "via", "into", "where"}          \* && and || or via into where
L2 == {"eq", "ne", "lt", "le", "gt", "ge", "deq", "dne", "dlt", "dle", "dgt", "dge"}
L3 == {"add", "sub"}
L4 == {"mul", "div", "mod"}
L5 == {"pow"}                                                       \* right-associative
L6 == {"coalesce"}
BinOps == L1 \cup L2 \cup L3 \cup L4 \cup L5 \cup L6
Level(o) == CASE o \in L1 -> 1 [] o \in L2 -> 2 [] o \in L3 -> 3 [] o \in L4 -> 4 [] o \in L5 -> 5 [] o \in L6 -> 6
RightAssoc(o) == o \in L5
PreOps  == {"neg", "not", "notw"}        \* -  !  not
PostOps == {"fact", "call", "idx", "dot"} \* !  (x)  [0]  .f

LBP(o)  == 10 * Level(o)
RBP(o)  == IF RightAssoc(o) THEN LBP(o) - 1 ELSE LBP(o)
PREBP   == 69        \* a prefix operator takes everything that binds tighter than every binary operator
POSTBP  == 80

\* ------------------------------------------------------------------ trees and tokens
Id(n)        == [k |-> "id", n |-> n]
Bin(o, l, r) == [k |-> "bin", o |-> o, l |-> l, r |-> r]
Un(o, e)     == [k |-> "un", o |-> o, e |-> e]
Post(o, e)   == [k |-> "post", o |-> o, e |-> e]
Fail         == [k |-> "fail"]

Tok(t, v) == [t |-> t, v |-> v]
TId(n) == Tok("id", n)   TOp(o) == Tok("op", o)   TPre(o) == Tok("pre", o)   TPost(o) == Tok("post", o)
LP == Tok("lp", "")      RP == Tok("rp", "")

\* ------------------------------------------------------------------ the reference parser
RECURSIVE Nud(_, _), Led(_, _, _, _), ExprP(_, _, _)
R(ok, tree, pos) == [ok |-> ok, tree |-> tree, pos |-> pos]
Nud(ts, i) ==
  IF i > Len(ts) THEN R(FALSE, Fail, i)
  ELSE CASE ts[i].t = "id"  -> R(TRUE, Id(ts[i].v), i + 1)
         [] ts[i].t = "pre" -> LET r == ExprP(ts, i + 1, PREBP) IN
                               IF r.ok THEN R(TRUE, Un(ts[i].v, r.tree), r.pos) ELSE r
         [] ts[i].t = "lp"  -> LET r == ExprP(ts, i + 1, 0) IN
                               IF r.ok /\ r.pos <= Len(ts) /\ ts[r.pos].t = "rp"
                               THEN R(TRUE, r.tree, r.pos + 1) ELSE R(FALSE, Fail, r.pos)
         [] OTHER -> R(FALSE, Fail, i)
Led(ts, left, i, rbp) ==
  IF i > Len(ts) THEN R(TRUE, left, i)
  ELSE CASE ts[i].t = "post" /\ POSTBP > rbp -> Led(ts, Post(ts[i].v, left), i + 1, rbp)
         [] ts[i].t = "op" /\ LBP(ts[i].v) > rbp ->
              LET r == ExprP(ts, i + 1, RBP(ts[i].v)) IN
              IF r.ok THEN Led(ts, Bin(ts[i].v, left, r.tree), r.pos, rbp) ELSE r
         [] OTHER -> R(TRUE, left, i)
ExprP(ts, i, rbp) == LET n == Nud(ts, i) IN IF n.ok THEN Led(ts, n.tree, n.pos, rbp) ELSE n
ParseRef(ts) == LET r == ExprP(ts, 1, 0) IN IF r.ok /\ r.pos = Len(ts) + 1 THEN r.tree ELSE Fail

\* ------------------------------------------------------------------ printers (to token sequences)
IsLeaf(t) == t.k = "id"
RECURSIVE PrintFull(_)
WrapF(t) == IF IsLeaf(t) THEN PrintFull(t) ELSE <<LP>> \o PrintFull(t) \o <<RP>>
PrintFull(t) == CASE t.k = "id"   -> <<TId(t.n)>>
                  [] t.k = "bin"  -> WrapF(t.l) \o <<TOp(t.o)>> \o WrapF(t.r)
                  [] t.k = "un"   -> <<TPre(t.o)>> \o WrapF(t.e)
                  [] t.k = "post" -> WrapF(t.e) \o <<TPost(t.o)>>

\* parentheses are needed around a child exactly in these cases
NeedsParens(parent, child, side) ==
  CASE parent.k = "bin" ->
         /\ child.k = "bin"
         /\ \/ Level(child.o) < Level(parent.o)
            \/ /\ Level(child.o) = Level(parent.o)
               /\ (IF RightAssoc(parent.o) THEN side = "l" ELSE side = "r")
    [] parent.k = "un"   -> child.k = "bin"
    [] parent.k = "post" -> child.k \in {"bin", "un"}
    [] OTHER -> FALSE
RECURSIVE PrintMin(_)
WrapM(p, c, side) == IF NeedsParens(p, c, side) THEN <<LP>> \o PrintMin(c) \o <<RP>> ELSE PrintMin(c)
PrintMin(t) == CASE t.k = "id"   -> <<TId(t.n)>>
                 [] t.k = "bin"  -> WrapM(t, t.l, "l") \o <<TOp(t.o)>> \o WrapM(t, t.r, "r")
                 [] t.k = "un"   -> <<TPre(t.o)>> \o WrapM(t, t.e, "e")
                 [] t.k = "post" -> WrapM(t, t.e, "e") \o <<TPost(t.o)>>

\* ------------------------------------------------------------------ optional layout
(* Decorations of a gap between two adjacent fragments of source text:     *)
(*   "" nothing, "s" one space, "ss" two spaces, "n" newline,              *)
(*   "c" comment then newline (" // c\n"), "sn" space newline space.       *)
(* Gap kinds and what the grammar admits there (DESIGN.md Appendix C).     *)
Admit(kind) ==
  CASE kind = "sym"     -> {"", "s", "ss", "n", "c", "sn"}     \* either side of a symbolic infix operator
    [] kind = "wordb"   -> {"s", "ss", "n", "c", "sn"}         \* before and/or/via/into/where
    [] kind = "worda"   -> {"s", "ss"}                         \* after a word operator
    [] kind = "tight"   -> {""}                                \* after prefix - !, before postfix ! ( [ .
    [] kind = "nota"    -> {"s", "ss"}                         \* after `not`
    [] kind = "callo"   -> {"", "s", "n", "c"}                 \* after ( of a call
    [] kind = "callc"   -> {"", "s", "n", "c"}                 \* after , in a call; before ) of a call
    [] kind = "listo"   -> {"", "s", "n", "c", "sn"}           \* after [ , after , and before ] in a list
    [] kind = "listbc"  -> {"", "s"}                           \* before , in a list
    [] kind = "idx"     -> {"", "n"}                           \* inside index brackets
    [] kind = "reco"    -> {"", "s", "n", "c", "sn"}           \* after { , after , before } in a record
    [] kind = "recc"    -> {"", "s", "n"}                      \* after : in a record
    [] kind = "recbc"   -> {"", "s"}                           \* before : and before , in a record
    [] kind = "paren"   -> {"", "s", "n", "c", "sn"}           \* after ( and before ) of a parenthesised expression
    [] kind = "ifa"     -> {"s", "ss"}                         \* after `if`
    [] kind = "kw"      -> {"s", "ss", "n", "c", "sn"}         \* before/after then, before/after else
    [] kind = "lamb"    -> {"", "s", "ss"}                     \* before =>
    [] kind = "lama"    -> {"", "s", "n", "c", "sn"}           \* after =>
    [] kind = "lamp"    -> {"", "s", "n"}                      \* inside a lambda parameter list
    [] kind = "lamq"    -> {"", "s", "ss"}                     \* between a parameter name and its ? , between ... and the name
    [] kind = "asg"     -> {"", "s", "ss"}                     \* around = of an assignment
    [] kind = "fixed"   -> {"s"}                               \* a mandatory single space (not varied)
    [] kind = ""        -> {""}                                \* no gap (end of text)
=============================================================================
