---------------------------- MODULE BlotsBuiltins ----------------------------
(***************************************************************************)
(* Definitions of indexing, spreading and the list / string / record       *)
(* built-ins (property C14) and of the aggregates (property C15), over the *)
(* model values of BlotsValues.  Each definition is the mathematical one   *)
(* the property names, not a transcription of functions.rs.                *)
(***************************************************************************)
EXTENDS BlotsOps

Chars(s)  == [i \in 1..Len(s.cs) |-> Str(<<s.cs[i]>>)]
Elems(v)  == IF IsStr(v) THEN Chars(v) ELSE v.xs
LenOf(v)  == IF IsStr(v) THEN Len(v.cs) ELSE Len(v.xs)
Wrap(v, s) == IF IsStr(v) THEN Str(s) ELSE List(s)       \* rebuild a string / list from a subsequence
Raw(v)    == IF IsStr(v) THEN v.cs ELSE v.xs

\* 0-based, negative counts from the end, out of range is null
Index(v, i) == LET n == LenOf(v)  j == IF i < 0 THEN n + i ELSE i IN
               IF j < 0 \/ j >= n THEN Null ELSE Elems(v)[j + 1]

HeadOf(v) == IF LenOf(v) = 0 THEN (IF IsStr(v) THEN Str(<<>>) ELSE Null) ELSE Elems(v)[1]
TailOf(v) == Wrap(v, IF LenOf(v) = 0 THEN <<>> ELSE SubSeq(Raw(v), 2, LenOf(v)))
\* slice(v, a, b) for 0 <= a, b: elements a .. b-1; an error unless a <= b <= len
SliceOf(v, a, b) == IF a <= b /\ b <= LenOf(v) THEN Wrap(v, SubSeq(Raw(v), a + 1, b)) ELSE Err

ReverseSeq(s) == [i \in 1..Len(s) |-> s[Len(s) + 1 - i]]

RECURSIVE FlattenSeq(_)
FlattenSeq(s) == IF s = <<>> THEN <<>>
                 ELSE (IF IsList(Head(s)) THEN Head(s).xs ELSE <<Head(s)>>) \o FlattenSeq(Tail(s))

RECURSIVE ChunkSeq(_, _)
ChunkSeq(s, n) == IF s = <<>> THEN <<>>
                  ELSE IF Len(s) <= n THEN <<List(s)>>
                  ELSE <<List(SubSeq(s, 1, n))>> \o ChunkSeq(SubSeq(s, n + 1, Len(s)), n)

RECURSIVE ConcatArgs(_)
ConcatArgs(args) == IF args = <<>> THEN <<>>
                    ELSE (IF IsList(Head(args)) THEN Head(args).xs ELSE <<Head(args)>>) \o ConcatArgs(Tail(args))

MaxLen(ls) == LET S == {Len(ls[i].xs) : i \in 1..Len(ls)} IN CHOOSE m \in S : \A x \in S : x <= m
ZipOf(ls) == List([i \in 1..MaxLen(ls) |->
                    List([j \in 1..Len(ls) |-> IF i <= Len(ls[j].xs) THEN ls[j].xs[i] ELSE Null])])

RangeOf(a, b) == IF a > b THEN Err ELSE List([i \in 1..(b - a) |-> Fin(a + i - 1)])

\* unique keeps the first member of each .== class, in order
RECURSIVE UniqueSeq(_, _)
UniqueSeq(s, acc) == IF s = <<>> THEN acc
                     ELSE UniqueSeq(Tail(s), IF \E i \in 1..Len(acc) : Equals(acc[i], Head(s)) THEN acc ELSE Append(acc, Head(s)))

\* THE stable sort of a sequence by a key sequence (defined when the keys are mutually comparable):
\* insert each element, left to right, after every element whose key is <= its key.
RECURSIVE InsertPos(_, _, _)
InsertPos(ks, k, i) == IF i > Len(ks) THEN i
                       ELSE IF Compare(ks[i], k) = "gt" THEN i ELSE InsertPos(ks, k, i + 1)
InsertAt(s, i, x) == SubSeq(s, 1, i - 1) \o <<x>> \o SubSeq(s, i, Len(s))
RECURSIVE SortPairs(_, _, _, _)
SortPairs(xs, ks, accX, accK) ==
  IF xs = <<>> THEN accX
  ELSE LET p == InsertPos(accK, Head(ks), 1) IN
       SortPairs(Tail(xs), Tail(ks), InsertAt(accX, p, Head(xs)), InsertAt(accK, p, Head(ks)))
StableSort(xs, ks) == SortPairs(xs, ks, <<>>, <<>>)
MutuallyComparable(ks) == \A i, j \in 1..Len(ks) : Comparable(ks[i], ks[j])

\* multiset equality of two sequences under structural identity
Count(s, x) == Cardinality({i \in 1..Len(s) : s[i] = x})
IsPermutation(s, u) == Len(s) = Len(u) /\ \A i \in 1..Len(s) : Count(s, s[i]) = Count(u, s[i])

KeysOf(r)    == List([i \in 1..Len(r.ks) |-> Str(r.ks[i])])
ValuesOf(r)  == List(r.vs)
EntriesOf(r) == List([i \in 1..Len(r.ks) |-> List(<<Str(r.ks[i]), r.vs[i]>>)])

\* what `...v` contributes to a list
SpreadOf(v) == CASE IsList(v) -> v.xs [] IsStr(v) -> Chars(v) [] IsRec(v) -> EntriesOf(v).xs

\* group_by / count_by with key strings ks[i] for element i: keys in first-appearance order
RECURSIVE GroupSeq(_, _, _)
GroupSeq(xs, ks, acc) ==
  IF xs = <<>> THEN acc
  ELSE LET p == KeyPos(acc.ks, Head(ks), 1) IN
       GroupSeq(Tail(xs), Tail(ks),
                IF p = 0 THEN Rec(Append(acc.ks, Head(ks)), Append(acc.vs, List(<<Head(xs)>>)))
                         ELSE Rec(acc.ks, [acc.vs EXCEPT ![p] = List(Append(@.xs, Head(xs)))]))
GroupBy(xs, ks) == GroupSeq(xs, ks, Rec(<<>>, <<>>))
CountBy(xs, ks) == LET g == GroupBy(xs, ks) IN Rec(g.ks, [i \in 1..Len(g.vs) |-> Fin(Len(g.vs[i].xs))])

\* split on a non-empty delimiter; join
IsPrefixAt(s, d, p) == p + Len(d) - 1 <= Len(s) /\ \A i \in 1..Len(d) : s[p + i - 1] = d[i]
RECURSIVE FindFrom(_, _, _)
FindFrom(s, d, p) == IF p + Len(d) - 1 > Len(s) THEN 0 ELSE IF IsPrefixAt(s, d, p) THEN p ELSE FindFrom(s, d, p + 1)
RECURSIVE SplitSeq(_, _)
SplitSeq(s, d) == LET p == FindFrom(s, d, 1) IN
                  IF p = 0 THEN <<Str(s)>>
                  ELSE <<Str(SubSeq(s, 1, p - 1))>> \o SplitSeq(SubSeq(s, p + Len(d), Len(s)), d)
RECURSIVE JoinSeq(_, _)
JoinSeq(parts, d) == IF parts = <<>> THEN <<>>
                     ELSE IF Len(parts) = 1 THEN parts[1].cs
                     ELSE parts[1].cs \o d \o JoinSeq(Tail(parts), d)


-----------------------------------------------------------------------------
(* Aggregates (property C15) on sequences of numbers.  Order statistics are *)
(* defined on the model's ranks and therefore lift through every strictly   *)
(* increasing number lift; sum / prod / avg are exact under the identity    *)
(* lift (IEEE special values via NumAdd / NumMul).                          *)
SortedNums(xs) == StableSort(xs, xs)
MinOf(xs) == SortedNums(xs)[1]
MaxOf(xs) == SortedNums(xs)[Len(xs)]
\* the mean of two numbers: a value the harness computes as (lo + hi) / 2 in doubles
Mid(lo, hi) == IF lo = hi THEN lo ELSE [t |-> "mid", lo |-> lo, hi |-> hi]
MedianOf(xs) == LET s == SortedNums(xs)  n == Len(s) IN
                IF n % 2 = 1 THEN s[(n + 1) \div 2] ELSE Mid(s[n \div 2], s[n \div 2 + 1])
RECURSIVE FoldNum(_, _, _)
FoldNum(op, acc, xs) == IF xs = <<>> THEN acc ELSE FoldNum(op, NumOp(op, acc, Head(xs)), Tail(xs))
SumOf(xs)  == FoldNum("add", Fin(0), xs)
ProdOf(xs) == FoldNum("mul", Fin(1), xs)
AvgOf(xs)  == LET s == SumOf(xs)  q == NumDiv(s, Fin(Len(xs))) IN
              IF q = Unk THEN [t |-> "ratio", num |-> s.n, den |-> Len(xs)] ELSE q
Agg(f, xs) == CASE f = "min" -> MinOf(xs) [] f = "max" -> MaxOf(xs) [] f = "median" -> MedianOf(xs)
                [] f = "sum" -> SumOf(xs) [] f = "prod" -> ProdOf(xs) [] f = "avg" -> AvgOf(xs)
OrderAggs == {"min", "max", "median"}
ArithAggs == {"sum", "prod", "avg"}
\* what C15 demands of percentile(l, p) for a grid of p values: results rs[i] for ps[i], ps increasing
NumLe(a, b) == Compare(a, b) \in {"lt", "eq"}
PercentileOk(xs, ps, rs) ==
  /\ Len(rs) = Len(ps)
  /\ \A i \in 1..Len(rs) : \E j \in 1..Len(xs) : rs[i] = xs[j]                 \* an element of the list
  /\ \A i \in 1..(Len(rs) - 1) : NumLe(rs[i], rs[i + 1])                      \* non-decreasing in p
  /\ \A i \in 1..Len(ps) : (ps[i] = 0 => Equals(rs[i], MinOf(xs))) /\ (ps[i] = 100 => Equals(rs[i], MaxOf(xs)))
-----------------------------------------------------------------------------
(* Named key functions used by sort_by / group_by / count_by cases.  The   *)
(* harness has the same table as Blots lambdas.                            *)
KeyFn(name, x) ==
  CASE name = "id"     -> x
    [] name = "neg"    -> IF IsNum(x) THEN Neg(x) ELSE Err
    [] name = "len"    -> IF IsStr(x) \/ IsList(x) THEN Fin(LenOf(x)) ELSE Err
    [] name = "first"  -> IF IsList(x) THEN Index(x, 0) ELSE Err
    [] name = "const"  -> Fin(0)
    [] name = "type"   -> Str(CASE x.t = "num" -> <<12>> [] x.t = "str" -> <<13>> [] x.t = "list" -> <<14>> [] OTHER -> <<15>>)
KeySeq(name, xs) == [i \in 1..Len(xs) |-> KeyFn(name, xs[i])]

-----------------------------------------------------------------------------
(* Apply: the definitional result of one call.  c.f names the operation;   *)
(* c.v, c.w are data operands, c.i, c.j integer operands, c.k a key-fn.    *)
Apply(c) ==
  CASE c.f = "sort"     -> IF MutuallyComparable(c.v.xs) THEN List(StableSort(c.v.xs, c.v.xs)) ELSE Unk
    [] c.f = "sort_by"  -> LET ks == KeySeq(c.k, c.v.xs) IN
                           IF \E i \in 1..Len(ks) : IsErr(ks[i]) THEN Unk
                           ELSE IF MutuallyComparable(ks) THEN List(StableSort(c.v.xs, ks)) ELSE Unk
    [] c.f = "unique"   -> List(UniqueSeq(c.v.xs, <<>>))
    [] c.f = "reverse"  -> List(ReverseSeq(c.v.xs))
    [] c.f = "len"      -> Fin(LenOf(c.v))
    [] c.f = "head"     -> HeadOf(c.v)
    [] c.f = "tail"     -> TailOf(c.v)
    [] c.f = "index"    -> Index(c.v, c.i)
    [] c.f = "slice"    -> SliceOf(c.v, c.i, c.j)
    [] c.f = "flatten"  -> List(FlattenSeq(c.v.xs))
    [] c.f = "chunk"    -> List(ChunkSeq(c.v.xs, c.i))
    [] c.f = "concat"   -> List(ConcatArgs(<<c.v, c.w>>))
    [] c.f = "spread2"  -> List(SpreadOf(c.v) \o SpreadOf(c.w))        \* [...v, ...w]
    [] c.f = "spread1"  -> List(SpreadOf(c.v))                         \* [...v]
    [] c.f = "zip"      -> ZipOf(<<c.v, c.w>>)
    [] c.f = "range"    -> RangeOf(c.i, c.j)
    [] c.f = "range1"   -> RangeOf(0, c.i)
    [] c.f = "keys"     -> KeysOf(c.v)
    [] c.f = "values"   -> ValuesOf(c.v)
    [] c.f = "entries"  -> EntriesOf(c.v)
    [] c.f = "field"    -> Field(c.v, c.w.cs)                          \* v[w] with a string key
    [] c.f = "group_by" -> LET ks == KeySeq(c.k, c.v.xs) IN
                           IF \E i \in 1..Len(ks) : ~IsStr(ks[i]) THEN Err
                           ELSE GroupBy(c.v.xs, [i \in 1..Len(ks) |-> ks[i].cs])
    [] c.f = "count_by" -> LET ks == KeySeq(c.k, c.v.xs) IN
                           IF \E i \in 1..Len(ks) : ~IsStr(ks[i]) THEN Err
                           ELSE CountBy(c.v.xs, [i \in 1..Len(ks) |-> ks[i].cs])
    [] c.f = "split"    -> IF c.w.cs = <<>> THEN Unk ELSE List(SplitSeq(c.v.cs, c.w.cs))
    [] c.f = "join"     -> Str(JoinSeq(c.v.xs, c.w.cs))
    [] c.f = "splitjoin" -> c.v                                        \* join(split(v, w), w)

Call(f, v, w, i, j, k) == [f |-> f, v |-> v, w |-> w, i |-> i, j |-> j, k |-> k]
=============================================================================
