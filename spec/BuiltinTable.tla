---------------------------- MODULE BuiltinTable ----------------------------
(***************************************************************************)
(* The arity class of every built-in function (minimal and maximal number  *)
(* of arguments; 99 = no upper bound), as documented in the README.        *)
(***************************************************************************)
EXTENDS Naturals, Sequences, FiniteSets, TLC

\* ------------------------------------------------------------------ arity classes of the built-ins (lo, hi; hi = 99: no upper bound)
Ar(lo, hi) == [lo |-> lo, hi |-> hi]
BuiltinArity ==
  [n \in {"sqrt", "sin", "cos", "tan", "asin", "acos", "atan", "log", "log10", "exp", "abs", "floor", "ceil", "trunc", "random",
          "len", "head", "tail", "unique", "sort", "reverse", "any", "all", "trim", "uppercase", "lowercase", "to_string", "to_number",
          "to_bool", "typeof", "arity", "keys", "values", "entries", "flatten"} |-> Ar(1, 1)]
  @@ [n \in {"round", "range"} |-> Ar(1, 2)]
  @@ [n \in {"min", "max", "avg", "sum", "prod", "median", "format"} |-> Ar(1, 99)]
  @@ [n \in {"dot", "percentile", "map", "filter", "every", "some", "sort_by", "split", "join", "includes", "group_by", "count_by",
             "chunk", "ugt", "ult", "ugte", "ulte"} |-> Ar(2, 2)]
  @@ [n \in {"slice", "reduce", "replace", "convert"} |-> Ar(3, 3)]
  @@ [n \in {"concat", "zip"} |-> Ar(2, 99)]
BuiltinNames == DOMAIN BuiltinArity
ArityError(name, nargs) == nargs < BuiltinArity[name].lo \/ nargs > BuiltinArity[name].hi
=============================================================================
