------------------------------ MODULE Trace_C02 ------------------------------
(***************************************************************************)
(* Trace validation for C02.                                               *)
(*  runs - one program (a random session, a built-in call, a broadcast)    *)
(*         observed in several runs: two sessions of one process (the      *)
(*         second after unrelated evaluations) and, for a sample, three    *)
(*         separate processes of the real CLI; the per-statement           *)
(*         observations must be identical run by run;                      *)
(*  heap - digests of every heap cell that existed before a statement,     *)
(*         taken before and after it: the heap is append-only, no cell     *)
(*         changes content; at most one lambda cell gets its name written, *)
(*         only by an assignment, and only if it had no name before;       *)
(*  perm - a batch of mutually independent statements (every spelling of   *)
(*         every unit converted, built-in calls; definitions of heap       *)
(*         values later passed to every built-in) evaluated in two orders, *)
(*         in one process and in separate CLI processes: no value may      *)
(*         depend on the order.                                            *)
(***************************************************************************)
EXTENDS Naturals, Sequences, TLC, Json, IOUtils

Events == ndJsonDeserialize(IOEnv.TRACE)
VARIABLES l, bad
vars == <<l, bad>>

RunsOk(e) == /\ e.inproc[1] = e.inproc[2]
             /\ \A i, j \in 1..Len(e.procs) : e.procs[i] = e.procs[j]
HeapOk(e) == /\ e.cells_after >= e.cells_before
             /\ e.changed = <<>>
             /\ Len(e.renamed) <= 1
             /\ (e.renamed # <<>> => e.is_assignment)
             /\ e.renamed_named = <<>>          \* only a function that had no name yet is named: an alias never renames
\* statements that do not depend on each other give the same values in every order
PermOk(e) == e.differing = <<>>
EventOk(e) == CASE e.ev = "runs" -> RunsOk(e) [] e.ev = "heap" -> HeapOk(e) [] e.ev = "perm" -> PermOk(e) [] OTHER -> FALSE

Init == l = 1 /\ bad = <<>>
Step == /\ l <= Len(Events)
        /\ bad' = IF EventOk(Events[l]) THEN bad ELSE Append(bad, l)
        /\ l' = l + 1
TraceSpec == Init /\ [][Step]_vars
Final == (l = Len(Events) + 1) => PrintT(<<"TRACE_RESULT", ToJson([consumed |-> l - 1, bad |-> bad])>>)
=============================================================================
