------------------------------- MODULE MC_C02 -------------------------------
(***************************************************************************)
(* C02, second half: evaluation has no effect on values.  One TLC state    *)
(* per (program, position): the sub-expression at that position is bound   *)
(* to a fresh name and the name used in its place (let-abstraction); the   *)
(* invariants say, on the reference evaluator, that this and evaluating    *)
(* the expression twice change nothing.  The first half (determinism) has  *)
(* no counterpart to prove in the specification - Eval is an operator, a   *)
(* function of program and scope - and is checked by re-running each       *)
(* emitted program in several sessions and processes.                      *)
(***************************************************************************)
EXTENDS BlotsEval, TLC, Json

N(v) == ENum(v)
X == EId("x")  L == EId("l")  F == EId("f")  G == EId("g")
Plus(a, b) == EBin("add", a, b)
Call1(fe, a) == ECall(fe, <<a>>)

Setup == <<EAsg("g", N(10)),
           EAsg("f", ELam(<<Req("x")>>, Plus(X, G))),
           EAsg("l", EList(<<N(1), N(2), N(3)>>)),
           EAsg("h", ELam(<<Req("x"), Req("i")>>, EBin("mul", X, EId("i")))),
           EAsg("p", EBin("div", N(1), N(10))), EAsg("q", EBin("div", EUn("neg", N(3)), N(10)))>>
Programs == <<
  Plus(Call1(F, N(1)), Call1(F, N(2))),
  EList(<<Call1(F, N(1)), EBin("via", L, F), Call1(EId("sum"), L)>>),
  EBin("mul", Call1(ELam(<<Req("x")>>, Plus(X, G)), N(5)), N(2)),
  EDo(<<EAsg("t", Call1(F, N(1)))>>, Plus(EId("t"), EId("t"))),
  EIf(EBin("eq", Call1(F, N(1)), N(11)), EIdx(L, N(0)), EIdx(L, N(1))),
  ECall(EId("reduce"), <<L, ELam(<<Req("a"), Req("x")>>, Plus(EId("a"), Call1(F, X))), N(0)>>),
  ECall(EId("map"), <<L, EId("h")>>),
  Plus(EIdx(EIdx(EList(<<L, L>>), N(1)), N(2)), Call1(EId("max"), L)),
  ECall(ELam(<<Req("a"), Prm("b", "opt")>>, EList(<<EId("a"), EId("b")>>)), <<Call1(F, N(2))>>),
  EBin("where", L, ELam(<<Req("x")>>, EBin("lt", X, EBin("sub", Call1(F, N(0)), N(8))))),
  EBin("into", EBin("via", L, ELam(<<Req("x")>>, EList(<<X, Call1(F, X)>>))), EId("len")),
  ECall(EId("sort_by"), <<EList(<<N(3), N(1), N(2)>>), ELam(<<Req("x")>>, EBin("sub", N(0), X))>>),
  \* a block whose return is an assignment to a name that is bound outside: the block binds its own copy, every time
  EDo(<<>>, EAsg("g", Plus(G, N(1)))),
  Plus(EDo(<<>>, EAsg("g", Plus(G, N(1)))), EDo(<<EAsg("t", N(5))>>, EAsg("g", Plus(G, EId("t"))))),
  \* heap values built in place or bound beforehand: records, strings, spreads, field access, logical operators
  ECall(EId("sort_by"), <<EList(<<ERec(<<RStatic(<<12>>, N(2))>>), ERec(<<RStatic(<<12>>, N(1))>>)>>), ELam(<<Req("x")>>, EDot(X, <<12>>))>>),
  EDot(ERec(<<RStatic(<<12>>, EList(<<N(1), Call1(F, N(1))>>)), RSpreadE(ERec(<<RStatic(<<13>>, L)>>)), RStatic(<<14>>, G)>>), <<13>>),
  EList(<<ESpread(L), ESpread(ELit(Str(<<12, 13>>))), EBin("add", ELit(Str(<<12>>)), ELit(Str(<<13>>)))>>),
  EBin("coalesce", EIdx(L, N(7)), EBin("and", EBin("lt", Call1(F, N(1)), N(20)), EUn("not", ELit(Bool(FALSE))))),
  ECall(EId("max"), <<ESpread(EBin("via", L, F)), EUn("neg", Call1(F, N(1)))>>),
  EBin("eq", EList(<<ERec(<<RStatic(<<12>>, L)>>), ELit(Null)>>), EList(<<ERec(<<RStatic(<<12>>, EList(<<N(1), N(2), N(3)>>))>>), ELit(Null)>>)),
  \* arithmetic whose operands are literals: the result may not depend on an operand being written in place or through a name
  EBin("pow", EBin("div", N(107), N(100)), N(30)),
  EList(<<EBin("pow", EBin("div", N(11), N(10)), N(10)), EBin("pow", EBin("div", N(17), N(10)), N(7)), EBin("pow", EBin("div", N(93), N(100)), N(25)),
          EBin("mod", EBin("div", N(22), N(7)), N(3)), EBin("div", EBin("mul", EBin("div", N(1), N(3)), N(3)), N(49))>>),
  ECall(ELam(<<Req("x")>>, EBin("pow", X, N(12))), <<EBin("div", N(105), N(100))>>),
  \* a product inside a sum, over names and literals only: rounded twice, however it is written
  Plus(EBin("mul", EId("p"), N(3)), EId("q")),
  EList(<<Plus(EBin("mul", EId("p"), EId("p")), EId("q")), EBin("sub", EBin("mul", N(3), EId("p")), EId("p")), ECall(ELam(<<Req("x")>>, Plus(EBin("mul", X, N(7)), EId("q"))), <<EId("p")>>)>>),
  \* sort on values with no natural order, written in place
  ECall(EId("sort"), <<EList(<<ERec(<<RStatic(<<12>>, N(2))>>), ERec(<<RStatic(<<12>>, N(1))>>), EList(<<ELit(Null)>>), EList(<<ELit(Null)>>)>>)>>)
>>

\* ------------------------------------------------------------------ positions
Ch(s, i, e) == [s |-> s, i |-> i, e |-> e]
Inner(x) == IF x.k = "spread" THEN x.e ELSE x      \* a spread is not an expression of its own: positions are inside it
Children(e) ==
  CASE e.k = "bin"  -> <<Ch("l", 0, e.l), Ch("r", 0, e.r)>>
    [] e.k = "list" -> [j \in 1..Len(e.xs) |-> Ch("xs", j, Inner(e.xs[j]))]
    [] e.k = "lam"  -> <<Ch("b", 0, e.b)>>
    [] e.k = "call" -> <<Ch("f", 0, e.f)>> \o [j \in 1..Len(e.args) |-> Ch("args", j, Inner(e.args[j]))]
    [] e.k = "do"   -> [j \in 1..Len(e.ss) |-> Ch("ss", j, e.ss[j])] \o <<Ch("r", 0, e.r)>>
    [] e.k = "asg"  -> <<Ch("e", 0, e.e)>>
    [] e.k = "if"   -> <<Ch("c", 0, e.c), Ch("t", 0, e.t), Ch("e", 0, e.e)>>
    [] e.k = "idx"  -> <<Ch("e", 0, e.e), Ch("i", 0, e.i)>>
    [] e.k \in {"un", "dot"} -> <<Ch("e", 0, e.e)>>
    [] e.k = "rec"  -> [j \in 1..Len(e.es) |-> Ch("es", j, IF e.es[j].m = "short" THEN EId(e.es[j].n) ELSE e.es[j].e)]
    [] OTHER -> <<>>
With(e, s, i, new) ==
  CASE s = "l" -> [e EXCEPT !.l = new] [] s = "r" -> [e EXCEPT !.r = new] [] s = "b" -> [e EXCEPT !.b = new]
    [] s = "f" -> [e EXCEPT !.f = new] [] s = "c" -> [e EXCEPT !.c = new] [] s = "t" -> [e EXCEPT !.t = new]
    [] s = "e" -> [e EXCEPT !.e = new] [] s = "i" -> [e EXCEPT !.i = new]
    [] s = "xs" -> IF e.xs[i].k = "spread" THEN [e EXCEPT !.xs[i].e = new] ELSE [e EXCEPT !.xs[i] = new]
    [] s = "args" -> IF e.args[i].k = "spread" THEN [e EXCEPT !.args[i].e = new] ELSE [e EXCEPT !.args[i] = new] [] s = "ss" -> [e EXCEPT !.ss[i] = new]
    [] s = "es" -> IF e.es[i].m = "short" THEN e ELSE [e EXCEPT !.es[i].e = new]
RECURSIVE Paths(_)
Paths(e) == {<<>>} \cup UNION {{<<[s |-> Children(e)[j].s, i |-> Children(e)[j].i]>> \o p : p \in Paths(Children(e)[j].e)} : j \in 1..Len(Children(e))}
RECURSIVE At(_, _)
At(e, p) == IF p = <<>> THEN e
            ELSE LET ch == CHOOSE j \in 1..Len(Children(e)) : Children(e)[j].s = p[1].s /\ Children(e)[j].i = p[1].i IN
                 At(Children(e)[ch].e, Tail(p))
RECURSIVE ReplaceAt(_, _, _)
ReplaceAt(e, p, new) == IF p = <<>> THEN new ELSE With(e, p[1].s, p[1].i, ReplaceAt(At(e, <<p[1]>>), Tail(p), new))
RECURSIVE HasAsg(_)
HasAsg(e) == e.k = "asg" \/ \E j \in 1..Len(Children(e)) : HasAsg(Children(e)[j].e)

VARIABLE c
Init == c \in UNION {{[p |-> i, path |-> q] : q \in Paths(Programs[i])} : i \in 1..Len(Programs)}
Next == UNCHANGED c
Spec == Init /\ [][Next]_c

RECURSIVE RunAll(_, _)
RunAll(ss, env) == IF ss = <<>> THEN env ELSE RunAll(Tail(ss), Eval(Head(ss), env, 0).env)
Env0 == RunAll(Setup, <<EmptyFrame>>)
RootBound == {n \in Names : Lookup(Env0, n) # UNB}
P == Programs[c.p]
Sub == At(P, c.path)
\* the position can be abstracted at top level: no assignment inside, only root names free, not a binder target
Abstractable == /\ ~HasAsg(Sub) /\ FreeVars(Sub, {}) \subseteq RootBound /\ Sub.k # "id" /\ c.path # <<>>
                /\ ~IsE(Eval(Sub, Env0, 0).v)
Abstracted == ReplaceAt(P, c.path, EId("t0"))
Orig == Eval(P, Env0, 0).v
ProjV(v) == IF v.t = "err" THEN [t |-> "err"] ELSE v

LetAbstractionLaw == Abstractable => Eval(Abstracted, RunAll(<<EAsg("t0", Sub)>>, Env0), 0).v = Orig
\* (a result the model leaves open - inexact arithmetic - is Unk, also for everything built from it)
TwiceLaw == LET t == Eval(EList(<<P, P>>), Env0, 0).v IN t = Unk \/ t = List(<<Orig, Orig>>)
\* evaluating never changes the root scope (these programs contain no top-level assignment)
NoEffectLaw == Eval(P, Env0, 0).env = Env0

ASSUME PrintT(<<"SETUP", ToJson(Setup)>>)
Emit == PrintT(<<"CASE", ToJson([p |-> c.p, prog |-> P, abstractable |-> Abstractable,
                                 pre |-> IF Abstractable THEN <<EAsg("t0", Sub)>> ELSE <<>>,
                                 abs |-> IF Abstractable THEN Abstracted ELSE P, exp |-> ProjV(Orig)])>>)
=============================================================================
