------------------------------- MODULE MC_C04 -------------------------------
(***************************************************************************)
(* C04.  Two families of states:                                           *)
(*  "ctx"  - a closure definition (setup statements) x a calling context:  *)
(*           the model evaluates the call at top level and in the context; *)
(*           invariant CallSiteIndependent: a function that is closed      *)
(*           after capture gives the same result in every context;         *)
(*  "args" - every parameter list  required^r optional^o rest^{0,1}        *)
(*           (r, o <= 2) x every argument count 0 .. n+3: BindArgs or an   *)
(*           arity error.                                                  *)
(* Each state is emitted with the model's results for replay.              *)
(***************************************************************************)
EXTENDS BlotsEval, TLC, Json

CONSTANT Deep      \* TRUE: also three nested calling contexts

N(v) == ENum(v)
Plus(x, y) == EBin("add", x, y)
F == EId("f")
X == EId("x")
G == EId("g")

\* ------------------------------------------------------------------ closure definitions: setup statements + how to call
\* call |-> operator index: how the function expression fe is applied
Defs == <<
  [name |-> "captures-g",       setup |-> <<EAsg("g", N(10)), EAsg("f", ELam(<<Req("x")>>, Plus(X, G)))>>, call |-> "one"],
  [name |-> "curried",          setup |-> <<EAsg("g", N(10)), EAsg("f", ELam(<<Req("x")>>, ELam(<<Req("y")>>, Plus(Plus(X, EId("y")), G))))>>, call |-> "curried"],
  [name |-> "defined-in-do",    setup |-> <<EAsg("f", EDo(<<EAsg("k", N(5))>>, ELam(<<Req("x")>>, Plus(X, EId("k")))))>>, call |-> "one"],
  [name |-> "captures-closure", setup |-> <<EAsg("g", N(10)), EAsg("h", ELam(<<Req("x")>>, Plus(X, G))), EAsg("f", ELam(<<Req("x")>>, Plus(ECall(EId("h"), <<X>>), N(1))))>>, call |-> "one"],
  [name |-> "param-shadows",    setup |-> <<EAsg("g", N(10)), EAsg("f", ELam(<<Req("x"), Req("g")>>, Plus(X, G)))>>, call |-> "two"],
  [name |-> "do-local-shadows", setup |-> <<EAsg("g", N(10)), EAsg("f", ELam(<<Req("x")>>, EDo(<<EAsg("g", N(1))>>, Plus(X, G))))>>, call |-> "one"],
  [name |-> "late-bound",       setup |-> <<EAsg("f", ELam(<<Req("x")>>, Plus(X, G)))>>, call |-> "one"],
  [name |-> "late-then-bound",  setup |-> <<EAsg("f", ELam(<<Req("x")>>, Plus(X, G))), EAsg("g", N(10))>>, call |-> "one"],
  [name |-> "recursive",        setup |-> <<EAsg("f", ELam(<<Req("x")>>, EIf(EBin("eq", X, N(0)), N(0), Plus(N(1), ECall(F, <<EBin("sub", X, N(1))>>)))))>>, call |-> "one"],
  [name |-> "nullary",          setup |-> <<EAsg("g", N(10)), EAsg("f", ELam(<<>>, G))>>, call |-> "zero"],
  [name |-> "captures-inputs",  setup |-> <<EAsg("f", ELam(<<>>, EId("inputs")))>>, call |-> "zero"],
  [name |-> "captured-list",    setup |-> <<EAsg("g", EList(<<N(1), N(2)>>)), EAsg("f", ELam(<<Req("x")>>, EIdx(G, X)))>>, call |-> "one"],
  [name |-> "self-name-captured", setup |-> <<EAsg("f", EDo(<<EAsg("g", N(5)), EAsg("g", ELam(<<Req("x")>>, Plus(G, X)))>>, G))>>, call |-> "one"],
  [name |-> "self-name-in-do",  setup |-> <<EAsg("f", ELam(<<Req("x")>>, EDo(<<EAsg("g", N(5)), EAsg("g", ELam(<<Req("y")>>, Plus(G, EId("y"))))>>, ECall(G, <<X>>))))>>, call |-> "one"],
  [name |-> "optional-rest",    setup |-> <<EAsg("g", N(10)), EAsg("f", ELam(<<Req("x"), Prm("y", "opt"), Prm("z", "rest")>>, EList(<<X, EId("y"), EId("z"), G>>)))>>, call |-> "one"],
  \* data values in the captured scope: records (field, shorthand, spread, computed key), strings, spreads, logical operators
  [name |-> "captured-record-field", setup |-> <<EAsg("g", ERec(<<RStatic(<<12>>, N(10))>>)), EAsg("f", ELam(<<Req("x")>>, Plus(X, EDot(G, <<12>>))))>>, call |-> "one"],
  [name |-> "captured-shorthand",    setup |-> <<EAsg("a", N(10)), EAsg("f", ELam(<<Req("x")>>, ERec(<<RShort("a"), RStatic(<<13>>, X)>>)))>>, call |-> "one"],
  [name |-> "captured-record-spread", setup |-> <<EAsg("g", ERec(<<RStatic(<<12>>, N(10))>>)), EAsg("f", ELam(<<Req("x")>>, ERec(<<RSpreadE(G), RStatic(<<13>>, X)>>)))>>, call |-> "one"],
  [name |-> "captured-computed-key", setup |-> <<EAsg("g", ELit(Str(<<12>>))), EAsg("f", ELam(<<Req("x")>>, EDot(ERec(<<RDyn(G, X)>>), <<12>>)))>>, call |-> "one"],
  [name |-> "captured-list-spread",  setup |-> <<EAsg("g", EList(<<N(1), N(2)>>)), EAsg("f", ELam(<<Req("x")>>, ECall(EId("sum"), <<ESpread(G), X>>)))>>, call |-> "one"],
  [name |-> "closure-in-record",     setup |-> <<EAsg("g", N(10)), EAsg("h", ERec(<<RStatic(<<12>>, ELam(<<Req("x")>>, Plus(X, G)))>>)), EAsg("f", EDot(EId("h"), <<12>>))>>, call |-> "one"],
  [name |-> "closure-in-list",       setup |-> <<EAsg("g", N(10)), EAsg("h", EList(<<ELam(<<Req("x")>>, Plus(X, G))>>)), EAsg("f", ELam(<<Req("x")>>, ECall(EIdx(EId("h"), N(0)), <<X>>)))>>, call |-> "one"],
  [name |-> "coalesce-default",      setup |-> <<EAsg("g", ELit(Null)), EAsg("f", ELam(<<Req("x"), Prm("y", "opt")>>, Plus(X, EBin("coalesce", EId("y"), EBin("coalesce", G, N(5))))))>>, call |-> "one"],
  [name |-> "logical-body",          setup |-> <<EAsg("g", ELit(Bool(TRUE))), EAsg("f", ELam(<<Req("x")>>, EIf(EBin("and", G, EUn("not", EBin("lt", X, N(0)))), EUn("neg", X), X)))>>, call |-> "one"],
  [name |-> "alias-keeps-capture",   setup |-> <<EAsg("g", N(10)), EAsg("h", ELam(<<Req("x")>>, Plus(X, G))), EAsg("f", EId("h"))>>, call |-> "one"],
  \* binders inside the body that reuse the name of a captured outer variable, before / after a free use of it
  [name |-> "inner-param-then-outer-use", setup |-> <<EAsg("g", N(10)), EAsg("f", ELam(<<Req("x")>>, Plus(ECall(ELam(<<Req("g")>>, EBin("mul", G, N(2))), <<X>>), G)))>>, call |-> "one"],
  [name |-> "outer-use-then-inner-param", setup |-> <<EAsg("g", N(10)), EAsg("f", ELam(<<Req("x")>>, Plus(G, ECall(ELam(<<Req("g")>>, EBin("mul", G, N(2))), <<X>>))))>>, call |-> "one"],
  [name |-> "inner-do-local-then-outer-use", setup |-> <<EAsg("g", N(10)), EAsg("f", ELam(<<Req("x")>>, Plus(EDo(<<EAsg("g", N(1))>>, Plus(G, X)), G)))>>, call |-> "one"],
  [name |-> "callback-param-then-outer-use", setup |-> <<EAsg("g", N(10)), EAsg("f", ELam(<<Req("x")>>, Plus(ECall(EId("sum"), <<EBin("via", EList(<<X, N(2)>>), ELam(<<Req("g")>>, G))>>), G)))>>, call |-> "one"],
  [name |-> "two-inner-lambdas",          setup |-> <<EAsg("g", N(10)), EAsg("k", N(20)), EAsg("f", ELam(<<Req("x")>>, EList(<<ELam(<<Req("g")>>, Plus(G, EId("k"))), ELam(<<Req("k")>>, Plus(G, EId("k"))), G, EId("k")>>)))>>, call |-> "one"],
  \* parameters named like things the call itself puts into scope
  [name |-> "param-named-inputs",         setup |-> <<EAsg("f", ELam(<<Req("inputs"), Req("x")>>, EList(<<EId("inputs"), X>>)))>>, call |-> "two"],
  [name |-> "param-named-like-itself",    setup |-> <<EAsg("f", ELam(<<Req("f")>>, Plus(F, N(1))))>>, call |-> "one"],
  \* an optional parameter left without an argument is null, whatever else its name is bound to around it
  [name |-> "optional-named-like-itself-omitted", setup |-> <<EAsg("g", N(10)), EAsg("f", ELam(<<Req("x"), Prm("f", "opt")>>, EList(<<X, F, G>>)))>>, call |-> "one"],
  [name |-> "optional-named-inputs-omitted",      setup |-> <<EAsg("f", ELam(<<Req("x"), Prm("inputs", "opt")>>, EList(<<X, EId("inputs")>>)))>>, call |-> "one"],
  [name |-> "optional-named-like-earlier-param",  setup |-> <<EAsg("f", ELam(<<Req("x"), Prm("x", "opt")>>, EList(<<X>>)))>>, call |-> "one"],
  [name |-> "optional-named-like-a-capture-omitted", setup |-> <<EAsg("g", N(10)), EAsg("f", ELam(<<Req("x"), Prm("g", "opt")>>, EList(<<X, G>>)))>>, call |-> "one"],
  [name |-> "param-named-like-itself-2",  setup |-> <<EAsg("g", N(10)), EAsg("f", ELam(<<Req("x"), Prm("f", "opt")>>, EList(<<X, F, G>>)))>>, call |-> "two"],
  \* the function re-entered during its own call, a same-named local of the calling level in between
  [name |-> "recursive-shadowed-capture", setup |-> <<EAsg("g", N(10)), EAsg("f", ELam(<<Req("x")>>, EIf(EBin("eq", X, N(0)), G, EDo(<<EAsg("g", N(99))>>, ECall(F, <<EBin("sub", X, N(1))>>)))))>>, call |-> "one"],
  [name |-> "self-passed-shadowed-capture", setup |-> <<EAsg("g", N(10)), EAsg("h", ELam(<<Req("y"), Req("x")>>, EIf(EBin("eq", X, N(0)), G, EDo(<<EAsg("g", N(99))>>, ECall(EId("y"), <<EId("y"), EBin("sub", X, N(1))>>))))), EAsg("f", ELam(<<Req("x")>>, ECall(EId("h"), <<EId("h"), X>>)))>>, call |-> "one"],
  \* a built-in function captured under an ordinary name is a captured value like any other
  [name |-> "captures-builtin",      setup |-> <<EAsg("g", EId("max")), EAsg("f", ELam(<<Req("x")>>, ECall(G, <<X, N(3)>>)))>>, call |-> "one"],
  [name |-> "captures-builtin-as-callback", setup |-> <<EAsg("g", EId("len")), EAsg("f", ELam(<<Req("x")>>, EBin("into", EList(<<X, X>>), G)))>>, call |-> "one"],
  \* several spreads in one argument list, an empty one among them
  [name |-> "two-spreads",           setup |-> <<EAsg("g", EList(<<N(7)>>)), EAsg("f", ELam(<<Req("x"), Prm("y", "opt"), Prm("z", "rest")>>, EList(<<X, EId("y"), EId("z"), G>>)))>>, call |-> "spread2"],
  [name |-> "empty-spread-then-spread", setup |-> <<EAsg("g", EList(<<>>)), EAsg("f", ELam(<<Req("x"), Prm("z", "rest")>>, EList(<<X, EId("z"), G>>)))>>, call |-> "spread0"],
  [name |-> "spreads-exact-arity",   setup |-> <<EAsg("f", ELam(<<Req("x"), Req("y"), Req("z")>>, EList(<<X, EId("y"), EId("z")>>)))>>, call |-> "spread2"],
  [name |-> "spreads-too-many",      setup |-> <<EAsg("f", ELam(<<Req("x"), Req("y")>>, X))>>, call |-> "spread2"],
  [name |-> "rest-from-spread",      setup |-> <<EAsg("g", EList(<<N(7), N(8)>>)), EAsg("f", ELam(<<Req("x"), Prm("z", "rest")>>, EList(<<X, EId("z"), ECall(EId("len"), <<G>>)>>)))>>, call |-> "spread"]
>>

CallOn(fe, how) == CASE how = "one"     -> ECall(fe, <<N(1)>>)
                     [] how = "two"     -> ECall(fe, <<N(1), N(2)>>)
                     [] how = "zero"    -> ECall(fe, <<>>)
                     [] how = "curried" -> ECall(ECall(fe, <<N(1)>>), <<N(2)>>)
                     [] how = "spread"  -> ECall(fe, <<N(1), ESpread(EList(<<N(2), N(3)>>))>>)
                     [] how = "spread2" -> ECall(fe, <<ESpread(EList(<<N(1)>>)), ESpread(EList(<<N(2), N(3)>>))>>)
                     [] how = "spread0" -> ECall(fe, <<ESpread(EList(<<>>)), ESpread(EList(<<N(1), N(2)>>)), ESpread(EList(<<>>))>>)

\* ------------------------------------------------------------------ calling contexts
CtxNames == {"param-k", "record-field", "list-item", "if-branch", "spread-source", "logical-operand", "param-a", "top", "param-g", "param-x", "param-f-arg", "do-local-g", "do-local-h", "do-local-k", "via-callback", "where-callback",
             "map-callback", "reduce-callback", "passed-as-value", "alias-under-param-f", "alias-under-local-f", "alias-in-callback-param-f", "after-refused-redefinition", "param-inputs", "nested-do-in-fn"}
\* pre: extra statements run before (may fail); e: the expression whose value is observed; post: how the observed value relates to the call's
CtxOf(cn, E, how) ==
  LET Q == Req("q") IN
  CASE cn = "top"          -> [pre |-> <<>>, e |-> E, wrap |-> "id"]
    [] cn = "record-field" -> [pre |-> <<>>, e |-> EDot(ERec(<<RStatic(<<13>>, N(0)), RStatic(<<12>>, E)>>), <<12>>), wrap |-> "id"]
    [] cn = "list-item"    -> [pre |-> <<>>, e |-> EIdx(EList(<<N(0), E>>), N(1)), wrap |-> "id"]
    [] cn = "if-branch"    -> [pre |-> <<>>, e |-> EIf(EBin("lt", N(0), N(1)), E, N(0)), wrap |-> "id"]
    [] cn = "spread-source" -> [pre |-> <<>>, e |-> EList(<<ESpread(EList(<<E>>))>>), wrap |-> "list1"]
    [] cn = "logical-operand" -> [pre |-> <<>>, e |-> EBin("coalesce", ELit(Null), E), wrap |-> "id"]
    [] cn = "param-a"      -> [pre |-> <<>>, e |-> ECall(ELam(<<Req("a")>>, E), <<N(99)>>), wrap |-> "id"]
    [] cn = "param-k"      -> [pre |-> <<>>, e |-> ECall(ELam(<<Req("k")>>, E), <<N(99)>>), wrap |-> "id"]
    [] cn = "param-g"      -> [pre |-> <<>>, e |-> ECall(ELam(<<Req("g")>>, E), <<N(99)>>), wrap |-> "id"]
    [] cn = "param-x"      -> [pre |-> <<>>, e |-> ECall(ELam(<<Req("x")>>, E), <<N(99)>>), wrap |-> "id"]
    [] cn = "param-f-arg"  -> [pre |-> <<>>, e |-> ECall(ELam(<<Req("y")>>, E), <<N(99)>>), wrap |-> "id"]
    [] cn = "do-local-g"   -> [pre |-> <<>>, e |-> EDo(<<EAsg("g", N(99))>>, E), wrap |-> "id"]
    [] cn = "do-local-h"   -> [pre |-> <<>>, e |-> EDo(<<EAsg("h", N(99))>>, E), wrap |-> "id"]
    [] cn = "do-local-k"   -> [pre |-> <<>>, e |-> EDo(<<EAsg("k", N(99))>>, E), wrap |-> "id"]
    [] cn = "via-callback"   -> [pre |-> <<>>, e |-> EBin("via", EList(<<N(0)>>), ELam(<<Q>>, E)), wrap |-> "list1"]
    [] cn = "where-callback" -> [pre |-> <<>>, e |-> EBin("where", EList(<<N(0)>>), ELam(<<Q>>, EBin("eq", E, E))), wrap |-> "none"]
    [] cn = "map-callback"   -> [pre |-> <<>>, e |-> ECall(EId("map"), <<EList(<<N(0)>>), ELam(<<Q>>, E)>>), wrap |-> "list1"]
    [] cn = "reduce-callback" -> [pre |-> <<>>, e |-> ECall(EId("reduce"), <<EList(<<N(0)>>), ELam(<<Req("acc"), Q>>, E), N(0)>>), wrap |-> "id"]
    [] cn = "passed-as-value" -> [pre |-> <<>>, e |-> ECall(ELam(<<Req("hh")>>, CallOn(EId("hh"), how)), <<F>>), wrap |-> "id"]
    \* the function reached through another name, from a scope in which its own name means something else
    [] cn = "alias-under-param-f" -> [pre |-> <<EAsg("hh", F)>>, e |-> ECall(ELam(<<Req("f")>>, CallOn(EId("hh"), how)), <<N(99)>>), wrap |-> "id"]
    [] cn = "alias-under-local-f" -> [pre |-> <<EAsg("hh", F)>>, e |-> EDo(<<EAsg("f", N(99))>>, CallOn(EId("hh"), how)), wrap |-> "id"]
    [] cn = "alias-in-callback-param-f" -> [pre |-> <<EAsg("hh", F)>>, e |-> EBin("via", EList(<<N(0)>>), ELam(<<Req("f")>>, CallOn(EId("hh"), how))), wrap |-> "list1"]
    [] cn = "after-refused-redefinition" -> [pre |-> <<EAsg("g", N(11)), EAsg("f", N(0))>>, e |-> E, wrap |-> "id"]
    [] cn = "param-inputs"  -> [pre |-> <<>>, e |-> ECall(ELam(<<Req("inputs")>>, E), <<N(99)>>), wrap |-> "id"]
    [] cn = "nested-do-in-fn" -> [pre |-> <<>>, e |-> ECall(ELam(<<Req("g")>>, EDo(<<EAsg("x", N(98))>>, E)), <<N(99)>>), wrap |-> "id"]

Ctx(cn, how) == CtxOf(cn, CallOn(F, how), how)
\* two nested contexts (the inner one must leave the call's value as it is)
IdCtx == {"param-k", "record-field", "list-item", "if-branch", "param-a", "param-g", "param-x", "do-local-g", "do-local-k", "reduce-callback", "param-inputs", "nested-do-in-fn"}
Ctx2(outer, inner, how) == CtxOf(outer, CtxOf(inner, CallOn(F, how), how).e, how)
Ctx3(outer, mid, inner, how) == CtxOf(outer, CtxOf(mid, CtxOf(inner, CallOn(F, how), how).e, how).e, how)

\* ------------------------------------------------------------------ parameter lists for the args family
ParamLists == {[i \in 1..(r + o + z) |-> IF i <= r THEN Prm(<<"p1", "p2">>[i], "req")
                                         ELSE IF i <= r + o THEN Prm(<<"q1", "q2">>[i - r], "opt")
                                         ELSE Prm("rs", "rest")] : r \in 0..2, o \in 0..2, z \in 0..1}

VARIABLE c
Init == \/ c \in {[fam |-> "ctx", d |-> d, cn |-> cn, inner |-> ""] : d \in 1..Len(Defs), cn \in CtxNames}
        \/ Deep /\ c \in {[fam |-> "ctx", d |-> d, cn |-> cn, inner |-> i, mid |-> m] : d \in 1..Len(Defs), cn \in CtxNames \ {"passed-as-value", "after-refused-redefinition", "top"}, i \in IdCtx, m \in IdCtx}
        \/ c \in {[fam |-> "ctx", d |-> d, cn |-> cn, inner |-> i] : d \in 1..Len(Defs), cn \in CtxNames \ {"passed-as-value", "after-refused-redefinition", "top"}, i \in IdCtx}
        \/ c \in {[fam |-> "args", ps |-> ps, n |-> n, sp |-> -1] : ps \in ParamLists, n \in 0..7}
        \* the same argument tuples handed over as two adjacent spreads, split at every point (either part may be empty)
        \/ c \in {[fam |-> "args", ps |-> ps, n |-> n, sp |-> k] : ps \in ParamLists, n \in 0..5, k \in 0..5} /\ c.sp <= c.n
Next == UNCHANGED c
Spec == Init /\ [][Next]_c

\* ------------------------------------------------------------------ model results
Root == [EmptyFrame EXCEPT !["inputs"] = Rec(<<<<12>>>>, <<Fin(7)>>)]   \* inputs = {a: 7}
RECURSIVE RunAll(_, _)
RunAll(ss, env) == IF ss = <<>> THEN env ELSE RunAll(Tail(ss), Eval(Head(ss), env, 0).env)
RECURSIVE ProjV(_)
ProjV(v) == CASE v.t = "fn"   -> [t |-> "fn"]
              [] v.t = "list" -> List([i \in 1..Len(v.xs) |-> ProjV(v.xs[i])])
              [] v.t = "rec"  -> Rec(v.ks, [i \in 1..Len(v.vs) |-> ProjV(v.vs[i])])
              [] OTHER        -> v

D == Defs[c.d]
EnvDef == RunAll(D.setup, <<Root>>)
TopRes == Eval(CallOn(F, D.call), EnvDef, 0).v
HasMid == "mid" \in DOMAIN c
K == IF c.inner = "" THEN Ctx(c.cn, D.call) ELSE IF HasMid THEN Ctx3(c.cn, c.mid, c.inner, D.call) ELSE Ctx2(c.cn, c.inner, D.call)
CtxRes == Eval(K.e, RunAll(K.pre, EnvDef), 0).v
Fval == Lookup(EnvDef, "f")
Unwrap(v, how) == CASE how = "id" -> v [] how = "list1" -> IF IsList(v) /\ Len(v.xs) = 1 THEN v.xs[1] ELSE v [] how = "none" -> v

\* the consequence C04 states: all free names bound at definition => same result from every call site
CallSiteIndependent ==
  (c.fam = "ctx" /\ IsFn(Fval) /\ ClosedAfterCapture(Fval) /\ K.wrap # "none") => Unwrap(CtxRes, K.wrap) = TopRes

\* args family: f = (ps) => [params in order]; call with n arguments 1..n
ArgsBody == EList([i \in 1..Len(c.ps) |-> EId(c.ps[i].n)])
ArgsCall == IF c.sp < 0 THEN ECall(ELam(c.ps, ArgsBody), [i \in 1..c.n |-> N(i)])
            ELSE ECall(ELam(c.ps, ArgsBody), <<ESpread(EList([i \in 1..c.sp |-> N(i)])), ESpread(EList([i \in 1..(c.n - c.sp) |-> N(c.sp + i)]))>>)
ArgsRes == Eval(ArgsCall, <<Root>>, 0).v
ArgsLaw == c.fam = "args" =>
   LET r == NReq(c.ps)  tot == Len(c.ps)  rest == HasRest(c.ps) IN
   IF c.n < r \/ (~rest /\ c.n > tot) THEN ArgsRes = ErrC("arity")
   ELSE /\ IsList(ArgsRes) /\ Len(ArgsRes.xs) = tot
        /\ \A i \in 1..tot :
             CASE c.ps[i].m = "req"  -> ArgsRes.xs[i] = Fin(i)
               [] c.ps[i].m = "opt"  -> ArgsRes.xs[i] = (IF i <= c.n THEN Fin(i) ELSE Null)
               [] c.ps[i].m = "rest" -> ArgsRes.xs[i] = List([j \in 1..(IF c.n >= i THEN c.n - i + 1 ELSE 0) |-> Fin(i + j - 1)])

Emit == PrintT(<<"CASE", ToJson(
          IF c.fam = "ctx"
          THEN [fam |-> "ctx", def |-> D.name, ctx |-> (IF c.inner = "" THEN c.cn ELSE IF HasMid THEN c.cn \o " > " \o c.mid \o " > " \o c.inner ELSE c.cn \o " > " \o c.inner), setup |-> D.setup, pre |-> K.pre, e |-> K.e, top |-> CallOn(F, D.call),
                wrap |-> K.wrap, closed |-> (IsFn(Fval) /\ ClosedAfterCapture(Fval)), expTop |-> ProjV(TopRes), expCtx |-> ProjV(CtxRes)]
          ELSE [fam |-> "args", ps |-> c.ps, n |-> c.n, sp |-> c.sp, e |-> ArgsCall, exp |-> ProjV(ArgsRes)])>>)
=============================================================================
