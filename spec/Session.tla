------------------------------- MODULE Session -------------------------------
(***************************************************************************)
(* The top-level session as a state machine (property C03; also the        *)
(* outputs part of C19).                                                   *)
(*   env   - the root scope: every name of Names bound to a value or UNB   *)
(*   outs  - the outputs declared so far, in declaration order             *)
(*   last  - outcome of the last statement                                 *)
(* One action per statement of a finite alphabet; each statement is an     *)
(* expression tree evaluated by BlotsEval.  A failing statement keeps the  *)
(* bindings its own completed nested assignments made, and nothing else.   *)
(***************************************************************************)
EXTENDS BlotsEval

VARIABLES env, outs, last, hist
svars == <<env, outs, last, hist>>

\* a statement: expression + whether it is an output declaration (of which name)
St(e, out) == [e |-> e, out |-> out]

\* closures are projected to their kind when a state is shown to the harness
RECURSIVE ProjV(_)
ProjV(v) == CASE v.t = "fn"   -> [t |-> "fn"]
              [] v.t = "list" -> List([i \in 1..Len(v.xs) |-> ProjV(v.xs[i])])
              [] v.t = "rec"  -> Rec(v.ks, [i \in 1..Len(v.vs) |-> ProjV(v.vs[i])])
              [] OTHER        -> v
ProjEnv(fr) == [n \in Names |-> ProjV(fr[n])]

Exec(st, e0, o0) ==
  LET r == Eval(st.e, <<e0>>, 0)
      ok == ~IsE(r.v) IN
  [env  |-> r.env[1],
   ok   |-> ok,
   v    |-> r.v,
   outs |-> IF ok /\ st.out # "" THEN Append(o0, <<st.out, ProjV(r.v)>>) ELSE o0]

SInit == /\ env = EmptyFrame /\ outs = <<>> /\ last = [ok |-> TRUE, v |-> Null] /\ hist = <<>>

Do(st) == LET x == Exec(st, env, outs) IN
          /\ env' = x.env
          /\ outs' = x.outs
          /\ last' = [ok |-> x.ok, v |-> ProjV(x.v)]
          /\ hist' = Append(hist, [st |-> st, ok |-> x.ok, v |-> ProjV(x.v), env |-> ProjEnv(x.env), nouts |-> Len(x.outs)])

\* ------------------------------------------------------------------ properties (C03)
\* a bound top-level name keeps its value for the rest of the session
Immutable == [][\A n \in Names : env[n] # UNB => env'[n] = env[n]]_svars
\* outputs are only ever appended, and each holds the value the name had at its declaration
OutputsAppendOnly == [][Len(outs') >= Len(outs) /\ SubSeq(outs', 1, Len(outs)) = outs]_svars
\* a failed statement changes the environment only through nested assignments that completed
FailedStmtFrame == [][(~last'.ok) => \A n \in Names : env'[n] # env[n] => env[n] = UNB]_svars
=============================================================================
