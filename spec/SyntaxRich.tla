----------------------------- MODULE SyntaxRich -----------------------------
(***************************************************************************)
(* Whole-language expression trees (every node kind of the Blots AST), two *)
(* reference printers to source TEXT - fully parenthesised and minimal -   *)
(* and the generator of chain-complete trees: every node kind as child of  *)
(* every node kind at every operand position, to a depth bound.            *)
(*                                                                         *)
(* NeedsParensR is the reference parenthesisation rule: what any printer   *)
(* of Blots source (the formatter, function-source emission) must respect  *)
(* for its output to parse back to the same tree.                          *)
(***************************************************************************)
EXTENDS Syntax, TLC

\* ------------------------------------------------------------------ node constructors
Num(v)          == [k |-> "num", v |-> v]
StrL(s)         == [k |-> "str", s |-> s]          \* s: TLA+ string, the literal's content
BoolL(b)        == [k |-> "bool", b |-> b]
NullL           == [k |-> "null"]
InRef(n)        == [k |-> "inref", n |-> n]        \* #n
Call(f, args)   == [k |-> "call", f |-> f, args |-> args]
Idx(e, i)       == [k |-> "idx", e |-> e, i |-> i]
Dot(e, f)       == [k |-> "dot", e |-> e, f |-> f]
Fact(e)         == [k |-> "fact", e |-> e]
If(c, t, e)     == [k |-> "if", c |-> c, t |-> t, e |-> e]
Lam(ps, b)      == [k |-> "lam", ps |-> ps, b |-> b]      \* ps: <<[n, m]>> m in req / opt / rest
Do(ss, r)       == [k |-> "do", ss |-> ss, r |-> r]
DoS(ss, r)      == [k |-> "do", ss |-> ss, r |-> r, semi |-> TRUE]    \* written with `;` between the statements, on one line
Asg(n, e)       == [k |-> "asg", n |-> n, e |-> e]
ListE(xs)       == [k |-> "list", xs |-> xs]
RecE(es)        == [k |-> "rec", es |-> es]               \* entries: [ek |-> static / dyn / short / spread, ...]
Spread(e)       == [k |-> "spread", e |-> e]
P(n, m)         == [n |-> n, m |-> m]
EStatic(key, v) == [ek |-> "static", key |-> key, v |-> v]
EDyn(ke, v)     == [ek |-> "dyn", ke |-> ke, v |-> v]
EShort(n)       == [ek |-> "short", n |-> n]
ESpread(e)      == [ek |-> "spread", e |-> e]

BinSym(o) == CASE o = "add" -> "+" [] o = "sub" -> "-" [] o = "mul" -> "*" [] o = "div" -> "/" [] o = "mod" -> "%"
               [] o = "pow" -> "^" [] o = "eq" -> "==" [] o = "ne" -> "!=" [] o = "lt" -> "<" [] o = "le" -> "<="
               [] o = "gt" -> ">" [] o = "ge" -> ">=" [] o = "deq" -> ".==" [] o = "dne" -> ".!=" [] o = "dlt" -> ".<"
               [] o = "dle" -> ".<=" [] o = "dgt" -> ".>" [] o = "dge" -> ".>=" [] o = "and" -> "&&" [] o = "nand" -> "and"
               [] o = "or" -> "||" [] o = "nor" -> "or" [] o = "via" -> "via" [] o = "into" -> "into"
               [] o = "where" -> "where" [] o = "coalesce" -> "??"
PreSym(o) == CASE o = "neg" -> "-" [] o = "not" -> "!" [] o = "notw" -> "not "

\* ------------------------------------------------------------------ which children need parentheses
\* kinds whose text extends to the right as far as possible
OpenRight(t) == t.k \in {"if", "lam", "asg"}
IsBinT(t)    == t.k = "bin"
RECURSIVE FlatHasPipe(_)
FlatHasPipe(t) == /\ IsBinT(t) /\ Level(t.o) = 1
                  /\ (t.o \in {"via", "into", "where"} \/ FlatHasPipe(t.l))
NeedsParensR(parent, child, pos) ==
  CASE parent.k = "bin" ->
         \/ OpenRight(child)
         \/ /\ IsBinT(child)
            /\ \/ Level(child.o) < Level(parent.o)
               \/ /\ Level(child.o) = Level(parent.o)
                  /\ (IF RightAssoc(parent.o) THEN pos = "l" ELSE pos = "r")
    [] parent.k = "un"   -> IsBinT(child) \/ OpenRight(child)
    [] parent.k = "fact" -> IsBinT(child) \/ OpenRight(child) \/ child.k = "un"
    [] parent.k \in {"call", "idx", "dot"} ->
         pos = "target" /\ (IsBinT(child) \/ OpenRight(child) \/ child.k = "un")
    \* a lambda body may not have via / into / where at its flat top level (the left spine of level-1 operators)
    [] parent.k = "lam"  -> FlatHasPipe(child)
    [] parent.k = "spread" -> IsBinT(child) \/ OpenRight(child)
    [] OTHER -> FALSE

RECURSIVE JoinWith(_, _)
JoinWith(ss, sep) == IF ss = <<>> THEN "" ELSE IF Len(ss) = 1 THEN ss[1] ELSE ss[1] \o sep \o JoinWith(Tail(ss), sep)

ParamText(p) == CASE p.m = "req" -> p.n [] p.m = "opt" -> p.n \o "?" [] p.m = "rest" -> "..." \o p.n
\* string literals: the grammar has no escapes, so the quote character must not occur in the content
Quote(s, hasDq) == IF hasDq THEN "'" \o s \o "'" ELSE "\"" \o s \o "\""

\* Text(t, full): full = TRUE parenthesises every compound child, FALSE only where NeedsParensR says so
RECURSIVE Text(_, _)
Compound(t) == t.k \notin {"id", "num", "str", "bool", "null", "inref"}
W(parent, child, pos, full) ==
  IF (IF full THEN Compound(child) /\ child.k # "spread" ELSE NeedsParensR(parent, child, pos))
  THEN "(" \o Text(child, full) \o ")" ELSE Text(child, full)
\* a key is written bare when it is a plain name and quoted when it is a reserved word or not a name at all
QuotedKeys == {"if", "then", "else", "true", "false", "null", "and", "or", "not", "do", "return", "output", "a b", "1st", ""}
KeyText(k) == IF k \in QuotedKeys THEN "\"" \o k \o "\"" ELSE k
EntryText(parent, e, full) ==
  CASE e.ek = "static" -> KeyText(e.key) \o ": " \o W(parent, e.v, "item", full)
    [] e.ek = "dyn"    -> "[" \o W(parent, e.ke, "item", full) \o "]: " \o W(parent, e.v, "item", full)
    [] e.ek = "short"  -> e.n
    [] e.ek = "spread" -> "..." \o W(Spread(e.e), e.e, "e", full)
Text(t, full) ==
  CASE t.k = "id"    -> t.n
    [] t.k = "num"   -> ToString(t.v)
    [] t.k = "str"   -> Quote(t.s, t.dq)
    [] t.k = "bool"  -> IF t.b THEN "true" ELSE "false"
    [] t.k = "null"  -> "null"
    [] t.k = "inref" -> "#" \o t.n
    [] t.k = "bin"   -> W(t, t.l, "l", full) \o " " \o BinSym(t.o) \o " " \o W(t, t.r, "r", full)
    [] t.k = "un"    -> PreSym(t.o) \o W(t, t.e, "e", full)
    [] t.k = "fact"  -> W(t, t.e, "e", full) \o "!"
    [] t.k = "call"  -> W(t, t.f, "target", full) \o "("
                        \o JoinWith([i \in 1..Len(t.args) |-> W(t, t.args[i], "item", full)], ", ") \o ")"
    [] t.k = "idx"   -> W(t, t.e, "target", full) \o "[" \o W(t, t.i, "item", full) \o "]"
    [] t.k = "dot"   -> W(t, t.e, "target", full) \o "." \o t.f
    [] t.k = "if"    -> "if " \o W(t, t.c, "item", full) \o " then " \o W(t, t.t, "item", full)
                        \o " else " \o W(t, t.e, "item", full)
    [] t.k = "lam"   -> "(" \o JoinWith([i \in 1..Len(t.ps) |-> ParamText(t.ps[i])], ", ") \o ") => " \o W(t, t.b, "body", full)
    [] t.k = "do"    -> IF "semi" \in DOMAIN t
                        THEN "do { " \o JoinWith([i \in 1..Len(t.ss) |-> Text(t.ss[i], full) \o "; "], "") \o "return " \o Text(t.r, full) \o " }"
                        ELSE "do {\n" \o JoinWith([i \in 1..Len(t.ss) |-> "  " \o Text(t.ss[i], full) \o "\n"], "")
                             \o "  return " \o Text(t.r, full) \o "\n}"
    [] t.k = "asg"   -> t.n \o " = " \o Text(t.e, full)
    [] t.k = "list"  -> "[" \o JoinWith([i \in 1..Len(t.xs) |-> W(t, t.xs[i], "item", full)], ", ") \o "]"
    [] t.k = "rec"   -> "{" \o JoinWith([i \in 1..Len(t.es) |-> EntryText(t, t.es[i], full)], ", ") \o "}"
    [] t.k = "spread" -> "..." \o W(t, t.e, "e", full)
TextFull(t) == Text(t, TRUE)
TextMin(t)  == Text(t, FALSE)
StrLit(s, dq) == [k |-> "str", s |-> s, dq |-> dq]

\* ------------------------------------------------------------------ the chain generator
a == Id("a")  b == Id("b")  c == Id("c")  f == Id("f")  l == Id("l")  x == Id("x")
RepOps == {"nand", "via", "eq", "dlt", "add", "sub", "mul", "mod", "pow", "coalesce"}
\* every node kind with a hole X at every operand position, the other positions filled with leaves
Shapes(X) ==
     {Bin(o, X, b) : o \in RepOps} \cup {Bin(o, a, X) : o \in RepOps}
  \cup {Un("neg", X), Un("not", X), Un("notw", X), Fact(X)}
  \cup {Call(X, <<a>>), Call(f, <<X, b>>), Call(f, <<a, X>>), Call(f, <<Spread(X)>>), Idx(X, Num(0)), Idx(l, X), Dot(X, "f")}
  \cup {If(X, b, c), If(a, X, c), If(a, b, X)}
  \cup {Lam(<<P("x", "req")>>, X), Lam(<<P("x", "req"), P("y", "opt"), P("z", "rest")>>, X)}
  \cup {Call(f, <<Lam(<<P("r", "rest")>>, X), b>>), ListE(<<Lam(<<P("r", "rest")>>, X)>>), Lam(<<P("o", "opt")>>, X), Lam(<<>>, X),
        Call(f, <<Lam(<<P("o", "opt")>>, X)>>), RecE(<<EStatic("k", Lam(<<P("r", "rest")>>, X))>>)}      \* a lone rest / optional parameter, where `...` could be read as a spread
  \cup {Do(<<Asg("t", X)>>, Id("t")), Do(<<>>, X), Do(<<X>>, a)}
  \cup {DoS(<<Asg("t", b), X>>, Id("t")), DoS(<<X, Asg("t", b)>>, Id("t"))}     \* a second statement may begin with any token, e.g. a minus sign
  \cup {Asg("z", X)}
  \cup {ListE(<<X>>), ListE(<<a, X>>), ListE(<<Spread(X)>>)}
  \cup {RecE(<<EStatic("k", X)>>), RecE(<<EDyn(X, a)>>), RecE(<<EStatic("k", a), ESpread(X)>>)}
Leaves == {a, Num(1), StrLit("s", FALSE), StrLit("two\nlines", FALSE), StrLit("cr\r\nlf  x", FALSE), StrLit("say \"hi\"", TRUE), StrLit("it's", FALSE), StrLit("a\\b", FALSE),
           BoolL(TRUE), NullL, InRef("k"), ListE(<<>>), RecE(<<>>), RecE(<<EShort("a")>>),
           \* entries whose value is the name the key spells: `a: a` is not the shorthand `a` (and `inf: inf` even evaluates differently)
           RecE(<<EStatic("a", a)>>), RecE(<<EStatic("inf", Id("inf"))>>),
           RecE(<<EStatic("a", a), EStatic("b", b), EShort("c"), EStatic("f", f), EStatic("x", Num(1))>>)}
           \cup {RecE(<<EStatic(k, a)>>) : k \in {"via", "into", "where", "inputs", "constants", "sum", "inf", "x1", "_"} \cup QuotedKeys}
T1 == UNION {Shapes(lf) : lf \in {a}}
T1all == UNION {Shapes(lf) : lf \in Leaves}
T2 == UNION {Shapes(t) : t \in T1}
T3 == UNION {Shapes(t) : t \in T2}

\* Strings that span lines (a literal may contain line breaks, also CR LF): wherever the formatter lays an enclosing
\* construct out over several lines, the bytes inside the literal must stay as they are.  A small set of enclosing shapes,
\* nested up to three deep around such a literal.
MLString == StrLit("cr\r\nlf  x\n  indented", FALSE)
MLShapes(X) == {Bin("via", l, Lam(<<P("x", "req")>>, X)), Bin("add", X, b), Lam(<<P("x", "req")>>, X), ListE(<<a, X>>), RecE(<<EStatic("k", X)>>),
                Do(<<Asg("t", X)>>, Id("t")), If(a, X, c), Call(f, <<X, b>>), Asg("z", X)}
ML1 == MLShapes(MLString)
ML2 == UNION {MLShapes(t) : t \in ML1}
ML3 == UNION {MLShapes(t) : t \in ML2}

\* Spines: an open-ended construct (conditional, lambda, assignment - each swallows everything to its right) at the END of a
\* chain of n binary / unary operators hanging on their right operands, the whole chain standing where something follows it:
\* as the left operand of an operator, before `!`, a call, an index or a field access.  However deep the chain, the
\* parentheses around it must stay.
RECURSIVE RSpines(_, _, _)
RSpines(n, ops, tail) == IF n = 0 THEN {tail}
                         ELSE UNION {{Bin(o, a, s) : o \in ops} \cup {Un("neg", s)} : s \in RSpines(n - 1, ops, tail)}
OpenTails == {If(a, b, c), Lam(<<P("x", "req")>>, b), Asg("z", b)}
Followed(X, fops) == {Bin(o, X, b) : o \in fops} \cup {Fact(X), Call(X, <<a>>), Idx(X, Num(0)), Dot(X, "f")}
Spines(n, ops, fops) == UNION {Followed(s, fops) : s \in UNION {UNION {RSpines(k, ops, tl) : k \in 1..n} : tl \in OpenTails}}
=============================================================================
