------------------------------- MODULE MC_C16 -------------------------------
(***************************************************************************)
(* C16, literals: the literal automaton driven one character per step over *)
(* a 14-character alphabet; every string up to MaxLen is a path.  Every    *)
(* accepting state is emitted with the exact value it denotes.             *)
(***************************************************************************)
EXTENDS Numerals, TLC, Json

CONSTANT MaxLen
Alphabet == {"0", "1", "9", "a", "f", "_", ".", "e", "E", "+", "-", "x", "b", "7"}

VARIABLES text, s
vars == <<text, s>>
Init == text = <<>> /\ s = LitInit
Next == \E c \in Alphabet : /\ Len(text) < MaxLen /\ s.q # "dead"
                            /\ text' = Append(text, c) /\ s' = LitStep(s, c)
Spec == Init /\ [][Next]_vars

\* sanity of the automaton
DeadIsFinal == s.q = "dead" => ~LitAccepting(s)
AcceptingHasDigits == LitAccepting(s) => s.mant # <<>>
RunAgrees == s = LitRun(LitInit, text)                \* the step-wise machine equals the fold over the text
FracCounts == s.frac <= Len(s.mant)
Emit == LitAccepting(s) => PrintT(<<"CASE", ToJson([text |-> text, mant |-> s.mant, scale |-> LitScale(s), radix |-> s.radix])>>)
=============================================================================
