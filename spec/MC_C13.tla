------------------------------- MODULE MC_C13 -------------------------------
(***************************************************************************)
(* C13: one TLC state per (list, function, form).  The forms              *)
(*   via / map,  where / filter,  into / application,  every, some, reduce *)
(* are evaluated by the reference evaluator; the invariants state their    *)
(* pairwise agreement (result or failure alike) and the callback protocol  *)
(* (element, and the 0-based index iff the callback accepts one more       *)
(* argument, in list order).  Functions: lambdas of arity 1, 2, optional   *)
(* and rest parameters, a closure, self-recursive and mutually recursive   *)
(* named functions, built-ins of every arity class.                        *)
(***************************************************************************)
EXTENDS BlotsEval, TLC, Json

CONSTANT MaxL     \* maximal list length

N(v) == ENum(v)
X == EId("x")  I == EId("i")
Plus(a, b) == EBin("add", a, b)
True == EBin("eq", N(0), N(0))
False == EBin("eq", N(0), N(1))

\* setup statements defining named functions / captured values
Setup == <<
  EAsg("g", N(100)),
  EAsg("inc", ELam(<<Req("x")>>, Plus(X, N(1)))),
  EAsg("withidx", ELam(<<Req("x"), Req("i")>>, Plus(EBin("mul", X, N(10)), I))),
  EAsg("optidx", ELam(<<Req("x"), Prm("i", "opt")>>, EList(<<X, I>>))),
  EAsg("restall", ELam(<<Prm("r", "rest")>>, EId("r"))),
  EAsg("restafter", ELam(<<Req("x"), Prm("r", "rest")>>, EList(<<X, EId("r")>>))),
  EAsg("closure", ELam(<<Req("x")>>, Plus(X, EId("g")))),
  EAsg("fact", ELam(<<Req("x")>>, EIf(EBin("eq", X, N(0)), N(1), EBin("mul", X, ECall(EId("fact"), <<EBin("sub", X, N(1))>>))))),
  EAsg("isev", ELam(<<Req("x")>>, EIf(EBin("eq", X, N(0)), True, ECall(EId("isod"), <<EBin("sub", X, N(1))>>)))),
  EAsg("isod", ELam(<<Req("x")>>, EIf(EBin("eq", X, N(0)), False, ECall(EId("isev"), <<EBin("sub", X, N(1))>>)))),
  EAsg("small", ELam(<<Req("x")>>, EBin("lt", X, N(2)))),
  EAsg("first", ELam(<<Req("x"), Req("i")>>, EBin("eq", I, N(0)))),
  EAsg("notbool", ELam(<<Req("x")>>, X)),
  EAsg("nullp", ELam(<<Req("x")>>, EIf(EBin("lt", X, N(2)), True, ELit(Null)))),       \* true for some elements, no answer for the others
  EAsg("failing", ELam(<<Req("x")>>, EIf(EBin("eq", X, N(2)), EId("zz"), X))),
  EAsg("acc2", ELam(<<Req("a"), Req("x")>>, Plus(EBin("mul", EId("a"), N(2)), X))),
  EAsg("acc3", ELam(<<Req("a"), Req("x"), Req("i")>>, Plus(Plus(EId("a"), X), I))),
  EAsg("two", ELam(<<Req("x"), Req("i"), Req("j")>>, X)),
  \* callbacks that build a list of their own while the built-in is still walking its argument
  EAsg("allocp", ELam(<<Req("x")>>, EBin("lt", ECall(EId("sum"), <<EList(<<X, N(0)>>)>>), N(2)))),
  EAsg("cnt", ELam(<<Req("a"), Req("x")>>, Plus(EBin("coalesce", EId("a"), N(0)), N(1)))),      \* works from a null accumulator
  EAsg("accl", ELam(<<Req("a"), Req("x")>>, Plus(EId("a"), ECall(EId("len"), <<EList(<<X, EId("a")>>)>>))))
>>
Mappers    == {"inc", "withidx", "optidx", "restall", "restafter", "closure", "fact", "sum", "max", "len", "two", "failing", "g"}
Predicates == {"small", "first", "isev", "isod", "notbool", "failing", "inc", "allocp", "nullp"}
Reducers   == {"acc2", "acc3", "restall", "sum", "inc", "accl"}

ElemPool == {0, 1, 2, 3}
Lists == UNION {{EList([i \in 1..k |-> N(s[i])]) : s \in [1..k -> ElemPool]} : k \in 0..MaxL}

VARIABLE c
\* where the function comes from: named at top level; a parameter of a factory whose returned closure is called after the
\* factory has returned; a local of a do-block whose returned closure is called after the block
Sites == {"direct", "factory", "block"}
OpForms == {"via", "where", "into"}
Init == \/ c \in {[form |-> "via", l |-> l, f |-> f, site |-> s] : l \in Lists, f \in Mappers, s \in Sites}
        \/ c \in {[form |-> "where", l |-> l, f |-> f, site |-> s] : l \in Lists, f \in Predicates, s \in Sites}
        \/ c \in {[form |-> "into", l |-> l, f |-> f, site |-> s] : l \in Lists \cup {N(2), N(3)}, f \in Mappers, s \in Sites}
        \/ c \in {[form |-> "every", l |-> l, f |-> f, site |-> "direct"] : l \in Lists, f \in Predicates}
        \/ c \in {[form |-> "some", l |-> l, f |-> f, site |-> "direct"] : l \in Lists, f \in Predicates}
        \/ c \in {[form |-> "reduce", l |-> l, f |-> f, site |-> "direct"] : l \in Lists, f \in Reducers}
        \/ c \in {[form |-> "reducen", l |-> l, f |-> f, site |-> "direct"] : l \in Lists, f \in {"cnt", "restall", "acc2", "acc3"}}   \* initial value null
Next == UNCHANGED c
Spec == Init /\ [][Next]_c

RECURSIVE RunAll(_, _)
RunAll(ss, env) == IF ss = <<>> THEN env ELSE RunAll(Tail(ss), Eval(Head(ss), env, 0).env)
Env0 == RunAll(Setup, <<EmptyFrame>>)
Ev(e) == Eval(e, Env0, 0).v
Fe == EId(c.f)

\* the two equivalent programs of each form, over a list expression le and a function expression fe
BodyA(form, le, fe) ==
  CASE form = "via"    -> EBin("via", le, fe)
    [] form = "where"  -> EBin("where", le, fe)
    [] form = "into"   -> EBin("into", le, fe)
    [] form = "every"  -> ECall(EId("every"), <<le, fe>>)
    [] form = "some"   -> ECall(EId("some"), <<le, fe>>)
    [] form = "reduce" -> ECall(EId("reduce"), <<le, fe, N(1)>>)
    [] form = "reducen" -> ECall(EId("reduce"), <<le, fe, ELit(Null)>>)
BodyB(form, le, fe) ==
  CASE form = "via"    -> ECall(EId("map"), <<le, fe>>)
    [] form = "where"  -> ECall(EId("filter"), <<le, fe>>)
    [] form = "into"   -> ECall(fe, <<le>>)
    [] OTHER -> BodyA(form, le, fe)
\* the body placed at the site
At(site, body(_, _)) ==
  CASE site = "direct"  -> body(c.l, Fe)
    [] site = "factory" -> ECall(ECall(ELam(<<Req("cb")>>, ELam(<<Req("ys")>>, body(EId("ys"), EId("cb")))), <<Fe>>), <<c.l>>)
    [] site = "block"   -> ECall(EDo(<<EAsg("cb", Fe)>>, ELam(<<Req("ys")>>, body(EId("ys"), EId("cb")))), <<c.l>>)
FormA == At(c.site, LAMBDA le, fe : BodyA(c.form, le, fe))
FormB == At(c.site, LAMBDA le, fe : BodyB(c.form, le, fe))
ProjV(v) == IF v.t = "err" THEN [t |-> "err"] ELSE v

\* ------------------------------------------------------------------ the laws on the reference evaluator
FormsAgree == ProjV(Ev(FormA)) = ProjV(Ev(FormB))
\* the callback protocol, stated directly: the result of via is the list of f(elem[, index]) in order
xs == c.l.xs
Fv == Ev(Fe)
CallbackProtocol ==
  (c.form = "via" /\ c.site = "direct" /\ c.l.k = "list" /\ (IsFn(Fv) \/ IsBi(Fv))) =>
     LET rs == [j \in 1..Len(xs) |-> ApplyFn(Fv, IF FnCanAccept(Fv, 2) THEN <<Fin(xs[j].v), Fin(j - 1)>> ELSE <<Fin(xs[j].v)>>, Env0, 0)] IN
     IF \E j \in 1..Len(rs) : IsE(rs[j]) THEN IsE(Ev(FormA)) ELSE Ev(FormA) = List(rs)
EverySome ==
  (c.form \in {"every", "some"} /\ IsFn(Fv)) =>
     LET rs == [j \in 1..Len(xs) |-> ApplyFn(Fv, IF FnCanAccept(Fv, 2) THEN <<Fin(xs[j].v), Fin(j - 1)>> ELSE <<Fin(xs[j].v)>>, Env0, 0)] IN
     (\A j \in 1..Len(rs) : IsBool(rs[j])) =>
        Ev(FormA) = Bool(IF c.form = "every" THEN \A j \in 1..Len(rs) : rs[j].b ELSE \E j \in 1..Len(rs) : rs[j].b)
RECURSIVE LeftFold(_, _, _)
LeftFold(j, acc, three) == IF j > Len(xs) \/ IsE(acc) THEN acc
                           ELSE LeftFold(j + 1, ApplyFn(Fv, IF three THEN <<acc, Fin(xs[j].v), Fin(j - 1)>> ELSE <<acc, Fin(xs[j].v)>>, Env0, 0), three)
ReduceIsLeftFold == (c.form \in {"reduce", "reducen"} /\ (IsFn(Fv) \/ IsBi(Fv))) =>
                       ProjV(Ev(FormA)) = ProjV(LeftFold(1, IF c.form = "reduce" THEN Fin(1) ELSE Null, FnCanAccept(Fv, 3)))

ASSUME PrintT(<<"SETUP", ToJson(Setup)>>)
\* the site does not matter: a function held in a captured parameter or local behaves as the named function does
SiteIndependent == ProjV(Ev(FormA)) = ProjV(Ev(BodyA(c.form, c.l, Fe)))
Emit == PrintT(<<"CASE", ToJson([form |-> c.form, site |-> c.site, f |-> c.f, a |-> FormA, b |-> FormB, exp |-> ProjV(Ev(FormA))])>>)
=============================================================================
