------------------------------- MODULE MC_C19 -------------------------------
EXTENDS Cli, Json
EmitDone == phase = "done" =>
   PrintT(<<"CASE", ToJson([mode |-> mode, stdin |-> stdin, flags |-> flags, script |-> script, exit |-> exit,
                            object |-> IF exit = 0 THEN Object ELSE <<>>])>>)
=============================================================================
