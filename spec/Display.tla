------------------------------ MODULE Display ------------------------------
(***************************************************************************)
(* How values are shown as text (to_string, the arguments of format, and   *)
(* the REPL): extended conformance X03, outside the listed properties      *)
(* (C20 covers the numerals themselves).                                   *)
(*   - a string is shown bare, also inside lists and records;              *)
(*   - lists "[a, b]", records "{k: v, ..}" with bare keys, in order;      *)
(*   - true / false / null; -0, inf, -inf, NaN; small integers in decimal; *)
(*   - a built-in "name (built-in)".                                       *)
(* format(f, args..): each "{}" takes the next argument's text (nothing    *)
(* when the arguments are used up, surplus arguments are ignored), "{{"    *)
(* and "}}" are literal braces.                                            *)
(***************************************************************************)
EXTENDS BlotsValues, TLC

\* the ASCII part of the harness ALPHABET (index -> character); other indexes are not used by this module
Chr == <<"?", " ", "\"", "'", "0", "1", "9", "A", "Z", "\\", "_", "a", "b", "c", "z">>
RECURSIVE CsText(_)
CsText(cs) == IF cs = <<>> THEN "" ELSE Chr[Head(cs)] \o CsText(Tail(cs))

IntText(n) == IF n < 0 THEN "-" \o ToString(-n) ELSE ToString(n)
NumText(x) == CASE x.k = "fin" -> IntText(x.n) [] x.k = "nzero" -> "-0" [] x.k = "pinf" -> "inf" [] x.k = "ninf" -> "-inf" [] x.k = "nan" -> "NaN"

RECURSIVE Show(_)
RECURSIVE Join(_, _)
Join(ss, sep) == IF ss = <<>> THEN "" ELSE IF Len(ss) = 1 THEN ss[1] ELSE ss[1] \o sep \o Join(Tail(ss), sep)
Show(v) ==
  CASE v.t = "num"  -> NumText(v)
    [] v.t = "str"  -> CsText(v.cs)
    [] v.t = "bool" -> IF v.b THEN "true" ELSE "false"
    [] v.t = "null" -> "null"
    [] v.t = "list" -> "[" \o Join([i \in 1..Len(v.xs) |-> Show(v.xs[i])], ", ") \o "]"
    [] v.t = "rec"  -> "{" \o Join([i \in 1..Len(v.ks) |-> CsText(v.ks[i]) \o ": " \o Show(v.vs[i])], ", ") \o "}"
    [] v.t = "bi"   -> v.name \o " (built-in)"

\* a format string as a sequence of pieces: "{}" (hole), "{{", "}}", or literal text
RECURSIVE Fmt(_, _)
Fmt(ps, args) ==
  IF ps = <<>> THEN ""
  ELSE CASE Head(ps) = "{}" -> (IF args = <<>> THEN "" ELSE Show(Head(args))) \o Fmt(Tail(ps), IF args = <<>> THEN <<>> ELSE Tail(args))
         [] Head(ps) = "{{" -> "{" \o Fmt(Tail(ps), args)
         [] Head(ps) = "}}" -> "}" \o Fmt(Tail(ps), args)
         [] OTHER           -> Head(ps) \o Fmt(Tail(ps), args)
FmtText(ps) == Join(ps, "")
=============================================================================
