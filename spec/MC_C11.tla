------------------------------- MODULE MC_C11 -------------------------------
(***************************************************************************)
(* C11: one TLC state per (operator, left operand, right operand); the     *)
(* operands range over scalars and short lists over an element pool, so    *)
(* scalar-scalar, list-scalar, scalar-list and list-list (equal and        *)
(* unequal length) shapes are all present.  Model-level invariants state   *)
(* the broadcasting law against the element operation; each state is       *)
(* emitted with the predicted outcome for replay.                          *)
(***************************************************************************)
EXTENDS BlotsOps, TLC, Json

CONSTANT Big

EPq == {Fin(-2), Fin(0), Fin(3), PInf, NaN, Str(<<12>>), Str(<<13>>), Bool(TRUE), Bool(FALSE), Null, List(<<Fin(1)>>), List(<<NaN>>)}
EPt == EPq \cup {NZero, NInf, Fin(2), Str(<<>>), Rec(<<>>, <<>>), List(<<>>)}
EP  == IF Big THEN EPt ELSE EPq
\* smaller pool for list x list
LPq == {Fin(3), NaN, Str(<<12>>), Bool(TRUE), Null, List(<<Fin(1)>>), List(<<NaN>>)}
LPt == LPq \cup {Fin(-2), Bool(FALSE), PInf}
LP  == IF Big THEN LPt ELSE LPq

ListsOver(P, n) == UNION {{List(s) : s \in [1..k -> P]} : k \in 0..n}
Scalars == {x \in EP : ~IsList(x)}
ListsE  == ListsOver(EP, 2)
ListsL  == ListsOver(LP, 2)

VARIABLES op, a, b
vars == <<op, a, b>>

Init == /\ op \in BroadcastOps
        /\ \/ (a \in Scalars /\ b \in Scalars)
           \/ (a \in ListsE /\ b \in Scalars)
           \/ (a \in Scalars /\ b \in ListsE)
           \/ (a \in ListsL /\ b \in ListsL)
Next == UNCHANGED vars
Spec == Init /\ [][Next]_vars

res == BinOp(op, a, b)

\* the law, restated independently of Collect: shape, element-wise content, failure condition
LawShape ==
  /\ (IsList(a) /\ IsList(b) /\ Len(a.xs) # Len(b.xs)) => IsErr(res)
  /\ (IsList(a) /\ IsList(b) /\ Len(a.xs) = Len(b.xs)) =>
        /\ IsErr(res) = (\E i \in 1..Len(a.xs) : IsErr(ElemOp(op, a.xs[i], b.xs[i])))
        /\ ~IsErr(res) => (IsList(res) /\ Len(res.xs) = Len(a.xs)
                            /\ \A i \in 1..Len(a.xs) : res.xs[i] = ElemOp(op, a.xs[i], b.xs[i]))
  /\ (IsList(a) /\ ~IsList(b)) =>
        /\ IsErr(res) = (\E i \in 1..Len(a.xs) : IsErr(ElemOp(op, a.xs[i], b)))
        /\ ~IsErr(res) => (IsList(res) /\ \A i \in 1..Len(a.xs) : res.xs[i] = ElemOp(op, a.xs[i], b))
  /\ (~IsList(a) /\ IsList(b)) =>
        /\ IsErr(res) = (\E i \in 1..Len(b.xs) : IsErr(ElemOp(op, a, b.xs[i])))
        /\ ~IsErr(res) => (IsList(res) /\ \A i \in 1..Len(b.xs) : res.xs[i] = ElemOp(op, a, b.xs[i]))
\* scalar facts named by the property
LawScalar ==
  (~IsList(a) /\ ~IsList(b)) =>
     /\ (op = "coalesce") => (res = IF IsNull(a) THEN b ELSE a)
     /\ (op \in AndOps \cup OrOps /\ ~IsBool(a)) => IsErr(res)
     /\ (op \in {"lt", "le", "gt", "ge"}) => (IsErr(res) = ~Comparable(a, b))
     /\ (op \in ArithOps /\ IsNum(a) /\ IsNum(b)) => ~IsErr(res)
     /\ (op = "add" /\ IsStr(a) /\ IsStr(b)) => res = Str(a.cs \o b.cs)
\* word and symbol spellings agree
LawSpelling == /\ op = "and" => res = BinOp("nand", a, b)
               /\ op = "or"  => res = BinOp("nor", a, b)

Case == [op |-> op, a |-> a, b |-> b, exp |-> res]
Emit == PrintT(<<"CASE", ToJson(Case)>>)
=============================================================================
