------------------------------- MODULE MC_C06 -------------------------------
(***************************************************************************)
(* C06: one TLC state per data value (family "value") or JSON document     *)
(* (family "json") of a universe built from a leaf pool (numbers incl. -0, *)
(* strings with quotes, backslash, tab, non-ASCII, numeric-looking; keys   *)
(* incl. the empty key, keys needing quotes and the reserved key) up to    *)
(* depth 3.  Invariants on the mapping: FromJ(ToJ(v)) .== v unless v holds *)
(* a record of the reserved form; ToJ(FromJ(j)) = j as JSON values unless  *)
(* j holds the reserved form.                                              *)
(***************************************************************************)
EXTENDS JsonMap, TLC, Json

CONSTANT Deep
ReservedKeyC == <<99>>      \* the harness renders character index 99 as the whole key text __blots_function

S(x) == Str(x)
NumLeaves == {Fin(0), Fin(-1), Fin(7), NZero}
StrLeaves == {S(<<>>), S(<<12>>), S(<<3>>), S(<<4>>), S(<<10>>), S(<<1>>), S(<<16, 19>>), S(<<5>>), S(<<3, 4>>)}
Leaves == NumLeaves \cup StrLeaves \cup {Bool(TRUE), Bool(FALSE), Null}
SmallLeaves == {Fin(7), S(<<12>>), S(<<3>>), Null, NZero}
KeyPool == {<<>>, <<12>>, <<5>>, <<12, 2, 13>>, <<3>>, <<16>>, ReservedKey}
Lists1 == {List(<<>>)} \cup {List(<<x>>) : x \in Leaves} \cup {List(<<x, y>>) : x \in SmallLeaves, y \in Leaves}
Recs1 == {Rec(<<>>, <<>>)} \cup {Rec(<<k>>, <<x>>) : k \in KeyPool, x \in Leaves}
           \cup {r \in {Rec(<<k1, k2>>, <<x, y>>) : k1 \in KeyPool, k2 \in KeyPool, x \in SmallLeaves, y \in SmallLeaves} : r.ks[1] # r.ks[2]}
D1 == Leaves \cup Lists1 \cup Recs1
MidV == {List(<<>>), List(<<Fin(7), S(<<3>>)>>), Rec(<<>>, <<>>), Rec(<<<<12>>, <<5>>>>, <<Fin(7), Null>>), Rec(<<<<3>>>>, <<S(<<4>>)>>)}
D2 == {List(<<x>>) : x \in Lists1 \cup Recs1} \cup {Rec(<<k>>, <<x>>) : k \in {<<12>>, <<>>}, x \in Lists1 \cup Recs1}
      \cup {List(<<x, y>>) : x \in MidV, y \in MidV}
D3 == {List(<<Rec(<<<<12>>>>, <<x>>)>>) : x \in {v \in D2 : v.t = "list"}} \cup {Rec(<<<<13>>>>, <<List(<<x, Fin(0)>>)>>) : x \in {v \in D2 : v.t = "rec"}}
Values == D1 \cup D2 \cup (IF Deep THEN D3 ELSE {})

VARIABLE c
Init == \/ c \in {[fam |-> "value", v |-> v] : v \in Values}
        \/ c \in {[fam |-> "json", v |-> v] : v \in D1 \cup MidV}
Next == UNCHANGED c
Spec == Init /\ [][Next]_c

RoundTripValue == c.fam = "value" => (HasReservedRecord(c.v) \/ Equals(FromJ(ToJ(c.v)), c.v))
\* a JSON document is reproduced; here the document is the JSON image of a value (every JSON document is one)
RoundTripJson == c.fam = "json" => (HasReservedRecord(c.v) \/ JEq(ToJ(FromJ(ToJ(c.v))), ToJ(c.v)))
KeysSorted == (c.fam = "value" /\ c.v.t = "rec" /\ ~HasReservedRecord(c.v)) =>
                 LET r == FromJ(ToJ(c.v)) IN \A i \in 1..(Len(r.ks) - 1) : CmpSeq(r.ks[i], r.ks[i + 1]) = "lt"

Emit == PrintT(<<"CASE", ToJson([fam |-> c.fam, v |-> c.v, reserved |-> HasReservedRecord(c.v)])>>)
=============================================================================
