------------------------------ MODULE Numerals ------------------------------
(***************************************************************************)
(* Two character automata.                                                 *)
(*                                                                         *)
(* 1. The number literals Blots documents (property C16): decimal with     *)
(*    optional fraction and exponent, leading-dot, underscore-separated    *)
(*    digit groups, 0x hexadecimal and 0b binary, with an optional + sign. *)
(*    Lit* : a deterministic automaton consuming one character per step    *)
(*    and carrying the EXACT value as (mantissa digits, decimal scale) or  *)
(*    (digits, radix): no floating point anywhere.                         *)
(*                                                                         *)
(* 2. The display numerals of `format` (property C20): optional sign,      *)
(*    integer digits grouped in threes by commas, optional fraction - or   *)
(*    mantissa e exponent - or NaN / Infinity / -Infinity.  Disp* : an     *)
(*    automaton that also extracts the significant digits and the decimal  *)
(*    exponent, plus digit-sequence arithmetic for the 15-digit accuracy   *)
(*    relation.                                                            *)
(* Characters are one-character strings.                                   *)
(***************************************************************************)
EXTENDS Naturals, Integers, Sequences

DecDigits == {"0", "1", "2", "3", "4", "5", "6", "7", "8", "9"}
HexLetters == {"a", "b", "c", "d", "e", "f", "A", "B", "C", "D", "E", "F"}
DigitVal(c) == CASE c = "0" -> 0 [] c = "1" -> 1 [] c = "2" -> 2 [] c = "3" -> 3 [] c = "4" -> 4 [] c = "5" -> 5
                 [] c = "6" -> 6 [] c = "7" -> 7 [] c = "8" -> 8 [] c = "9" -> 9
                 [] c \in {"a", "A"} -> 10 [] c \in {"b", "B"} -> 11 [] c \in {"c", "C"} -> 12
                 [] c \in {"d", "D"} -> 13 [] c \in {"e", "E"} -> 14 [] c \in {"f", "F"} -> 15

\* ------------------------------------------------------------------ 1. literal automaton
\* q: control state; mant: digits seen (as numbers, in order); frac: number of fraction digits;
\* ex: exponent magnitude; exneg: exponent sign; radix
LitInit == [q |-> "start", mant |-> <<>>, frac |-> 0, ex |-> 0, exneg |-> FALSE, radix |-> 10]
Dead(s) == [s EXCEPT !.q = "dead"]
LitStep(s, c) ==
  CASE s.q = "start" -> IF c = "+" THEN [s EXCEPT !.q = "signed"]
                        ELSE IF c = "0" THEN [s EXCEPT !.q = "zero", !.mant = <<0>>]
                        ELSE IF c \in DecDigits THEN [s EXCEPT !.q = "int", !.mant = <<DigitVal(c)>>]
                        ELSE IF c = "." THEN [s EXCEPT !.q = "dot0"] ELSE Dead(s)
    \* an explicit + is documented for integers, 0x and 0b; "+.5" is not a documented spelling
    [] s.q = "signed" -> IF c = "0" THEN [s EXCEPT !.q = "zero", !.mant = <<0>>]
                         ELSE IF c \in DecDigits THEN [s EXCEPT !.q = "int", !.mant = <<DigitVal(c)>>]
                         ELSE Dead(s)
    \* a single 0: may start 0x / 0b, or continue as a decimal
    [] s.q = "zero"  -> IF c = "x" THEN [s EXCEPT !.q = "hex0", !.mant = <<>>, !.radix = 16]
                        ELSE IF c = "b" THEN [s EXCEPT !.q = "bin0", !.mant = <<>>, !.radix = 2]
                        ELSE IF c \in DecDigits THEN [s EXCEPT !.q = "int", !.mant = Append(@, DigitVal(c))]
                        ELSE IF c = "_" THEN [s EXCEPT !.q = "int_us"]
                        ELSE IF c = "." THEN [s EXCEPT !.q = "dot"]
                        ELSE IF c \in {"e", "E"} THEN [s EXCEPT !.q = "exp0"] ELSE Dead(s)
    [] s.q = "int"   -> IF c \in DecDigits THEN [s EXCEPT !.mant = Append(@, DigitVal(c))]
                        ELSE IF c = "_" THEN [s EXCEPT !.q = "int_us"]
                        ELSE IF c = "." THEN [s EXCEPT !.q = "dot"]
                        ELSE IF c \in {"e", "E"} THEN [s EXCEPT !.q = "exp0"] ELSE Dead(s)
    [] s.q = "int_us" -> IF c \in DecDigits THEN [s EXCEPT !.q = "int", !.mant = Append(@, DigitVal(c))]
                         ELSE IF c = "_" THEN s ELSE Dead(s)
    [] s.q \in {"dot", "dot0"} -> IF c \in DecDigits THEN [s EXCEPT !.q = "frac", !.mant = Append(@, DigitVal(c)), !.frac = 1] ELSE Dead(s)
    [] s.q = "frac"  -> IF c \in DecDigits THEN [s EXCEPT !.mant = Append(@, DigitVal(c)), !.frac = @ + 1]
                        ELSE IF c \in {"e", "E"} THEN [s EXCEPT !.q = "exp0"] ELSE Dead(s)
    [] s.q = "exp0"  -> IF c = "+" THEN [s EXCEPT !.q = "expsign"]
                        ELSE IF c = "-" THEN [s EXCEPT !.q = "expsign", !.exneg = TRUE]
                        ELSE IF c \in DecDigits THEN [s EXCEPT !.q = "exp", !.ex = DigitVal(c)] ELSE Dead(s)
    [] s.q = "expsign" -> IF c \in DecDigits THEN [s EXCEPT !.q = "exp", !.ex = DigitVal(c)] ELSE Dead(s)
    [] s.q = "exp"   -> IF c \in DecDigits /\ s.ex < 100000 THEN [s EXCEPT !.ex = 10 * @ + DigitVal(c)] ELSE Dead(s)
    [] s.q \in {"hex0", "hex_us"} -> IF c \in DecDigits \cup HexLetters THEN [s EXCEPT !.q = "hex", !.mant = Append(@, DigitVal(c))]
                                     ELSE IF s.q = "hex_us" /\ c = "_" THEN s ELSE Dead(s)
    [] s.q = "hex"   -> IF c \in DecDigits \cup HexLetters THEN [s EXCEPT !.mant = Append(@, DigitVal(c))]
                        ELSE IF c = "_" THEN [s EXCEPT !.q = "hex_us"] ELSE Dead(s)
    [] s.q \in {"bin0", "bin_us"} -> IF c \in {"0", "1"} THEN [s EXCEPT !.q = "bin", !.mant = Append(@, DigitVal(c))]
                                     ELSE IF s.q = "bin_us" /\ c = "_" THEN s ELSE Dead(s)
    [] s.q = "bin"   -> IF c \in {"0", "1"} THEN [s EXCEPT !.mant = Append(@, DigitVal(c))]
                        ELSE IF c = "_" THEN [s EXCEPT !.q = "bin_us"] ELSE Dead(s)
    [] OTHER -> Dead(s)
LitAccepting(s) == s.q \in {"zero", "int", "frac", "exp", "hex", "bin"}
\* the exact value of an accepted literal:  mant (base radix)  x  10 ^ scale
LitScale(s) == (IF s.exneg THEN -s.ex ELSE s.ex) - s.frac
RECURSIVE LitRun(_, _)
LitRun(s, cs) == IF cs = <<>> THEN s ELSE LitRun(LitStep(s, Head(cs)), Tail(cs))
LitAccepts(cs) == LitAccepting(LitRun(LitInit, cs))

\* ------------------------------------------------------------------ 2. display numerals
\* q: control state; ds: significant digits seen (leading zeros dropped); point: digits before the decimal point
\* counted from the first non-zero digit (may be <= 0 for 0.00ddd); grp: digits in the current comma group
DispInit == [q |-> "start", neg |-> FALSE, ds |-> <<>>, intd |-> 0, lead0 |-> 0, grp |-> 0, groups |-> 0,
             ex |-> 0, exneg |-> FALSE, sci |-> FALSE, word |-> <<>>]
DDead(s) == [s EXCEPT !.q = "dead"]
PushDigit(s, c, infrac) ==
  LET d == DigitVal(c) IN
  IF s.ds = <<>> /\ d = 0 THEN (IF infrac THEN [s EXCEPT !.lead0 = @ + 1] ELSE s)        \* leading zeros carry no digit
  ELSE [s EXCEPT !.ds = Append(@, d), !.intd = IF infrac THEN @ ELSE @ + 1]
DispStep(s, c) ==
  CASE s.q = "start" -> IF c = "-" THEN [s EXCEPT !.q = "sign", !.neg = TRUE]
                        ELSE IF c \in DecDigits THEN [PushDigit(s, c, FALSE) EXCEPT !.q = "int", !.grp = 1]
                        ELSE IF c \in {"N", "I"} THEN [s EXCEPT !.q = "word", !.word = <<c>>] ELSE DDead(s)
    [] s.q = "sign"  -> IF c \in DecDigits THEN [PushDigit(s, c, FALSE) EXCEPT !.q = "int", !.grp = 1]
                        ELSE IF c = "I" THEN [s EXCEPT !.q = "word", !.word = <<c>>] ELSE DDead(s)
    [] s.q = "word"  -> [s EXCEPT !.word = Append(@, c)]
    \* first group: 1..3 digits; after a comma exactly 3
    [] s.q = "int"   -> IF c \in DecDigits THEN [PushDigit(s, c, FALSE) EXCEPT !.grp = s.grp + 1]
                        ELSE IF c = "," THEN (IF s.grp \in 1..3 /\ (s.groups = 0 \/ s.grp = 3) THEN [s EXCEPT !.q = "comma", !.grp = 0, !.groups = @ + 1] ELSE DDead(s))
                        ELSE IF c = "." THEN [s EXCEPT !.q = "dot"]
                        ELSE IF c = "e" THEN [s EXCEPT !.q = "exp0", !.sci = TRUE] ELSE DDead(s)
    [] s.q = "comma" -> IF c \in DecDigits THEN [PushDigit(s, c, FALSE) EXCEPT !.q = "int", !.grp = 1] ELSE DDead(s)
    [] s.q = "dot"   -> IF c \in DecDigits THEN [PushDigit(s, c, TRUE) EXCEPT !.q = "frac"] ELSE DDead(s)
    [] s.q = "frac"  -> IF c \in DecDigits THEN PushDigit(s, c, TRUE)
                        ELSE IF c = "e" THEN [s EXCEPT !.q = "exp0", !.sci = TRUE] ELSE DDead(s)
    [] s.q = "exp0"  -> IF c = "-" THEN [s EXCEPT !.q = "expsign", !.exneg = TRUE]
                        ELSE IF c \in DecDigits THEN [s EXCEPT !.q = "exp", !.ex = DigitVal(c)] ELSE DDead(s)
    [] s.q = "expsign" -> IF c \in DecDigits THEN [s EXCEPT !.q = "exp", !.ex = DigitVal(c)] ELSE DDead(s)
    [] s.q = "exp"   -> IF c \in DecDigits /\ s.ex < 1000 THEN [s EXCEPT !.ex = 10 * @ + DigitVal(c)] ELSE DDead(s)
    [] OTHER -> DDead(s)
RECURSIVE DispRun(_, _)
DispRun(s, cs) == IF cs = <<>> THEN s ELSE DispRun(DispStep(s, Head(cs)), Tail(cs))
NaNWord == <<"N", "a", "N">>
InfWord == <<"I", "n", "f", "i", "n", "i", "t", "y">>
\* well-formed: a complete numeral; every comma group complete; scientific mantissa has one integer digit
DispWellFormed(s) ==
  \/ s.q = "word" /\ (s.word = InfWord \/ (s.word = NaNWord /\ ~s.neg))
  \/ /\ s.q \in {"int", "frac", "exp"}
     /\ (s.groups > 0 => (s.q # "int" \/ s.grp = 3))          \* the last group before the end / the point has 3 digits
     /\ (s.sci => s.groups = 0)
DispGroupsOk(cs) == TRUE
\* decimal exponent of the first significant digit (value = 0.d1d2d3... x 10^E10 with E10 below)
DispE10(s) == (IF s.ds = <<>> THEN 0 ELSE IF s.intd > 0 THEN s.intd ELSE -s.lead0) + (IF s.exneg THEN -s.ex ELSE s.ex)

\* ------------------------------------------------------------------ digit sequences
RECURSIVE StripTrailingZeros(_)
StripTrailingZeros(ds) == IF ds # <<>> /\ ds[Len(ds)] = 0 THEN StripTrailingZeros(SubSeq(ds, 1, Len(ds) - 1)) ELSE ds
Pad(ds, n) == IF Len(ds) >= n THEN SubSeq(ds, 1, n) ELSE ds \o [i \in 1..(n - Len(ds)) |-> 0]
\* ds + 1 in the last place; carry |-> TRUE when it overflows to 1000...0 (one more digit)
RECURSIVE IncDigits(_)
IncDigits(ds) == IF ds = <<>> THEN [ds |-> <<>>, carry |-> TRUE]
                 ELSE IF ds[Len(ds)] < 9 THEN [ds |-> [ds EXCEPT ![Len(ds)] = @ + 1], carry |-> FALSE]
                 ELSE LET r == IncDigits(SubSeq(ds, 1, Len(ds) - 1)) IN [ds |-> Append(r.ds, 0), carry |-> r.carry]
=============================================================================
