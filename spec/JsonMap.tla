------------------------------ MODULE JsonMap ------------------------------
(***************************************************************************)
(* The mapping between Blots data values and JSON documents (property      *)
(* C06): ToJ for outputs, FromJ for inputs, with the reserved object form  *)
(* {"__blots_function": "<source>"} that denotes a function on input.      *)
(* JSON objects are unordered (compared as such); an object read as input  *)
(* becomes a record whose keys come in sorted order.                       *)
(***************************************************************************)
EXTENDS BlotsBuiltins

JNull == [j |-> "null"]
JBool(b) == [j |-> "bool", b |-> b]
JNum(v) == [j |-> "num", v |-> v]          \* v: a model number (BlotsValues), finite
JStr(cs) == [j |-> "str", cs |-> cs]
JArr(xs) == [j |-> "arr", xs |-> xs]
JObj(ks, vs) == [j |-> "obj", ks |-> ks, vs |-> vs]   \* unique keys

\* the reserved key "__blots_function" as character indexes is supplied by the model-checking module
CONSTANT ReservedKey
FnMarker == [t |-> "fn"]

RECURSIVE ToJ(_)
ToJ(v) == CASE v.t = "num"  -> JNum(v)
            [] v.t = "str"  -> JStr(v.cs)
            [] v.t = "bool" -> JBool(v.b)
            [] v.t = "null" -> JNull
            [] v.t = "list" -> JArr([i \in 1..Len(v.xs) |-> ToJ(v.xs[i])])
            [] v.t = "rec"  -> JObj(v.ks, [i \in 1..Len(v.vs) |-> ToJ(v.vs[i])])

\* keys of an object in sorted (code point) order, as the input reader delivers them
SortedKeys(ks) == StableSort(ks, [i \in 1..Len(ks) |-> Str(ks[i])])
IsReservedForm(j) == j.j = "obj" /\ Len(j.ks) = 1 /\ j.ks[1] = ReservedKey /\ j.vs[1].j = "str"
RECURSIVE FromJ(_)
FromJ(j) == CASE j.j = "null" -> Null
              [] j.j = "bool" -> Bool(j.b)
              [] j.j = "num"  -> j.v
              [] j.j = "str"  -> Str(j.cs)
              [] j.j = "arr"  -> List([i \in 1..Len(j.xs) |-> FromJ(j.xs[i])])
              [] j.j = "obj"  -> IF IsReservedForm(j) THEN FnMarker
                                 ELSE LET sk == SortedKeys(j.ks) IN
                                      Rec(sk, [i \in 1..Len(sk) |-> FromJ(j.vs[KeyPos(j.ks, sk[i], 1)])])

\* JSON value equality: numbers as doubles, objects unordered
RECURSIVE JEq(_, _)
JEq(a, b) ==
  IF a.j # b.j THEN FALSE
  ELSE CASE a.j = "null" -> TRUE
         [] a.j = "bool" -> a.b = b.b
         [] a.j = "num"  -> Equals(a.v, b.v)
         [] a.j = "str"  -> a.cs = b.cs
         [] a.j = "arr"  -> Len(a.xs) = Len(b.xs) /\ \A i \in 1..Len(a.xs) : JEq(a.xs[i], b.xs[i])
         [] a.j = "obj"  -> /\ Len(a.ks) = Len(b.ks)
                            /\ \A i \in 1..Len(a.ks) : /\ KeyPos(b.ks, a.ks[i], 1) # 0
                                                       /\ JEq(a.vs[i], b.vs[KeyPos(b.ks, a.ks[i], 1)])

\* does a data value contain a record that the reader would take for a function?
RECURSIVE HasReservedRecord(_)
HasReservedRecord(v) ==
  CASE v.t = "list" -> \E i \in 1..Len(v.xs) : HasReservedRecord(v.xs[i])
    [] v.t = "rec"  -> (Len(v.ks) = 1 /\ v.ks[1] = ReservedKey /\ IsStr(v.vs[1])) \/ (\E i \in 1..Len(v.vs) : HasReservedRecord(v.vs[i]))
    [] OTHER -> FALSE
=============================================================================
