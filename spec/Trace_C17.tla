------------------------------ MODULE Trace_C17 ------------------------------
(***************************************************************************)
(* Trace validation for the numeric laws of C17.  For every ordered pair   *)
(* of units of one category and a grid of magnitudes (1e-12 .. 1e12, 0,    *)
(* negatives) the harness called units::convert and logged, per law, the   *)
(* distance between the two sides in units of the last place:              *)
(*   identity  - convert(x, A, A) vs x             : exactly equal         *)
(*   alias     - every identifier of A vs its first: exactly equal         *)
(*   builtin   - the convert built-in vs the library: exactly equal        *)
(*   thereback - A -> B -> A vs x                  : within rounding       *)
(*   triangle  - A -> B -> C vs A -> C             : within rounding       *)
(* (temperatures, which add offsets, at the scale of 1000).                *)
(***************************************************************************)
EXTENDS Naturals, Sequences, TLC, Json, IOUtils

Events == ndJsonDeserialize(IOEnv.TRACE)
VARIABLES l, bad
vars == <<l, bad>>

Bound(law) == CASE law = "identity" -> 0 [] law = "alias" -> 0 [] law = "aliastarget" -> 0 [] law = "builtin" -> 0
                [] law = "thereback" -> 4 [] law = "triangle" -> 6
NumOk(e) == e.ev = "num" /\ e.ulps <= Bound(e.law)

Init == l = 1 /\ bad = <<>>
Step == /\ l <= Len(Events)
        /\ bad' = IF NumOk(Events[l]) THEN bad ELSE Append(bad, l)
        /\ l' = l + 1
TraceSpec == Init /\ [][Step]_vars
Final == (l = Len(Events) + 1) => PrintT(<<"TRACE_RESULT", ToJson([consumed |-> l - 1, bad |-> bad])>>)
=============================================================================
