------------------------------ MODULE Trace_C12 ------------------------------
(***************************************************************************)
(* Trace validation for C12: events recorded from the real evaluator       *)
(* (random pairs and triples of values rendered to source and evaluated)   *)
(* are consumed one per step; each is recomputed with the specification's  *)
(* Equals / Compare.  Mismatching event indexes are collected in `bad` and *)
(* the trace is always consumed to the end.                                *)
(***************************************************************************)
EXTENDS BlotsOrder, TLC, Json, IOUtils

Events == ndJsonDeserialize(IOEnv.TRACE)

VARIABLES l, bad
vars == <<l, bad>>

CmpOk(e) == \A o \in DotOps \cup UOps :
              e.obs[o] = (IF o \in DotOps THEN DotOp(o, e.a, e.b) ELSE UOp(o, e.a, e.b))

\* observed results agree with the specification and, independently, satisfy transitivity
PairOk(x, y, obs) == /\ obs.dle = DotOp("dle", x, y)
                     /\ obs.dlt = DotOp("dlt", x, y)
                     /\ obs.deq = DotOp("deq", x, y)
TriOk(e) == /\ PairOk(e.a, e.b, e.ab) /\ PairOk(e.b, e.c, e.bc) /\ PairOk(e.a, e.c, e.ac)
            /\ (e.ab.dle = "true" /\ e.bc.dle = "true" /\ e.ac.dle # "err") => e.ac.dle = "true"
            /\ (e.ab.dlt = "true" /\ e.bc.dle = "true" /\ e.ac.dlt # "err") => e.ac.dlt = "true"
            /\ (e.ab.deq = "true" /\ e.bc.deq = "true") => e.ac.deq = "true"

EventOk(e) == CASE e.ev = "cmp" -> CmpOk(e)
                [] e.ev = "tri" -> TriOk(e)
                [] OTHER -> FALSE

Init == l = 1 /\ bad = <<>>
Step == /\ l <= Len(Events)
        /\ bad' = IF EventOk(Events[l]) THEN bad ELSE Append(bad, l)
        /\ l' = l + 1
TraceSpec == Init /\ [][Step]_vars

Final == (l = Len(Events) + 1) =>
           PrintT(<<"TRACE_RESULT", ToJson([consumed |-> l - 1, bad |-> bad])>>)
=============================================================================
