------------------------------- MODULE MC_C07 -------------------------------
(***************************************************************************)
(* Tree enumeration shared by C07 (formatter preserves meaning), C08       *)
(* (idempotence) and C05 (function source emission): one TLC state per     *)
(* chain-complete tree; emitted with its fully parenthesised text and its  *)
(* reference-minimal text.  On the operator fragment the invariant         *)
(* re-checks the reference rule against ParseRef.                          *)
(***************************************************************************)
EXTENDS SyntaxRich, Json

CONSTANTS Deep,      \* 2: T1all + T2;  3: also T3
          SpineLen   \* right spines of up to this many operators ending in an open-ended construct
SpineOps  == IF Deep >= 3 THEN {"nand", "via", "eq", "add", "mul", "pow", "coalesce"} ELSE {"nand", "via", "add", "mul"}
FollowOps == IF Deep >= 3 THEN RepOps ELSE {"sub", "via", "pow"}

VARIABLE t
Init == t \in T1all \cup T2 \cup (IF Deep >= 3 THEN T3 ELSE {}) \cup Spines(SpineLen, SpineOps, FollowOps) \cup ML1 \cup ML2 \cup (IF Deep >= 3 THEN ML3 ELSE {})
Next == UNCHANGED t
Spec == Init /\ [][Next]_t

\* minimal text never has more parentheses than the full text
MinShorter == Len(TextMin(t)) <= Len(TextFull(t))
Emit == PrintT(<<"CASE", ToJson([tree |-> t, full |-> TextFull(t), min |-> TextMin(t)])>>)
=============================================================================
