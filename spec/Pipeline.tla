------------------------------ MODULE Pipeline ------------------------------
(***************************************************************************)
(* The stages a user can invoke on one input (property C01), as a state    *)
(* machine:                                                                *)
(*   Parse -> Convert (pairs to AST) -> Eval (statement by statement)      *)
(*         -> Validate (portable?) -> Serialise -> JsonText                *)
(*   and, independently of evaluation: Render (values and error reports as *)
(*   text), Format (the formatter), Tokenize.                              *)
(* Every stage ends in "ok" or "err" - a reported error - never in a       *)
(* panic, an abort or a hang; a later stage of the chain is only entered   *)
(* after an ok of the stage it consumes; a reported error location lies    *)
(* inside the text it refers to.  There is no action that produces any     *)
(* other outcome, so a run that contains one is not a behaviour.           *)
(***************************************************************************)
EXTENDS Naturals, Integers, Sequences, FiniteSets, TLC

Chain == <<"parse", "convert", "eval", "validate", "serialise", "jsontext">>
Side  == {"render", "format", "tokenize", "errordisplay", "wasmeval", "inline"}
Stages == {Chain[i] : i \in 1..Len(Chain)} \cup Side
Outcomes == {"ok", "err"}

VARIABLES st,       \* status of every chain stage: "none", "ok" or "err" (for eval: of the last statement)
          last,     \* the last event: [stage, outcome, located, start, end]
          textlen   \* length (bytes) of the text the run refers to
vars == <<st, last, textlen>>

ChainSet == {Chain[i] : i \in 1..Len(Chain)}
Pos(s) == CHOOSE i \in 1..Len(Chain) : Chain[i] = s
Ev(s, o, loc, a, b) == [stage |-> s, outcome |-> o, located |-> loc, start |-> a, end |-> b]
NoEvent == Ev("none", "ok", FALSE, 0, 0)

Init == st = [s \in ChainSet |-> "none"] /\ last = NoEvent /\ textlen \in 0..3

\* a chain stage may run when its predecessor ended ok (parse: always); evaluation runs once per statement
Enabled(s) == /\ s \in ChainSet
              /\ (s \in {"eval", "validate", "serialise"} \/ st[s] = "none")
              /\ (IF Pos(s) = 1 THEN TRUE ELSE st[Chain[Pos(s) - 1]] = "ok")
              /\ (s = "eval" => st["eval"] # "err")                      \* the first failing statement ends evaluation
\* running a stage forgets the outcomes of the stages after it (they belonged to the previous statement)
After(s) == {Chain[k] : k \in (Pos(s) + 1)..Len(Chain)}
Set(s, o) == [x \in ChainSet |-> IF x = s THEN o ELSE IF x \in After(s) THEN "none" ELSE st[x]]
RunChain(s, o) ==
  /\ Enabled(s)
  /\ st' = Set(s, o) /\ last' = Ev(s, o, FALSE, 0, 0)
  /\ UNCHANGED textlen
\* a reported error may carry a location: it must lie inside the text
RunErrLocated(s, a, b) ==
  /\ s \in {"parse", "eval"} /\ Enabled(s)
  /\ 0 <= a /\ a <= b /\ b <= textlen
  /\ st' = Set(s, "err") /\ last' = Ev(s, "err", TRUE, a, b)
  /\ UNCHANGED textlen
\* rendering / formatting / tokenizing / displaying an error report can be asked for at any time
RunSide(s, o) ==
  /\ s \in Side
  /\ last' = Ev(s, o, FALSE, 0, 0)
  /\ UNCHANGED <<st, textlen>>
Next == \/ \E s \in Stages, o \in Outcomes : RunChain(s, o) \/ RunSide(s, o)
        \/ \E s \in {"parse", "eval"}, a \in 0..3, b \in 0..3 : RunErrLocated(s, a, b)
Spec == Init /\ [][Next]_vars

\* ------------------------------------------------------------------ invariants (also used to validate recorded runs)
EventOk(e, len) == /\ e.stage \in Stages \cup {"none"} /\ e.outcome \in Outcomes
                   /\ (e.located => (e.outcome = "err" /\ 0 <= e.start /\ e.start <= e.end /\ e.end <= len))
TotalOutcomes == EventOk(last, textlen)
\* the chain is entered in order: a stage after parse has run only if its predecessor ended ok
ChainOrder == \A k \in 2..Len(Chain) : st[Chain[k]] # "none" => st[Chain[k - 1]] = "ok"
TypeOK == st \in [ChainSet -> {"none", "ok", "err"}]
=============================================================================
