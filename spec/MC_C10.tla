------------------------------- MODULE MC_C10 -------------------------------
(***************************************************************************)
(* C10.  Families of states (one TLC state = one case for the real parser):*)
(*  flat    - every flat token string  a op1 b [op2 c [op3 d]]  over the   *)
(*            26 binary operators, and every prefix / postfix decoration   *)
(*            of  x op y;  ParseRef gives the tree the table demands;      *)
(*            invariants: ParseRef(PrintFull(t)) = t, ParseRef(PrintMin(t)) = t; *)
(*  layout  - templates with typed gaps; every admitted decoration of      *)
(*            every gap, and of every pair of gaps;                        *)
(*  variant - redundant parentheses / trailing commas;                     *)
(*  name    - every reserved word extended by a suffix or prefix.          *)
(***************************************************************************)
EXTENDS Syntax, TLC, Json

CONSTANT Triples     \* TRUE: include all 26^3 operator triples

A == TId("a")  B == TId("b")  C == TId("c")  D == TId("d")

PreSeqs  == {<<>>, <<TPre("neg")>>, <<TPre("not")>>, <<TPre("notw")>>, <<TPre("neg"), TPre("neg")>>, <<TPre("not"), TPre("neg")>>}
PostSeqs == {<<>>, <<TPost("fact")>>, <<TPost("call")>>, <<TPost("idx")>>, <<TPost("dot")>>,
             <<TPost("fact"), TPost("fact")>>, <<TPost("dot"), TPost("call")>>, <<TPost("call"), TPost("fact")>>}

Flat ==
     {<<A, TOp(o1), B>> : o1 \in BinOps}
  \cup {<<A, TOp(o1), B, TOp(o2), C>> : o1 \in BinOps, o2 \in BinOps}
  \cup (IF Triples THEN {<<A, TOp(o1), B, TOp(o2), C, TOp(o3), D>> : o1 \in BinOps, o2 \in BinOps, o3 \in BinOps} ELSE
        {<<A, TOp(o1), B, TOp(o2), C, TOp(o3), D>> : o1 \in BinOps, o2 \in {"add", "pow", "coalesce", "eq", "nand"}, o3 \in BinOps})
  \cup {p1 \o <<A>> \o q1 \o <<TOp(o)>> \o p2 \o <<B>> \o q2 :
           p1 \in PreSeqs, q1 \in PostSeqs, p2 \in PreSeqs, q2 \in PostSeqs, o \in {"add", "pow", "coalesce", "nand", "lt", "mul"}}
  \cup {p1 \o <<A>> \o q1 : p1 \in PreSeqs, q1 \in PostSeqs}

\* ---------------------------------------------------------------- layout templates: <<text, kind of the gap after it>>
F(t, g) == <<t, g>>
Templates == <<
  <<F("a","sym"), F("+","sym"), F("b","sym"), F("*","sym"), F("c","")>>,
  <<F("a","sym"), F("==","sym"), F("b","sym"), F("-","sym"), F("c","sym"), F("^","sym"), F("d","")>>,
  <<F("a","sym"), F(".<=","sym"), F("b","sym"), F("??","sym"), F("c","")>>,
  <<F("p","wordb"), F("and","worda"), F("q","wordb"), F("or","worda"), F("r","")>>,
  <<F("l","wordb"), F("via","worda"), F("f","wordb"), F("where","worda"), F("g","wordb"), F("into","worda"), F("h","")>>,
  <<F("not","nota"), F("p","sym"), F("&&","sym"), F("q","")>>,
  <<F("f","tight"), F("(","callo"), F("a","listbc"), F(",","callc"), F("b","callc"), F(")","sym"), F("+","sym"), F("c","")>>,
  <<F("[","listo"), F("a","listbc"), F(",","listo"), F("b","listo"), F("]","")>>,
  <<F("[","listo"), F("a","sym"), F("+","sym"), F("b","listbc"), F(",","listo"), F("[","listo"), F("c","listo"), F("]","listo"), F("]","")>>,
  <<F("{","reco"), F("a","recbc"), F(":","recc"), F("1","recbc"), F(",","reco"), F("b","recbc"), F(":","recc"), F("c","reco"), F("}","")>>,
  <<F("l","tight"), F("[","idx"), F("0","idx"), F("]","sym"), F("*","sym"), F("c","")>>,
  <<F("(","paren"), F("a","sym"), F("+","sym"), F("b","paren"), F(")","sym"), F("*","sym"), F("c","")>>,
  <<F("if","ifa"), F("a","kw"), F("then","kw"), F("b","kw"), F("else","kw"), F("c","")>>,
  <<F("if","ifa"), F("a","sym"), F("<","sym"), F("b","kw"), F("then","kw"), F("b","sym"), F("+","sym"), F("1","kw"), F("else","kw"), F("if","ifa"), F("c","kw"), F("then","kw"), F("1","kw"), F("else","kw"), F("2","")>>,
  <<F("(","lamp"), F("x","recbc"), F(",","lamp"), F("y","lamp"), F(")","lamb"), F("=>","lama"), F("x","sym"), F("+","sym"), F("y","")>>,
  <<F("x","lamb"), F("=>","lama"), F("x","sym"), F("*","sym"), F("2","")>>,
  <<F("z","asg"), F("=","asg"), F("a","sym"), F("+","sym"), F("b","")>>,
  <<F("max","tight"), F("(","callo"), F("a","listbc"), F(",","callc"), F("[","listo"), F("b","listo"), F("]","callc"), F(")","")>>,
  \* a function body has its own copy of the operator-chain rule: the same gaps inside it
  <<F("x","lamb"), F("=>","lama"), F("p","wordb"), F("and","worda"), F("q","wordb"), F("or","worda"), F("r","")>>,
  <<F("l","wordb"), F("where","worda"), F("x","lamb"), F("=>","lama"), F("x","sym"), F(">","sym"), F("2","wordb"), F("or","worda"), F("x","sym"), F("<","sym"), F("0","")>>,
  <<F("(","lamp"), F("x","lamp"), F(")","lamb"), F("=>","lama"), F("not","nota"), F("x","sym"), F("??","sym"), F("p","wordb"), F("and","worda"), F("-","tight"), F("x","sym"), F(".<","sym"), F("1","")>>,
  \* optional and rest parameters: the marker may stand apart from the name
  <<F("(","lamp"), F("x","lamq"), F("?","recbc"), F(",","lamp"), F("...","lamq"), F("r","lamp"), F(")","lamb"), F("=>","lama"), F("x","sym"), F("??","sym"), F("r","")>>,
  <<F("y","lamq"), F("?","lamb"), F("=>","lama"), F("[","listo"), F("y","listo"), F("]","")>>,
  \* number tokens against the operators that begin with a dot
  <<F("2","sym"), F(".==","sym"), F("b","sym"), F("+","sym"), F("1_000","sym"), F(".<","sym"), F("3","sym"), F(".!=","sym"), F("0.5","sym"), F(".>=","sym"), F("7","")>>
>>

Canon(kind) == IF "s" \in Admit(kind) THEN "s" ELSE ""
Gaps(tp) == {i \in 1..Len(tp) : tp[i][2] # ""}

\* ---------------------------------------------------------------- variants that must parse to the same program
Variants == {
  <<"[a, b]", "[a, b,]">>, <<"[a, b]", "[a, b, ]">>, <<"[a, b]", "[a, b,\n]">>, <<"f(a, b)", "f(a, b,\n)">>,
  <<"{a: 1}", "{a: 1,}">>, <<"{a: 1, b: c}", "{a: 1, b: c,\n}">>,
  <<"a + b", "(a) + (b)">>, <<"a + b", "((a + b))">>, <<"a + b * c", "a + (b * c)">>, <<"a * b + c", "(a * b) + c">>,
  <<"f(a)", "f((a))">>, <<"[a]", "[(a)]">>, <<"-a", "-(a)">>, <<"a!", "(a)!">>, <<"l[0]", "l[(0)]">>, <<"l[0]", "(l)[0]">>,
  <<"r.f", "(r).f">>, <<"f(a)", "(f)(a)">>,
  <<"if a then b else c", "if (a) then (b) else (c)">>, <<"x => x", "x => (x)">>, <<"x => x", "(x) => x">>,
  <<"x => x + 1", "x => (x + 1)">>, <<"{a: b}", "{a: (b)}">>, <<"z = a", "z = (a)">>,
  <<"a ^ b ^ c", "a ^ (b ^ c)">>, <<"a - b - c", "(a - b) - c">>, <<"a ?? b ^ c", "(a ?? b) ^ c">>,
  <<"-a ^ b", "(-a) ^ b">>, <<"-a!", "-(a!)">>, <<"not a == b", "(not a) == b">>, <<"!a and b", "(!a) and b">>,
  <<"a and b == c", "a and (b == c)">>, <<"a via f + g", "a via (f + g)">>, <<"a < b + c", "a < (b + c)">>,
  \* a conditional's else-branch takes everything to its right, whatever the operator
  <<"if a then b else c via f", "if a then b else (c via f)">>, <<"if a then b else c into f", "if a then b else (c into f)">>,
  <<"if a then b else c where f", "if a then b else (c where f)">>, <<"if a then b else c and d", "if a then b else (c and d)">>,
  <<"if a then b else c + d", "if a then b else (c + d)">>, <<"if a then b else c ?? d", "if a then b else (c ?? d)">>,
  <<"if a then b else c == d", "if a then b else (c == d)">>, <<"if a then b via f else c", "if a then (b via f) else c">>,
  <<"if a via f then b else c", "if (a via f) then b else c">>, <<"if a then b else if c then d else e via f", "if a then b else (if c then d else (e via f))">>,
  <<"z = a via f", "z = (a via f)">>, <<"x => x + 1 == 2", "x => ((x + 1) == 2)">>,
  <<"a .== b * c", "a .== (b * c)">>, <<"!a", "not a">>, <<"!a == b", "not a == b">>, <<"a + b via f", "(a + b) via f">>, <<"a % b * c", "(a % b) * c">>
}

\* ---------------------------------------------------------------- names
Reserved == {"if", "then", "else", "true", "false", "null", "and", "or", "not", "do", "return", "output"}
Others   == {"inputs", "constants", "inf", "infinity", "sum", "via", "into", "where"}
Suffixes == {"x", "1", "_", "ish", "_count"}
Prefixes == {"x", "_", "un"}
Names == {w \o s : w \in Reserved \cup Others, s \in Suffixes} \cup {p \o w : p \in Prefixes, w \in Reserved \cup Others}

\* ---------------------------------------------------------------- the state: one case
VARIABLE c
FlatCases    == {[kind |-> "flat", toks |-> ts] : ts \in Flat}
LayoutCase(i, g1, d1, g2, d2) ==
  [kind |-> "layout", tpl |-> i, frags |-> [j \in 1..Len(Templates[i]) |-> Templates[i][j][1]],
   decos |-> [j \in 1..Len(Templates[i]) |->
                IF j = g1 THEN d1 ELSE IF j = g2 THEN d2 ELSE Canon(Templates[i][j][2])],
   canon |-> [j \in 1..Len(Templates[i]) |-> Canon(Templates[i][j][2])]]
LayoutCases  == UNION { UNION { UNION {
                  {LayoutCase(i, g1, d1, g2, d2) : d1 \in Admit(Templates[i][g1][2]), d2 \in Admit(Templates[i][g2][2])}
                  : g2 \in Gaps(Templates[i])} : g1 \in Gaps(Templates[i])} : i \in 1..Len(Templates)}
VariantCases == {[kind |-> "variant", canon |-> v[1], text |-> v[2]] : v \in Variants}
NameCases    == {[kind |-> "name", name |-> n] : n \in Names}
\* the word and symbol spellings of and / or / not evaluate identically: same value or same failure, same bindings made by the
\* operands (both operands are always evaluated), on scalars, lists (broadcast) and non-booleans
SpellOps  == {<<"&&", "and">>, <<"||", "or">>}
SpellVals == {"true", "false", "null", "1", "[true, false]", "[false]", "[]", "\"s\"", "(z = true)", "(z = [false, true])", "nosuch", "[[true], false]"}
SpellCases == {[kind |-> "spelling", sym |-> p[1], word |-> p[2], a |-> x, b |-> y] : p \in SpellOps, x \in SpellVals, y \in SpellVals}
              \cup {[kind |-> "spelling", sym |-> "!", word |-> "not ", a |-> "", b |-> y] : y \in SpellVals}

Init == c \in FlatCases \cup LayoutCases \cup VariantCases \cup NameCases \cup SpellCases
Next == UNCHANGED c
Spec == Init /\ [][Next]_c

\* ---------------------------------------------------------------- invariants (design check of the table and printers)
tree == ParseRef(c.toks)
FlatOk == c.kind = "flat" =>
            /\ tree # Fail
            /\ ParseRef(PrintFull(tree)) = tree
            /\ ParseRef(PrintMin(tree)) = tree
            /\ Len(PrintMin(tree)) <= Len(c.toks) + 4       \* (a flat string needs no parentheses except around prefix/postfix operands)
\* a flat token string without parentheses IS its own minimal print
FlatIsMin == (c.kind = "flat") => PrintMin(tree) = c.toks

Emit == PrintT(<<"CASE", ToJson(IF c.kind = "flat" THEN [kind |-> "flat", toks |-> c.toks, tree |-> tree,
                                                               full |-> PrintFull(tree)]
                                ELSE c)>>)
=============================================================================
