------------------------------- MODULE MC_C05 -------------------------------
(***************************************************************************)
(* C05 on the reference evaluator.  Emitting a function = printing its     *)
(* body with every captured value substituted for its name                 *)
(* (capture-avoidingly: lambda parameters and do-block locals shadow);     *)
(* reloading = a closure over that body with an empty captured scope.      *)
(* Theorem checked by TLC for every definition and argument tuple:         *)
(*     Apply(Reload(Emit(f)), args) = Apply(f, args)                       *)
(* and emitting the reloaded function again changes nothing.               *)
(* Every state is emitted for replay: the real emitter, JSON text, real    *)
(* loader and a fresh heap must give the model's values.                   *)
(***************************************************************************)
EXTENDS BlotsEval, TLC, Json, SequencesExt

N(v) == ENum(v)
X == EId("x")  Y == EId("y")  G == EId("g")
Plus(a, b) == EBin("add", a, b)

\* values as literal expressions (functions: their own emission)
RECURSIVE ValToExpr(_)
RECURSIVE Subst(_, _, _)
RECURSIVE SubstSeq(_, _, _)
RECURSIVE SubstDo(_, _, _, _, _)
RECURSIVE SubstRec(_, _, _)
ValToExpr(v) ==
  CASE v.t = "num"  -> IF v.k = "pinf" THEN EId("inf") ELSE IF v.k = "ninf" THEN EBin("sub", N(0), EId("inf"))
                       ELSE IF v.n < 0 THEN EBin("sub", N(0), N(-v.n)) ELSE N(v.n)
    [] v.t = "list" -> EList([i \in 1..Len(v.xs) |-> ValToExpr(v.xs[i])])
    [] v.t = "bool" -> EBin("eq", N(0), IF v.b THEN N(0) ELSE N(1))
    [] v.t = "fn"   -> ELam(v.ps, Subst(v.b, v.scope, ParamNames(v.ps)))
    [] v.t = "bi"   -> EId(v.name)
    [] v.t \in {"str", "null"} -> ELit(v)
    [] v.t = "rec"  -> ERec([i \in 1..Len(v.ks) |-> RStatic(v.ks[i], ValToExpr(v.vs[i]))])
SubstSeq(es, sc, bound) == [i \in 1..Len(es) |-> Subst(es[i], sc, bound)]
\* statements of a do-block bind their names for what follows
SubstDo(ss, r, sc, bound, acc) ==
  IF ss = <<>> THEN EDo(acc, Subst(r, sc, bound))
  ELSE IF Head(ss).k = "asg"
       THEN SubstDo(Tail(ss), r, sc, bound \cup {Head(ss).n}, Append(acc, EAsg(Head(ss).n, Subst(Head(ss).e, sc, bound))))
       ELSE SubstDo(Tail(ss), r, sc, bound, Append(acc, Subst(Head(ss), sc, bound)))
Subst(e, sc, bound) ==
  CASE e.k = "num"  -> e
    [] e.k = "id"   -> IF e.n \in Names /\ e.n \notin bound /\ sc[e.n] # UNB THEN ValToExpr(sc[e.n]) ELSE e
    [] e.k = "bin"  -> EBin(e.o, Subst(e.l, sc, bound), Subst(e.r, sc, bound))
    [] e.k = "list" -> EList(SubstSeq(e.xs, sc, bound))
    [] e.k = "lam"  -> ELam(e.ps, Subst(e.b, sc, bound \cup ParamNames(e.ps)))
    [] e.k = "call" -> ECall(Subst(e.f, sc, bound), SubstSeq(e.args, sc, bound))
    [] e.k = "do"   -> SubstDo(e.ss, e.r, sc, bound, <<>>)
    [] e.k = "asg"  -> EAsg(e.n, Subst(e.e, sc, bound))
    [] e.k = "if"   -> EIf(Subst(e.c, sc, bound), Subst(e.t, sc, bound), Subst(e.e, sc, bound))
    [] e.k = "idx"  -> EIdx(Subst(e.e, sc, bound), Subst(e.i, sc, bound))
    [] e.k = "lit"  -> e
    [] e.k = "un"   -> EUn(e.o, Subst(e.e, sc, bound))
    [] e.k = "dot"  -> EDot(Subst(e.e, sc, bound), e.f)
    [] e.k = "spread" -> ESpread(Subst(e.e, sc, bound))
    [] e.k = "rec"  -> ERec(SubstRec(e.es, sc, bound))
\* a shorthand entry `n` whose name is captured becomes `n: <value>`
SubstRec(es, sc, bound) ==
  [i \in 1..Len(es) |->
     LET x == es[i] IN
     CASE x.m = "static" -> RStatic(x.key, Subst(x.e, sc, bound))
       [] x.m = "short"  -> IF x.n \in Names /\ x.n \notin bound /\ sc[x.n] # UNB THEN RStatic(NameCs(x.n), ValToExpr(sc[x.n])) ELSE x
       [] x.m = "spread" -> RSpreadE(Subst(x.e, sc, bound))
       [] x.m = "dyn"    -> RDyn(Subst(x.ke, sc, bound), Subst(x.e, sc, bound))]

EmitFn(f) == ELam(f.ps, Subst(f.b, f.scope, ParamNames(f.ps)))
Reload(e) == Closure(e.ps, e.b, EmptyFrame, "")

\* ------------------------------------------------------------------ function definitions (setup; the function is f)
Lam1(b) == ELam(<<Req("x")>>, b)
QStrSeq == SetToSeq(UNION {[1..n -> {3, 4, 10, 12}] : n \in 0..3})
Defs == <<
  [name |-> "captures-number",   setup |-> <<EAsg("g", N(10)), EAsg("f", Lam1(Plus(X, G)))>>],
  [name |-> "captures-negative", setup |-> <<EAsg("g", EBin("sub", N(0), N(5))), EAsg("f", Lam1(EBin("mul", G, X)))>>],
  [name |-> "captures-list",     setup |-> <<EAsg("g", EList(<<N(1), N(2), EList(<<N(3)>>)>>)), EAsg("f", Lam1(EIdx(G, X)))>>],
  [name |-> "captures-closure",  setup |-> <<EAsg("g", N(10)), EAsg("h", Lam1(Plus(X, G))), EAsg("f", Lam1(Plus(ECall(EId("h"), <<X>>), N(1))))>>],
  [name |-> "closure-of-closure", setup |-> <<EAsg("g", N(2)), EAsg("h", ELam(<<Req("y")>>, EBin("mul", Y, G))), EAsg("k", ELam(<<Req("y")>>, ECall(EId("h"), <<Plus(Y, G)>>))), EAsg("f", Lam1(ECall(EId("k"), <<X>>)))>>],
  [name |-> "curried",           setup |-> <<EAsg("g", N(10)), EAsg("f", Lam1(ELam(<<Req("y")>>, Plus(Plus(X, Y), G))))>>],
  [name |-> "param-shadows-capture", setup |-> <<EAsg("g", N(10)), EAsg("f", Lam1(Plus(ECall(ELam(<<Req("g")>>, Plus(G, N(1))), <<X>>), G)))>>],
  [name |-> "do-local-shadows-capture", setup |-> <<EAsg("y", N(7)), EAsg("f", Lam1(EDo(<<EAsg("z", Y), EAsg("y", N(1))>>, Plus(Plus(Y, EId("z")), X))))>>],
  [name |-> "do-local-before-use", setup |-> <<EAsg("y", N(7)), EAsg("f", Lam1(EDo(<<EAsg("y", Plus(Y, X))>>, Plus(Y, Y))))>>],
  [name |-> "captures-builtin",  setup |-> <<EAsg("g", EId("max")), EAsg("f", Lam1(ECall(G, <<X, N(2)>>)))>>],
  [name |-> "uses-builtin-callback", setup |-> <<EAsg("g", EList(<<N(1), N(2), N(3)>>)), EAsg("f", Lam1(EBin("via", G, ELam(<<Req("y")>>, Plus(Y, X)))))>>],
  [name |-> "recursive",         setup |-> <<EAsg("f", Lam1(EIf(EBin("eq", X, N(0)), N(0), Plus(N(1), ECall(EId("f"), <<EBin("sub", X, N(1))>>)))))>>],
  [name |-> "optional-rest",     setup |-> <<EAsg("g", N(10)), EAsg("f", ELam(<<Req("x"), Prm("y", "opt"), Prm("z", "rest")>>, EList(<<X, Y, EId("z"), G>>)))>>],
  [name |-> "conditional",       setup |-> <<EAsg("g", N(1)), EAsg("f", Lam1(EIf(EBin("lt", X, G), Plus(G, G), EBin("sub", X, G))))>>],
  [name |-> "late-bound",        setup |-> <<EAsg("f", Lam1(Plus(X, G)))>>],
  \* `inf` always denotes the constant: a parameter or a block-local of that name does not hide it, so an emitted infinity
  \* keeps its meaning under such a parameter
  [name |-> "captured-infinity-under-inf-param", setup |-> <<EAsg("g", EId("inf")), EAsg("f", ELam(<<Req("inf"), Prm("y", "opt")>>, EList(<<EBin("lt", N(1), G), EBin("lt", EId("inf"), G), Y>>)))>>],
  [name |-> "captured-infinity-under-inf-local", setup |-> <<EAsg("g", EBin("sub", N(0), EId("inf"))), EAsg("f", Lam1(EDo(<<EAsg("h", X)>>, EList(<<EBin("lt", G, EId("h")), EBin("eq", G, G)>>))))>>],
  [name |-> "self-name-captured", setup |-> <<EAsg("f", EDo(<<EAsg("g", N(5)), EAsg("g", Lam1(Plus(G, X)))>>, G))>>],
  [name |-> "compose-named-like-a-capture", setup |-> <<EAsg("h", ELam(<<Req("f"), Req("g")>>, Lam1(ECall(EId("f"), <<ECall(G, <<X>>)>>)))), EAsg("k", Lam1(Plus(X, N(1)))), EAsg("f", ECall(EId("h"), <<EId("k"), EId("k")>>))>>],
  [name |-> "closure-as-operand", setup |-> <<EAsg("g", N(10)), EAsg("h", Lam1(Plus(X, G))), EAsg("f", Lam1(EIf(EBin("ne", EId("h"), ELit(Null)), ECall(EId("h"), <<X>>), X)))>>],
  [name |-> "closure-as-left-operand-of-via", setup |-> <<EAsg("h", Lam1(Plus(X, N(1)))), EAsg("f", Lam1(EBin("coalesce", EBin("via", EList(<<X>>), EId("h")), N(0))))>>],
  \* data in the captured scope
  [name |-> "captures-record",   setup |-> <<EAsg("g", ERec(<<RStatic(<<12>>, N(10)), RStatic(<<12, 2, 13>>, EList(<<N(1)>>)), RStatic(<<>>, ELit(Null))>>)), EAsg("f", Lam1(Plus(X, EDot(G, <<12>>))))>>],
  [name |-> "captures-shorthand", setup |-> <<EAsg("a", N(10)), EAsg("f", Lam1(ERec(<<RShort("a"), RStatic(<<13>>, X)>>)))>>],
  [name |-> "shorthand-of-param", setup |-> <<EAsg("a", N(10)), EAsg("f", ELam(<<Req("a")>>, ERec(<<RShort("a")>>)))>>],
  [name |-> "captures-null-bool", setup |-> <<EAsg("g", ELit(Null)), EAsg("h", ELit(Bool(FALSE))), EAsg("f", Lam1(EList(<<EBin("coalesce", G, X), EUn("not", EId("h"))>>)))>>],
  [name |-> "captured-spread",   setup |-> <<EAsg("g", EList(<<N(1), N(2)>>)), EAsg("h", ERec(<<RStatic(<<12>>, N(1))>>)), EAsg("f", Lam1(EList(<<EList(<<ESpread(G), X>>), ERec(<<RSpreadE(EId("h")), RStatic(<<13>>, X)>>)>>)))>>],
  [name |-> "captured-key",      setup |-> <<EAsg("g", ELit(Str(<<12, 2, 13>>))), EAsg("f", Lam1(ERec(<<RDyn(G, X)>>)))>>],
  \* an optional or rest parameter of an inner function re-binds the name of a captured value
  [name |-> "inner-optional-param-shadows-capture", setup |-> <<EAsg("g", N(10)), EAsg("f", Lam1(EList(<<G, ECall(ELam(<<Req("y"), Prm("g", "opt")>>, EBin("coalesce", G, Y)), <<X>>)>>)))>>],
  [name |-> "inner-rest-param-shadows-capture", setup |-> <<EAsg("g", N(10)), EAsg("f", Lam1(EList(<<G, ECall(ELam(<<Prm("g", "rest")>>, G), <<X, Plus(X, N(1))>>)>>)))>>],
  [name |-> "inner-optional-given-shadows-capture", setup |-> <<EAsg("g", N(10)), EAsg("f", Lam1(Plus(G, ECall(ELam(<<Req("y"), Prm("g", "opt")>>, Plus(G, Y)), <<X, X>>))))>>]
>> \o
\* every string up to length 3 over { double quote, single quote, backslash, a } as a captured value
[i \in 1..Len(QStrSeq) |-> [name |-> "captures-string", setup |-> <<EAsg("g", ELit(Str(QStrSeq[i]))), EAsg("f", Lam1(EList(<<X, G, EBin("add", G, ELit(Str(<<12>>)))>>)))>>]]
ArgTuples == {<<N(0)>>, <<N(1)>>, <<N(2)>>, <<N(1), N(2)>>, <<N(1), N(2), N(3), N(4)>>, <<>>}

VARIABLE c
Init == c \in {[d |-> d, args |-> a] : d \in 1..Len(Defs), a \in ArgTuples}
Next == UNCHANGED c
Spec == Init /\ [][Next]_c

RECURSIVE RunAll(_, _)
RunAll(ss, env) == IF ss = <<>> THEN env ELSE RunAll(Tail(ss), Eval(Head(ss), env, 0).env)
D == Defs[c.d]
EnvDef == RunAll(D.setup, <<EmptyFrame>>)
Fv == Lookup(EnvDef, "f")
ArgVals == [i \in 1..Len(c.args) |-> Fin(c.args[i].v)]
Fresh == <<EmptyFrame>>
RECURSIVE ProjV(_)
ProjV(v) == IF v.t = "fn" THEN [t |-> "fn"] ELSE IF v.t = "list" THEN List([i \in 1..Len(v.xs) |-> ProjV(v.xs[i])])
            ELSE IF v.t = "rec" THEN Rec(v.ks, [i \in 1..Len(v.vs) |-> ProjV(v.vs[i])])
            ELSE IF v.t = "err" THEN [t |-> "err"] ELSE v
\* results are compared after projection; a curried result is applied once more so that functions are compared by behaviour
Apply2(f, env) == LET r == ApplyFn(f, ArgVals, env, 0) IN IF IsFn(r) THEN ApplyFn(r, <<Fin(5)>>, env, 0) ELSE r
Orig == Apply2(Fv, EnvDef)
Reloaded == Reload(EmitFn(Fv))
\* self-contained: every free name captured, and no reference to itself by name (a name that is free in the body AND captured
\* is an ordinary captured value, not a self-reference - the captured value wins at call time)
Closed == /\ IsFn(Fv) /\ ClosedAfterCapture(Fv)
          /\ (Fv.name \notin FreeVars(Fv.b, ParamNames(Fv.ps)) \/ (Fv.name \in Names /\ Fv.scope[Fv.name] # UNB))

Portable == Closed => ProjV(Apply2(Reloaded, Fresh)) = ProjV(Orig)
ReEmitStable == Closed => EmitFn(Reloaded) = EmitFn(Fv)

Emit == PrintT(<<"CASE", ToJson([def |-> D.name, setup |-> D.setup, args |-> c.args, closed |-> Closed, exp |-> ProjV(Orig)])>>)
=============================================================================
