------------------------------- MODULE Tokens -------------------------------
(***************************************************************************)
(* The token stream the editor integration gets from `tokenize` (the pest  *)
(* Start / End events of a successful parse), as a pushdown machine.       *)
(* Not one of the listed properties (extended conformance X02).            *)
(*   stack - the rules opened and not yet closed, innermost last, each     *)
(*           with the position where it was opened                         *)
(*   pos   - position of the last event                                    *)
(* Start pushes, End pops the matching rule; positions never go back,      *)
(* stay inside the text, and a rule never ends before it starts.  At the   *)
(* end every rule is closed, and the outermost rules tile the text up to   *)
(* silent layout.                                                          *)
(***************************************************************************)
EXTENDS Naturals, Sequences

VARIABLES stack, pos, closed
tvars == <<stack, pos, closed>>

TInit == stack = <<>> /\ pos = 0 /\ closed = 0

CanStart(rule, p, len)  == p >= pos /\ p <= len
TStart(rule, p, len) == /\ CanStart(rule, p, len)
                        /\ stack' = Append(stack, [rule |-> rule, at |-> p])
                        /\ pos' = p
                        /\ UNCHANGED closed
CanEnd(rule, p, len) == /\ stack # <<>> /\ stack[Len(stack)].rule = rule
                        /\ p >= pos /\ p <= len /\ p >= stack[Len(stack)].at
TEnd(rule, p, len)   == /\ CanEnd(rule, p, len)
                        /\ stack' = SubSeq(stack, 1, Len(stack) - 1)
                        /\ pos' = p
                        /\ closed' = closed + 1

Balanced == stack = <<>>
\* invariant of the machine: open rules are nested in the order they were opened, all at or before the current position
StackSorted == /\ \A i, j \in 1..Len(stack) : i < j => stack[i].at <= stack[j].at
               /\ \A i \in 1..Len(stack) : stack[i].at <= pos
=============================================================================
