------------------------------- MODULE MC_C01 -------------------------------
(***************************************************************************)
(* C01, case enumeration (the Pipeline machine itself is model-checked on   *)
(* its own, directly on Pipeline.tla): every built-in x every              *)
(* argument tuple (indexes into the boundary pool) up to one more than its *)
(* maximal arity, with the prediction which tuples are arity errors; and   *)
(* every token string up to MaxTok over the token alphabet.                *)
(***************************************************************************)
EXTENDS BuiltinTable, Json

CONSTANTS PoolSize, SmallPool, MaxTok

Tokens == {"1", "a", "\"s\"", "(", ")", "[", "]", "{", "}", ",", ":", "+", "-", "!", ".", "==", "=>", "=", "...", "if", "then", "else",
           "do", "return", "output", "and", "via", "not", "#k", "?", "\n", "// c", "??", ".<", "x", "0x", "1e", "'"}
TupleLens(name) == 0..(IF BuiltinArity[name].hi = 99 THEN BuiltinArity[name].lo + 2 ELSE BuiltinArity[name].hi + 1)
PoolFor(k) == IF k <= 2 THEN 1..PoolSize ELSE IF k = 3 THEN 1..SmallPool ELSE 1..3

VARIABLE c
CallCases == UNION {UNION {{[kind |-> "call", name |-> n, args |-> t] : t \in [1..k -> PoolFor(k)]} : k \in TupleLens(n)} : n \in BuiltinNames}
TokCases == UNION {{[kind |-> "tokens", toks |-> t] : t \in [1..k -> Tokens]} : k \in 1..MaxTok}
CInit == c \in CallCases \cup TokCases
CNext == UNCHANGED c
CSpec == CInit /\ [][CNext]_c

Emit == PrintT(<<"CASE", ToJson(IF c.kind = "call" THEN [kind |-> "call", name |-> c.name, args |-> c.args, arity_error |-> ArityError(c.name, Len(c.args))]
                                                   ELSE [kind |-> "tokens", toks |-> c.toks])>>)
=============================================================================
