------------------------------- MODULE MC_C01 -------------------------------
(***************************************************************************)
(* C01, case enumeration (the Pipeline machine itself is model-checked on   *)
(* its own, directly on Pipeline.tla): every built-in x every              *)
(* argument tuple (indexes into the boundary pool) up to one more than its *)
(* maximal arity, with the prediction which tuples are arity errors; and   *)
(* every token string up to MaxTok over the token alphabet; and the        *)
(* function-call matrix (parameter form x body form x call site x argument *)
(* count) as whole programs.                                               *)
(***************************************************************************)
EXTENDS BuiltinTable, Json

CONSTANTS PoolSize, SmallPool, MaxTok

Tokens == {"1", "a", "\"s\"", "(", ")", "[", "]", "{", "}", ",", ":", "+", "-", "!", ".", "==", "=>", "=", "...", "if", "then", "else",
           "do", "return", "output", "and", "via", "not", "#k", "?", "\n", "// c", "??", ".<", "x", "0x", "1e", "'"}
TupleLens(name) == 0..(IF BuiltinArity[name].hi = 99 THEN BuiltinArity[name].lo + 2 ELSE BuiltinArity[name].hi + 1)
PoolFor(k) == IF k <= 2 THEN 1..PoolSize ELSE IF k = 3 THEN 1..SmallPool ELSE 1..3

\* The function-call matrix: every parameter form x body form x way of reaching the function x argument count, as whole
\* programs run with inputs {"a": 4}.  `k` is a top-level name bound before the function is created (captured), `t` is not.
ParamForms == {"()", "p", "(p, q?)", "(...p)", "(p?, ...q)", "(inputs)", "(k)"}
BodyForms  == {"1", "p", "k + 1", "inputs.a", "#a", "(t = 1) + t", "(t = inputs.a) + 1", "(t = k) + 1", "(k = 2) + 1",
               "do {\n  t = inputs.a\n  return [t, k]\n}", "[p, k, inputs.a, #a]", "y => [p, k, y]", "g2(1)"}
ArgForms   == {"", "1", "1, [2]"}
Sites      == {"iife", "named", "field", "item", "map", "via", "into", "where", "returned", "do", "output", "reduce", "nested"}
Program(ps, b, site, args) ==
  LET F == ps \o " => " \o b  P == "(" \o F \o ")" IN
  "k = 7\n" \o
  (CASE site = "iife"     -> P \o "(" \o args \o ")"
     [] site = "named"    -> "g = " \o F \o "\ng(" \o args \o ")"
     [] site = "field"    -> "r = {v: " \o F \o "}\nr.v(" \o args \o ")"
     [] site = "item"     -> "l = [" \o F \o "]\nl[0](" \o args \o ")"
     [] site = "map"      -> "map([1, 2], " \o F \o ")"
     [] site = "via"      -> "[1, 2] via " \o P
     [] site = "into"     -> "5 into " \o P
     [] site = "where"    -> "[1, 2] where " \o P
     [] site = "returned" -> "mk = () => " \o P \o "\nmk()(" \o args \o ")"
     [] site = "do"       -> "do {\n  h = " \o F \o "\n  return h(" \o args \o ")\n}"
     [] site = "output"   -> "output o = " \o F \o "\no(" \o args \o ")"
     [] site = "reduce"   -> "reduce([1, 2], " \o F \o ", 0)"
     [] site = "nested"   -> "outer = q => " \o P \o "(" \o args \o ")\nouter(3)")
LambdaCases == {[kind |-> "text", text |-> Program(ps, b, site, args), inputs |-> "{\"a\": 4}"] :
                  ps \in ParamForms, b \in BodyForms, site \in Sites, args \in ArgForms}

VARIABLE c
CallCases == UNION {UNION {{[kind |-> "call", name |-> n, args |-> t] : t \in [1..k -> PoolFor(k)]} : k \in TupleLens(n)} : n \in BuiltinNames}
TokCases == UNION {{[kind |-> "tokens", toks |-> t] : t \in [1..k -> Tokens]} : k \in 1..MaxTok}
CInit == c \in CallCases \cup TokCases \cup LambdaCases
CNext == UNCHANGED c
CSpec == CInit /\ [][CNext]_c

Emit == PrintT(<<"CASE", ToJson(IF c.kind = "call" THEN [kind |-> "call", name |-> c.name, args |-> c.args, arity_error |-> ArityError(c.name, Len(c.args))]
                                                   ELSE c)>>)
=============================================================================
