------------------------------ MODULE Trace_C20 ------------------------------
(***************************************************************************)
(* Trace validation for C20: the display form of random doubles (bit       *)
(* patterns, +-ulps around every power of ten and the notation thresholds, *)
(* 15-digit carry cases, integers below 2^53, subnormals, huge values).    *)
(* The recogniser automaton is run over the characters of every string;    *)
(* the significant digits and decimal exponent it extracts are compared    *)
(* with T, the true value truncated to 15 significant digits (supplied     *)
(* from the exact decimal expansion): the display must be T, or T plus one *)
(* unit in the 15th digit when the value is not exactly T.                 *)
(***************************************************************************)
EXTENDS Numerals, TLC, Json, IOUtils

Events == ndJsonDeserialize(IOEnv.TRACE)
VARIABLES l, bad
vars == <<l, bad>>

Accurate(e, s) ==
  LET d == Pad(s.ds, 15)
      up == IncDigits(e.true15) IN
  /\ Len(StripTrailingZeros(s.ds)) <= 15          \* at most 15 significant digits (trailing zeros of an integer part aside)
  /\ \/ (d = e.true15 /\ DispE10(s) = e.e10)
     \/ (~e.exact /\ ~up.carry /\ d = up.ds /\ DispE10(s) = e.e10)
     \/ (~e.exact /\ up.carry /\ d = Pad(<<1>>, 15) /\ DispE10(s) = e.e10 + 1)
DisplayOk(e) ==
  LET s == DispRun(DispInit, e.cs) IN
  /\ e.same_via_format
  /\ e.same_nested            \* inside lists and records (any depth) the number is shown by the same numeral
  /\ DispWellFormed(s)
  /\ CASE e.kind = "nan"  -> s.q = "word" /\ s.word = NaNWord
       [] e.kind = "inf"  -> s.q = "word" /\ s.word = InfWord /\ s.neg = e.neg
       [] e.kind = "zero" -> s.ds = <<>> /\ s.q = "int"
       [] e.kind = "finite" -> /\ s.q # "word" /\ s.neg = e.neg /\ Accurate(e, s)
                               \* standard notation exactly for 1e-4 <= |x| < 1e15 (by the displayed magnitude)
                               /\ (e.int_below_2_53 /\ ~s.sci) => (Pad(s.ds, 15) = e.true15 /\ s.q = "int")
       [] OTHER -> s.q # "word"

Init == l = 1 /\ bad = <<>>
Step == /\ l <= Len(Events)
        /\ bad' = IF DisplayOk(Events[l]) THEN bad ELSE Append(bad, l)
        /\ l' = l + 1
TraceSpec == Init /\ [][Step]_vars
Final == (l = Len(Events) + 1) => PrintT(<<"TRACE_RESULT", ToJson([consumed |-> l - 1, bad |-> bad])>>)
=============================================================================
