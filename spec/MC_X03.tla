------------------------------- MODULE MC_X03 -------------------------------
(* X03: every value of a small universe shown by to_string, and format over every piece sequence up to length 3 with 0..3 arguments. *)
EXTENDS Display, Json

Leaves == {Fin(0), Fin(7), Fin(-3), NZero, PInf, NInf, NaN, Str(<<>>), Str(<<12>>), Str(<<12, 2, 13>>), Str(<<4>>), Str(<<3>>), Bool(TRUE), Bool(FALSE), Null,
           BuiltIn("sum")}
Small  == {Fin(7), Str(<<12>>), Null, Str(<<>>)}
Keys   == {<<12>>, <<12, 2, 13>>, <<>>, <<5>>}
L1 == {List(<<>>)} \cup {List(<<x>>) : x \in Leaves} \cup {List(<<x, y>>) : x \in Small, y \in Small}
R1 == {Rec(<<>>, <<>>)} \cup {Rec(<<k>>, <<x>>) : k \in Keys, x \in Leaves} \cup {Rec(<<<<12>>, k>>, <<x, y>>) : k \in Keys \ {<<12>>}, x \in Small, y \in Small}
D2 == {List(<<x, y>>) : x \in {List(<<>>), List(<<Fin(7), Str(<<12>>)>>), Rec(<<<<12>>>>, <<Null>>)}, y \in {Rec(<<>>, <<>>), List(<<List(<<>>)>>), Fin(0)}}
      \cup {Rec(<<<<13>>>>, <<x>>) : x \in {List(<<Str(<<>>), Str(<<12>>)>>), Rec(<<<<12>>>>, <<List(<<Fin(7)>>)>>)}}
Values == Leaves \cup L1 \cup R1 \cup D2
Pieces == {"{}", "{{", "}}", "a", " ", "=", "it's"}
ArgPool == {Fin(7), Str(<<12>>), List(<<Fin(0), Null>>), Rec(<<<<12>>>>, <<Bool(TRUE)>>)}

VARIABLE c
Init == \/ c \in {[fam |-> "show", v |-> v] : v \in Values}
        \/ c \in {[fam |-> "format", ps |-> ps, args |-> as] : ps \in UNION {[1..n -> Pieces] : n \in 0..3}, as \in UNION {[1..m -> ArgPool] : m \in 0..2}}
        \/ c \in {[fam |-> "format", ps |-> <<"{}", "{}", "{}">>, args |-> as] : as \in [1..3 -> ArgPool]}
Next == UNCHANGED c
Spec == Init /\ [][Next]_c

\* a string argument is shown as itself, so format("{}", s) = s and to_string is idempotent on its own result
ShowString == (c.fam = "show" /\ c.v.t = "str") => Show(c.v) = CsText(c.v.cs)
NoHoleNoArgs == (c.fam = "format" /\ \A i \in 1..Len(c.ps) : c.ps[i] \in {"a", " ", "{{", "}}"}) => Fmt(c.ps, c.args) = Fmt(c.ps, <<>>)
Emit == PrintT(<<"CASE", ToJson(IF c.fam = "show" THEN [fam |-> "show", v |-> c.v, exp |-> Show(c.v)]
                                ELSE [fam |-> "format", f |-> FmtText(c.ps), args |-> c.args, exp |-> Fmt(c.ps, c.args)])>>)
=============================================================================
