------------------------------- MODULE MC_C12 -------------------------------
(***************************************************************************)
(* C12 - equality and ordering are coherent.                               *)
(* One TLC state per ordered pair (a, b) of a universe dense in near-equal *)
(* values; a third component c ranges over the universe for the            *)
(* transitivity laws.  The laws are invariants of the specification;       *)
(* each pair is also emitted, with the outcome the specification predicts  *)
(* for the six dot operators and the four u* built-ins, for replay into    *)
(* the real evaluator.                                                     *)
(***************************************************************************)
EXTENDS BlotsOrder, TLC, Json

CONSTANT Big      \* FALSE: quick universe, TRUE: thorough universe

S(x) == Str(x)
Nums == {Fin(-2), Fin(-1), Fin(0), Fin(1), Fin(2), NZero, PInf, NInf}
Strs == {S(<<>>), S(<<12>>), S(<<12, 12>>), S(<<12, 13>>), S(<<13>>), S(<<8>>), S(<<16>>), S(<<12, 19>>)}
Lists0 == {List(<<>>), List(<<Fin(1)>>), List(<<Fin(1), Fin(2)>>), List(<<Fin(2)>>), List(<<Fin(1), Fin(1)>>),
           List(<<Fin(0)>>), List(<<NZero>>), List(<<List(<<>>)>>), List(<<List(<<Fin(1)>>)>>),
           List(<<List(<<Fin(1)>>), Fin(2)>>), List(<<S(<<12>>)>>), List(<<Fin(1), S(<<12>>)>>),
           List(<<Fin(2), Fin(5)>>), List(<<Null>>), List(<<Bool(TRUE)>>), List(<<Bool(FALSE), Bool(TRUE)>>)}
K1 == <<12>>  \* "a"
K2 == <<13>>  \* "b"
K3 == <<5>>   \* "0" (numeric-looking key)
Recs0 == {Rec(<<>>, <<>>), Rec(<<K1>>, <<Fin(1)>>), Rec(<<K1, K2>>, <<Fin(1), Fin(2)>>),
          Rec(<<K2, K1>>, <<Fin(2), Fin(1)>>), Rec(<<K1, K2>>, <<Fin(1), Fin(3)>>), Rec(<<K2>>, <<Fin(1)>>),
          Rec(<<K1>>, <<List(<<Fin(1)>>)>>), Rec(<<K1>>, <<Rec(<<K2>>, <<Fin(1)>>)>>),
          Rec(<<K1>>, <<Null>>), Rec(<<K3, K1>>, <<Fin(1), Fin(1)>>), Rec(<<K1, K3>>, <<Fin(1), Fin(1)>>)}
More == {Fin(3), Fin(-3), S(<<12, 12, 12>>), S(<<3>>), S(<<4>>), S(<<10>>),
         List(<<Fin(1), Fin(2), Fin(3)>>), List(<<PInf>>), List(<<NInf, PInf>>),
         List(<<Rec(<<K1>>, <<Fin(1)>>)>>), List(<<Rec(<<K1, K2>>, <<Fin(1), Fin(2)>>)>>),
         List(<<Rec(<<K2, K1>>, <<Fin(2), Fin(1)>>)>>),
         Rec(<<K1, K2, K3>>, <<Fin(1), Fin(2), Fin(3)>>), Rec(<<K3, K2, K1>>, <<Fin(3), Fin(2), Fin(1)>>),
         Rec(<<K1>>, <<Rec(<<K1, K2>>, <<Fin(1), Fin(2)>>)>>), Rec(<<K1>>, <<Rec(<<K2, K1>>, <<Fin(2), Fin(1)>>)>>),
         List(<<S(<<12>>), S(<<12, 12>>)>>), List(<<S(<<12, 12>>)>>), List(<<List(<<List(<<>>)>>)>>),
         BuiltIn("sum"), BuiltIn("max")}
U == Nums \cup Strs \cup {Bool(TRUE), Bool(FALSE), Null} \cup Lists0 \cup Recs0 \cup (IF Big THEN More ELSE {})

VARIABLES a, b
vars == <<a, b>>

Init == a \in U /\ b \in U
Next == UNCHANGED vars
Spec == Init /\ [][Next]_vars

\* ------------------------------------------------------------ laws (invariants)
Laws2 == /\ LawReflexive(a)
         /\ LawSymmetric(a, b)
         /\ LawNeIsNegation(a, b)
         /\ LawAntisym(a, b)
         /\ LawTrichotomy(a, b)
         /\ LawUnions(a, b)
         /\ LawDifferentTypes(a, b)
         /\ LawUnordered(a, b)
         /\ LawUAgree(a, b)
         /\ LawPrefixFirst(a, b)
Laws3 == \A c \in U : LawTransitiveEq(a, b, c) /\ LawTransitiveLt(a, b, c)
\* key order never matters: every rotation of a record equals it
LawKeyOrder == IsRec(a) /\ Len(a.ks) > 1 =>
                 LET n == Len(a.ks)  rot == [i \in 1..n |-> (i % n) + 1] IN
                 Equals(a, Permuted(a, rot)) /\ Equals(Permuted(a, rot), a)

\* ------------------------------------------------------------ emission
Case == [a |-> a, b |-> b, cmp |-> Compare(a, b),
         exp |-> [o \in DotOps \cup UOps |-> IF o \in DotOps THEN DotOp(o, a, b) ELSE UOp(o, a, b)]]
Emit == PrintT(<<"CASE", ToJson(Case)>>)
=============================================================================
