------------------------------- MODULE MC_C14 -------------------------------
(***************************************************************************)
(* C14: one TLC state per call of a list / string / record operation on    *)
(* arguments from small exhaustive pools.  The laws the property names are *)
(* invariants over the definitional results; every state is emitted with   *)
(* its expected result for replay into the real evaluator.                 *)
(***************************************************************************)
EXTENDS BlotsBuiltins, TLC, Json

CONSTANTS NL,   \* max length of numeric lists
          ML    \* max length of mixed lists and strings

SeqsOver(P, n) == UNION {[1..k -> P] : k \in 0..n}
A == <<12>>
NumD   == {Fin(1), Fin(2), Fin(3)}
MixD   == {Fin(1), Fin(2), Str(A), List(<<Fin(1)>>)}
PairD  == {List(<<Fin(1), Str(A)>>), List(<<Fin(1), Str(<<13>>)>>), List(<<Fin(2), Str(A)>>)}
StrD   == {Str(A), Str(<<12, 12>>), Str(<<13>>), Str(<<>>)}
CharD  == {12, 13, 16, 19}          \* a b e-acute emoji
ListsN == {List(s) : s \in SeqsOver(NumD, NL)}
ListsM == {List(s) : s \in SeqsOver(MixD, ML)}
ListsP == {List(s) : s \in SeqsOver(PairD, 3)}
ListsS == {List(s) : s \in SeqsOver(StrD, 2)}
\* every order in which three keys can come back after one another (a b a a, a b c b b, ...)
ListsG == {List(s) : s \in UNION {[1..k -> {Fin(1), Str(A), List(<<Fin(1)>>)}] : k \in 4..5}}
Small  == {List(s) : s \in SeqsOver(MixD, 1)}
Strs   == {Str(s) : s \in SeqsOver(CharD, ML)}
Delims == {Str(<<12>>), Str(<<12, 13>>), Str(<<>>), Str(<<19>>), Str(<<16>>)}
K1 == <<12>>  K2 == <<13>>  K3 == <<5>>  K4 == <<12, 2, 13>>   \* "a" "b" "0" "a b"
Recs   == {Rec(<<>>, <<>>), Rec(<<K1>>, <<Fin(1)>>), Rec(<<K2, K1>>, <<Fin(2), Fin(1)>>),
           Rec(<<K3, K4, K1>>, <<Str(A), Null, List(<<Fin(1)>>)>>)}
Keys   == {Str(K1), Str(K2), Str(K3), Str(K4), Str(<<>>)}
AllLists == ListsN \cup ListsM \cup ListsP \cup ListsS
\* values that are different but look alike when printed: 1 and "1", 0 and "0", 0 and -0 (equal), NaN and NaN (not equal)
ConfD  == {Fin(1), Str(<<6>>), Fin(0), NZero, Str(<<5>>), NaN, List(<<Fin(1)>>), List(<<Str(<<6>>)>>)}
ListsC == {List(s) : s \in SeqsOver(ConfD, 3)}
\* zeros of both signs among other numbers: equal for the ordering, yet distinguishable - a stable sort keeps their order
ListsZ == {List(s) : s \in SeqsOver({Fin(0), NZero, Fin(1), Fin(-1)}, 4)}

N == Null
C1(f, v)          == Call(f, v, N, 0, 0, "")
C2(f, v, w)       == Call(f, v, w, 0, 0, "")
CI(f, v, i)       == Call(f, v, N, i, 0, "")
CIJ(f, v, i, j)   == Call(f, v, N, i, j, "")
CK(f, v, k)       == Call(f, v, N, 0, 0, k)

Cases ==
     {C1(f, l) : f \in {"sort", "unique", "reverse", "len", "head", "tail", "flatten", "spread1"}, l \in AllLists}
  \cup {C1(f, l) : f \in {"unique", "reverse", "spread1", "flatten"}, l \in ListsC}
  \cup {C1(f, l) : f \in {"sort", "unique"}, l \in ListsZ} \cup {CK("sort_by", l, k) : l \in ListsZ, k \in {"id", "neg"}}
  \cup {CI("chunk", l, n) : l \in ListsN \cup ListsM, n \in 1..3}
  \cup {CI("index", v, i) : v \in ListsN \cup ListsM \cup Strs, i \in -4..4}
  \cup {CIJ("slice", v, i, j) : v \in ListsN \cup Strs, i \in 0..3, j \in 0..4}
  \cup {CK("sort_by", l, k) : l \in ListsN, k \in {"id", "neg", "const"}}
  \cup {CK("sort_by", l, k) : l \in ListsP, k \in {"first", "len", "const"}}
  \cup {CK("sort_by", l, "len") : l \in ListsS \cup ListsM}
  \cup {CK(f, l, "type") : f \in {"group_by", "count_by"}, l \in ListsM \cup ListsN}
  \cup {CK(f, l, "id") : f \in {"group_by", "count_by"}, l \in ListsS \cup Small}
  \cup {CK(f, l, "type") : f \in {"group_by", "count_by"}, l \in ListsG}
  \cup {C2(f, l, s) : f \in {"concat", "spread2", "zip"}, l \in ListsM, s \in Small}
  \cup {C2(f, s, l) : f \in {"concat", "spread2", "zip"}, l \in ListsM, s \in Small}
  \cup {C2("spread2", s, r) : s \in Strs, r \in Recs}
  \cup {C1(f, s) : f \in {"len", "head", "tail", "spread1"}, s \in Strs}
  \cup {C2(f, s, d) : f \in {"split", "splitjoin"}, s \in Strs, d \in Delims}
  \cup {C2("join", l, d) : l \in ListsS, d \in Delims}
  \cup {C1(f, r) : f \in {"keys", "values", "entries", "spread1"}, r \in Recs}
  \cup {C2("field", r, k) : r \in Recs, k \in Keys}
  \cup {CIJ("range", N, i, j) : i \in -3..4, j \in -3..4}
  \cup {CI("range1", N, i) : i \in -1..5}

VARIABLE c
Init == c \in Cases
Next == UNCHANGED c
Spec == Init /\ [][Next]_c

res == Apply(c)

\* ------------------------------------------------------------- the laws of C14 on the definitions
Sorted(xs, ks) == \A i \in 1..(Len(ks) - 1) : Compare(ks[i], ks[i + 1]) \in {"lt", "eq"}
\* stability: among elements with equal keys the original order is kept (positions via identity tags)
LawSort ==
  (c.f \in {"sort", "sort_by"} /\ res # Unk) =>
     LET ks0 == IF c.f = "sort" THEN c.v.xs ELSE KeySeq(c.k, c.v.xs)
         tagged == [i \in 1..Len(c.v.xs) |-> List(<<c.v.xs[i], Fin(i)>>)]
         st == StableSort(tagged, ks0)
     IN /\ IsPermutation(res.xs, c.v.xs)
        /\ Sorted(res.xs, IF c.f = "sort" THEN res.xs ELSE KeySeq(c.k, res.xs))
        /\ res.xs = [i \in 1..Len(st) |-> st[i].xs[1]]
        /\ \A i, j \in 1..Len(st) : (i < j /\ Compare(KeyFn(IF c.f = "sort" THEN "id" ELSE c.k, st[i].xs[1]),
                                                       KeyFn(IF c.f = "sort" THEN "id" ELSE c.k, st[j].xs[1])) = "eq")
                                       => st[i].xs[2].n < st[j].xs[2].n
LawUnique ==
  c.f = "unique" =>
     /\ \A i, j \in 1..Len(res.xs) : i # j => ~Equals(res.xs[i], res.xs[j])
     /\ \A i \in 1..Len(c.v.xs) : \E j \in 1..Len(res.xs) : Equals(c.v.xs[i], res.xs[j]) \/ c.v.xs[i] = res.xs[j]   \* (NaN is kept: it equals nothing)
     /\ \A j \in 1..Len(res.xs) : \E i \in 1..Len(c.v.xs) :
           /\ c.v.xs[i] = res.xs[j]
           /\ \A h \in 1..(i - 1) : ~Equals(c.v.xs[h], res.xs[j])          \* it is the FIRST of its class
LawReverse  == c.f = "reverse" => Apply(C1("reverse", res)) = c.v
LawChunk    == c.f = "chunk" => /\ Apply(C1("flatten", res)) = c.v
                                /\ \A i \in 1..Len(res.xs) : Len(res.xs[i].xs) <= c.i /\ Len(res.xs[i].xs) >= 1
                                /\ \A i \in 1..(Len(res.xs) - 1) : Len(res.xs[i].xs) = c.i
LawHeadTail == (c.f = "head" /\ LenOf(c.v) > 0) =>
                  (IF IsStr(c.v) THEN Str(res.cs \o Apply(C1("tail", c.v)).cs) = c.v
                                 ELSE List(<<res>> \o Apply(C1("tail", c.v)).xs) = c.v)
LawRange    == (c.f = "range" /\ c.i <= c.j) =>
                  /\ Len(res.xs) = c.j - c.i
                  /\ \A k \in 1..Len(res.xs) : res.xs[k] = Fin(c.i + k - 1)
LawRecord   == c.f = "entries" =>
                  /\ Len(res.xs) = Len(c.v.ks)
                  /\ \A i \in 1..Len(res.xs) : /\ res.xs[i].xs[1] = Apply(C1("keys", c.v)).xs[i]
                                               /\ res.xs[i].xs[2] = Apply(C1("values", c.v)).xs[i]
                                               /\ res.xs[i].xs[2] = Field(c.v, res.xs[i].xs[1].cs)
LawGroup    == (c.f = "group_by" /\ ~IsErr(res)) =>
                  /\ IsPermutation(FlattenSeq(res.vs), c.v.xs)                  \* a partition of the list
                  /\ \A g \in 1..Len(res.ks) : \A e \in 1..Len(res.vs[g].xs) : KeyFn(c.k, res.vs[g].xs[e]).cs = res.ks[g]
                  /\ Apply(CK("count_by", c.v, c.k)).ks = res.ks
                  /\ \A g \in 1..Len(res.ks) : Apply(CK("count_by", c.v, c.k)).vs[g] = Fin(Len(res.vs[g].xs))
LawSplitJoin == (c.f = "split" /\ res # Unk) => Str(JoinSeq(res.xs, c.w.cs)) = c.v
LawSpread   == c.f = "spread2" /\ IsList(c.v) /\ IsList(c.w) => res = Apply(C2("concat", c.v, c.w))
LawIndex    == c.f = "index" => /\ (c.i >= 0 /\ c.i < LenOf(c.v)) => res = Elems(c.v)[c.i + 1]
                                /\ (c.i < 0 /\ -c.i <= LenOf(c.v)) => res = Elems(c.v)[LenOf(c.v) + c.i + 1]
                                /\ (c.i >= LenOf(c.v) \/ -c.i > LenOf(c.v)) => res = Null
LawStringsAreCharSeqs ==
   (IsStr(c.v) /\ c.f = "len") => /\ res = Fin(Len(Apply(C1("spread1", c.v)).xs))
                                  /\ \A i \in 0..(res.n - 1) : Apply(CI("index", c.v, i)) = Apply(C1("spread1", c.v)).xs[i + 1]
Laws == /\ LawSort /\ LawUnique /\ LawReverse /\ LawChunk /\ LawHeadTail /\ LawRange /\ LawRecord
        /\ LawGroup /\ LawSplitJoin /\ LawSpread /\ LawIndex /\ LawStringsAreCharSeqs

Emit == PrintT(<<"CASE", ToJson([c |-> c, exp |-> res])>>)
=============================================================================
