------------------------------ MODULE Trace_C18 ------------------------------
(***************************************************************************)
(* Trace validation for C18.  For every recursion shape the harness ran    *)
(* the runaway program with the call hook on (in process, on a large       *)
(* stack) and logged the entry depth of every call of the recursive        *)
(* function; and it ran the runaway and the few-hundred-deep programs in   *)
(* the real release CLI under an 8 MiB main-thread stack limit.            *)
(* Each `shape` event is validated against the CallDepth machine: the      *)
(* logged depths must be exactly the depths of Descend steps (level *      *)
(* Inc), the guard must have tripped where GuardTrip is enabled, the CLI   *)
(* must have ended with the depth error (not a signal), and the finite     *)
(* program must have completed.                                            *)
(***************************************************************************)
EXTENDS Naturals, Integers, Sequences, TLC, Json, IOUtils

Limit == 1000
Events == ndJsonDeserialize(IOEnv.TRACE)
VARIABLES l, bad
vars == <<l, bad>>

DepthsOk(e) == LET d == e.measure.depths IN
  /\ Len(d) >= 2
  /\ \A i \in 1..Len(d) : d[i] = (i - 1) * e.inc            \* Descend: depth = level * Inc
  /\ d[Len(d)] <= Limit + e.inc                             \* never deeper than one level past the limit
  /\ d[Len(d)] + e.inc > Limit                              \* GuardTrip is enabled at the next level
  /\ e.measure.guard
CliOk(e) == /\ e.runaway.exit = 1 /\ e.runaway.depth_error    \* an evaluation error, not 134 / 139 / a timeout
            /\ e.finite.exit = 0 /\ e.finite.ok
            \* the same two programs arriving on standard input (blots -e)
            /\ e.stdin_mode.runaway_exit = 1 /\ e.stdin_mode.runaway_depth_error
            /\ e.stdin_mode.finite_exit = 0 /\ e.stdin_mode.finite_ok
EventOk(e) == e.ev = "shape" /\ DepthsOk(e) /\ CliOk(e)

Init == l = 1 /\ bad = <<>>
Step == /\ l <= Len(Events)
        /\ bad' = IF EventOk(Events[l]) THEN bad ELSE Append(bad, l)
        /\ l' = l + 1
TraceSpec == Init /\ [][Step]_vars
Final == (l = Len(Events) + 1) => PrintT(<<"TRACE_RESULT", ToJson([consumed |-> l - 1, bad |-> bad])>>)
=============================================================================
