------------------------------- MODULE MC_C09 -------------------------------
EXTENDS Comments, TLC, Json
\* one line per finished behaviour: the source, and whether the machine loses comments on it
EmitDone == phase = "done" =>
              PrintT(<<"CASE", ToJson([kind |-> Kind, src |-> src, loses |-> Loses, out |-> [j \in 1..Len(out) |-> out[j].s]])>>)
=============================================================================
