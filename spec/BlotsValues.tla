---------------------------- MODULE BlotsValues ----------------------------
(***************************************************************************)
(* The value universe of Blots, as tagged records.                         *)
(*                                                                         *)
(* Numbers: [t |-> "num", k |-> kind, n |-> i].  kind "fin" is a finite    *)
(* double named by the integer n through a strictly increasing, zero-      *)
(* preserving lift chosen by the harness (order, equality and order        *)
(* statistics commute with such a lift); "nzero" is -0.0; "pinf", "ninf",  *)
(* "nan" are the IEEE specials.                                            *)
(* Strings: [t |-> "str", cs |-> <<c1, ..>>], each ci an index into the    *)
(* harness ALPHABET, which is sorted by code point (so lexicographic order *)
(* on index sequences is the implementation's string order).               *)
(* Records keep insertion order: parallel sequences ks (keys) and vs.      *)
(***************************************************************************)
EXTENDS Naturals, Integers, Sequences, FiniteSets

Fin(i)   == [t |-> "num", k |-> "fin", n |-> i]
NZero    == [t |-> "num", k |-> "nzero", n |-> 0]
PInf     == [t |-> "num", k |-> "pinf", n |-> 0]
NInf     == [t |-> "num", k |-> "ninf", n |-> 0]
NaN      == [t |-> "num", k |-> "nan", n |-> 0]
Str(cs)  == [t |-> "str", cs |-> cs]
Bool(b)  == [t |-> "bool", b |-> b]
Null     == [t |-> "null"]
List(xs) == [t |-> "list", xs |-> xs]
Rec(ks, vs) == [t |-> "rec", ks |-> ks, vs |-> vs]
BuiltIn(name) == [t |-> "bi", name |-> name]

IsNum(v)  == v.t = "num"
IsStr(v)  == v.t = "str"
IsBool(v) == v.t = "bool"
IsNull(v) == v.t = "null"
IsList(v) == v.t = "list"
IsRec(v)  == v.t = "rec"
IsNaN(v)  == IsNum(v) /\ v.k = "nan"

TypeOf(v) == v.t

\* position of key k in a key sequence, 0 if absent
RECURSIVE KeyPos(_, _, _)
KeyPos(ks, k, i) == IF i > Len(ks) THEN 0 ELSE IF ks[i] = k THEN i ELSE KeyPos(ks, k, i + 1)
HasKey(r, k) == KeyPos(r.ks, k, 1) # 0
Field(r, k)  == LET p == KeyPos(r.ks, k, 1) IN IF p = 0 THEN Null ELSE r.vs[p]

\* record construction semantics: a repeated key keeps its first position and takes the last value
RECURSIVE RecInsertAll(_, _, _)
RecInsertAll(acc, ks, vs) ==
  IF ks = <<>> THEN acc
  ELSE LET k == Head(ks)  v == Head(vs)  p == KeyPos(acc.ks, k, 1) IN
       RecInsertAll(IF p = 0 THEN Rec(Append(acc.ks, k), Append(acc.vs, v))
                             ELSE Rec(acc.ks, [acc.vs EXCEPT ![p] = v]),
                    Tail(ks), Tail(vs))
MkRec(ks, vs) == RecInsertAll(Rec(<<>>, <<>>), ks, vs)

\* an integer key for the numeric order; -0 and +0 coincide
RankInf == 1000000
NumKey(v) == CASE v.k = "fin"   -> v.n
               [] v.k = "nzero" -> 0
               [] v.k = "pinf"  -> RankInf
               [] v.k = "ninf"  -> -RankInf
               [] OTHER         -> 0

\* nesting depth and size, used for non-triviality rules
RECURSIVE Depth(_)
Depth(v) == IF IsList(v) THEN 1 + (IF v.xs = <<>> THEN 0 ELSE
                 LET S == {Depth(v.xs[i]) : i \in 1..Len(v.xs)} IN CHOOSE m \in S : \A x \in S : x <= m)
            ELSE IF IsRec(v) THEN 1 + (IF v.vs = <<>> THEN 0 ELSE
                 LET S == {Depth(v.vs[i]) : i \in 1..Len(v.vs)} IN CHOOSE m \in S : \A x \in S : x <= m)
            ELSE 0
=============================================================================
