------------------------------- MODULE MC_X04I -------------------------------
(* X04, second part: every list of one or two texts over InlinePool x a few input records, with the answers the model of         *)
(* evaluate_inline_expressions gives (WasmEval.InlineResult).                                                                    *)
EXTENDS WasmEval, Json
InputRecs == {[n \in InputNames |-> Unb],
              [n \in InputNames |-> IF n = "a" THEN IntV(1) ELSE Unb],
              [n \in InputNames |-> CASE n = "a" -> IntV(2) [] n = "b" -> StrV("s") [] n = "value_1" -> ListV(<<IntV(1)>>) [] OTHER -> Unb]}
VARIABLE c
Idle == /\ mode = "inline" /\ stdin = <<>> /\ flags = <<>> /\ script = <<>> /\ phase = "done" /\ pos = 1
        /\ inputs = NoInputs /\ unnamed = 0 /\ env = NoEnv /\ outs = <<>> /\ exit = 0
XInit == Idle /\ c \in {[texts |-> s, inp |-> i] : s \in UNION {[1..k -> InlinePool] : k \in 1..2}, i \in InputRecs}
XNext == UNCHANGED <<c, vars>>
XSpec == XInit /\ [][XNext]_<<c, vars>>
R == InlineResult(c.texts, c.inp)
\* the answer to a text does not depend on the texts before it
Independent == \A i \in 1..Len(c.texts) : R[i] = InlineOne(c.texts[i], c.inp)
XEmit == PrintT(<<"CASE", ToJson([texts |-> c.texts, inputs |-> [n \in {m \in InputNames : c.inp[m] # Unb} |-> c.inp[n]], answers |-> R])>>)
=============================================================================
