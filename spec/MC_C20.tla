------------------------------- MODULE MC_C20 -------------------------------
(***************************************************************************)
(* C20, exhaustive part: short digit patterns around every power of ten.   *)
(* A case is (sign, significant digits ds (1..15 of them, no trailing      *)
(* zero), p) denoting  0.d1d2...dk x 10^p.  A double holds 15 significant  *)
(* decimal digits, so the display form of the nearest double is determined *)
(* by the pattern: DispText builds it character by character (standard     *)
(* notation with comma groups for 1e-4 <= |x| < 1e15, else scientific).    *)
(* Invariant: the recogniser automaton of Numerals.tla accepts the built   *)
(* text as well-formed and reads the same digits and exponent back.        *)
(***************************************************************************)
EXTENDS Numerals, TLC, Json

Patterns == {<<1>>, <<9>>, <<1, 2>>, <<1, 5>>, <<9, 9>>, <<1, 0, 1>>, <<1, 2, 5>>, <<9, 9, 9>>, <<1, 2, 3, 4>>, <<9, 9, 9, 9, 9>>,
             <<1, 0, 0, 0, 0, 0, 1>>, <<1, 2, 3, 4, 5, 6, 7, 8, 9, 0, 1, 2, 3, 4, 5>>, <<9, 9, 9, 9, 9, 9, 9, 9, 9, 9, 9, 9, 9, 9, 9>>,
             <<1, 0, 0, 0, 0, 0, 0, 0, 0, 0, 0, 0, 0, 0, 1>>, <<5>>, <<2, 5>>, <<7, 0, 7>>}
Exps == -9..19

VARIABLE c
Init == c \in {[neg |-> n, ds |-> d, p |-> p] : n \in BOOLEAN, d \in Patterns, p \in Exps}
Next == UNCHANGED c
Spec == Init /\ [][Next]_c

DigitCh(d) == CASE d = 0 -> "0" [] d = 1 -> "1" [] d = 2 -> "2" [] d = 3 -> "3" [] d = 4 -> "4"
                [] d = 5 -> "5" [] d = 6 -> "6" [] d = 7 -> "7" [] d = 8 -> "8" [] d = 9 -> "9"
RECURSIVE NatChars(_)
NatChars(n) == IF n < 10 THEN <<DigitCh(n)>> ELSE Append(NatChars(n \div 10), DigitCh(n % 10))
Chars(ds) == [i \in 1..Len(ds) |-> DigitCh(ds[i])]
\* integer digits with a comma before every group of three counted from the right
RECURSIVE Group(_)
Group(cs) == IF Len(cs) <= 3 THEN cs ELSE Group(SubSeq(cs, 1, Len(cs) - 3)) \o <<",">> \o SubSeq(cs, Len(cs) - 2, Len(cs))
Zeros(n) == [i \in 1..n |-> "0"]

Sci == c.p < -3 \/ c.p > 15            \* |x| < 1e-4 or |x| >= 1e15   (x = 0.d1.. x 10^p)
DispText ==
  LET k == Len(c.ds)
      body == IF Sci THEN <<DigitCh(c.ds[1])>> \o (IF k > 1 THEN <<".">> \o Chars(SubSeq(c.ds, 2, k)) ELSE <<>>)
                          \o <<"e">> \o (IF c.p - 1 < 0 THEN <<"-">> \o NatChars(1 - c.p) ELSE NatChars(c.p - 1))
              ELSE IF c.p <= 0 THEN <<"0", ".">> \o Zeros(-c.p) \o Chars(c.ds)
              ELSE IF k <= c.p THEN Group(Chars(c.ds) \o Zeros(c.p - k))
              ELSE Group(Chars(SubSeq(c.ds, 1, c.p))) \o <<".">> \o Chars(SubSeq(c.ds, c.p + 1, k))
  IN (IF c.neg THEN <<"-">> ELSE <<>>) \o body

\* the recogniser reads back what the printer wrote
Recognised == LET s == DispRun(DispInit, DispText) IN
              /\ DispWellFormed(s)
              /\ s.neg = c.neg
              /\ StripTrailingZeros(s.ds) = c.ds
              /\ DispE10(s) = c.p
              /\ s.sci = Sci
Emit == PrintT(<<"CASE", ToJson([neg |-> c.neg, ds |-> c.ds, p |-> c.p, text |-> DispText])>>)
=============================================================================
