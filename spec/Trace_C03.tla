------------------------------ MODULE Trace_C03 ------------------------------
(***************************************************************************)
(* Trace validation for C03: random sessions (8 names, nested / triple-    *)
(* nested assignments, assignments inside lists, call arguments,           *)
(* conditionals and callbacks, failing statements, reserved names) were    *)
(* run in a real session with the insertion hook on.  Every event carries  *)
(* the statement, the outcome, the full root scope and the root            *)
(* insertions in order.  Each event is one Session step:                   *)
(*   - the model executes the same statement (Exec) and must agree on      *)
(*     success and on the projected root scope;                            *)
(*   - independently of the model: no bound name changed (Immutable), no   *)
(*     name was inserted twice or over a visible binding (NoDoubleInsert), *)
(*     nothing outside the name universe is bound (NoLeak).                *)
(* `reset` events start a fresh session.                                   *)
(***************************************************************************)
EXTENDS Session, TLC, Json, IOUtils

Events == ndJsonDeserialize(IOEnv.TRACE)
VARIABLES l, bad, obs      \* obs: the last observed root scope (projected)
tvars == <<l, bad, obs, env, outs, last, hist>>

Unbound == [n \in Names |-> UNB]
ObsEnv(e) == [n \in Names |-> e.env[n]]

NoDoubleInsert(e) ==
  /\ \A i, j \in 1..Len(e.inserts) : i # j => e.inserts[i].key # e.inserts[j].key
  /\ \A i \in 1..Len(e.inserts) : ~e.inserts[i].existed
  /\ \A i \in 1..Len(e.inserts) : e.inserts[i].key \in Names => obs[e.inserts[i].key] = UNB
ImmutableObs(e) == \A n \in Names : obs[n] # UNB => e.env[n] = obs[n]
NoLeak(e) == e.extra = <<>>
\* exactly the inserted names became bound
InsertsExplainChange(e) == \A n \in Names : (obs[n] = UNB /\ e.env[n] # UNB) <=> (\E i \in 1..Len(e.inserts) : e.inserts[i].key = n)

StmtOk(e, x) == /\ ~e.panic
                /\ e.ok = x.ok
                /\ ObsEnv(e) = ProjEnv(x.env)
                /\ NoDoubleInsert(e) /\ ImmutableObs(e) /\ NoLeak(e) /\ InsertsExplainChange(e)

Init == l = 1 /\ bad = <<>> /\ obs = Unbound /\ SInit
Reset == /\ l <= Len(Events) /\ Events[l].ev = "reset"
         /\ env' = EmptyFrame /\ outs' = <<>> /\ obs' = Unbound /\ l' = l + 1
         /\ UNCHANGED <<bad, last, hist>>
Stmt == /\ l <= Len(Events) /\ Events[l].ev = "stmt"
        /\ LET e == Events[l]  x == Exec(e.st, env, outs) IN
           /\ bad' = IF StmtOk(e, x) THEN bad ELSE Append(bad, l)
           /\ env' = x.env /\ outs' = x.outs
           /\ obs' = ObsEnv(e)
        /\ l' = l + 1
        /\ UNCHANGED <<last, hist>>
TraceSpec == Init /\ [][Reset \/ Stmt]_tvars
Final == (l = Len(Events) + 1) => PrintT(<<"TRACE_RESULT", ToJson([consumed |-> l - 1, bad |-> bad])>>)
=============================================================================
