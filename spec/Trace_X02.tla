------------------------------ MODULE Trace_X02 ------------------------------
(***************************************************************************)
(* Trace validation of real `tokenize` results against Tokens.tla.         *)
(* Events: reset (a new text: its length in bytes, the byte offsets that   *)
(* are character boundaries are checked by the harness flag `boundary`),   *)
(* tok (kind Start / End, rule, pos), done (end of the stream).            *)
(***************************************************************************)
EXTENDS Tokens, TLC, Json, IOUtils

Events == ndJsonDeserialize(IOEnv.TRACE)
VARIABLES l, bad, len, broken
vars == <<l, bad, len, broken, stack, pos, closed>>

Init == l = 1 /\ bad = <<>> /\ len = 0 /\ broken = FALSE /\ TInit
Reset == /\ l <= Len(Events) /\ Events[l].ev = "reset"
         /\ len' = Events[l].len /\ broken' = FALSE
         /\ stack' = <<>> /\ pos' = 0 /\ closed' = 0
         /\ l' = l + 1 /\ UNCHANGED bad
Tok == /\ l <= Len(Events) /\ Events[l].ev = "tok"
       /\ LET e == Events[l]
              ok == ~broken /\ e.boundary /\ (IF e.kind = "Start" THEN CanStart(e.rule, e.pos, len) ELSE CanEnd(e.rule, e.pos, len)) IN
          IF ok THEN /\ (IF e.kind = "Start" THEN TStart(e.rule, e.pos, len) ELSE TEnd(e.rule, e.pos, len))
                     /\ UNCHANGED <<bad, broken>>
          ELSE /\ bad' = IF broken THEN bad ELSE Append(bad, l)      \* one report per text
               /\ broken' = TRUE /\ UNCHANGED <<stack, pos, closed>>
       /\ l' = l + 1 /\ UNCHANGED len
Done == /\ l <= Len(Events) /\ Events[l].ev = "done"
        /\ bad' = IF broken \/ Balanced THEN bad ELSE Append(bad, l)
        /\ l' = l + 1 /\ UNCHANGED <<len, broken, stack, pos, closed>>
TraceSpec == Init /\ [][Reset \/ Tok \/ Done]_vars
Final == (l = Len(Events) + 1) => PrintT(<<"TRACE_RESULT", ToJson([consumed |-> l - 1, bad |-> bad])>>)
=============================================================================
