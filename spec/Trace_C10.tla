------------------------------ MODULE Trace_C10 ------------------------------
(***************************************************************************)
(* Trace validation for C10: random deep token strings (nested parentheses,*)
(* stacked prefix / postfix operators, up to ~25 operators) were parsed by *)
(* the real parser; each logged tree must be the tree the reference parser *)
(* derives from the precedence table.                                      *)
(***************************************************************************)
EXTENDS Syntax, TLC, Json, IOUtils

Events == ndJsonDeserialize(IOEnv.TRACE)
VARIABLES l, bad
vars == <<l, bad>>

\* the AST has one operator for ! and not
RECURSIVE Norm(_)
Norm(t) == CASE t.k = "id"   -> t
             [] t.k = "bin"  -> Bin(t.o, Norm(t.l), Norm(t.r))
             [] t.k = "un"   -> Un(IF t.o = "notw" THEN "not" ELSE t.o, Norm(t.e))
             [] t.k = "post" -> Post(t.o, Norm(t.e))
             [] OTHER -> t

ParseOk(e) == LET t == ParseRef(e.toks) IN t # Fail /\ e.tree = Norm(t)

Init == l = 1 /\ bad = <<>>
Step == /\ l <= Len(Events)
        /\ bad' = IF ParseOk(Events[l]) THEN bad ELSE Append(bad, l)
        /\ l' = l + 1
TraceSpec == Init /\ [][Step]_vars
Final == (l = Len(Events) + 1) => PrintT(<<"TRACE_RESULT", ToJson([consumed |-> l - 1, bad |-> bad])>>)
=============================================================================
