---------------------------- MODULE BlotsScalar ----------------------------
(***************************************************************************)
(* Scalar and predicate built-ins that no listed property names but that   *)
(* belong to the language: abs / floor / ceil / trunc / round, any / all,  *)
(* includes, typeof, arity, to_bool, to_number, dot.                       *)
(* The rounding functions are stated under the HALF lift: Fin(n) names the *)
(* double n / 2, so every case of "which way does a half go" and "what is  *)
(* the sign of a zero result" is expressible with integers.  The others    *)
(* use the identity lift.                                                  *)
(***************************************************************************)
EXTENDS BlotsBuiltins, BuiltinTable

\* ------------------------------------------------------------------ rounding family (half lift)
EvenPart(n) == 2 * (n \div 2)                     \* \div rounds towards minus infinity
Signed(q, neg) == IF q = 0 /\ neg THEN NZero ELSE Fin(q)
HFloor(x) == IF x.k = "fin" THEN Fin(EvenPart(x.n)) ELSE x
HCeil(x)  == IF x.k = "fin" THEN Signed(-EvenPart(-x.n), x.n < 0) ELSE x         \* ceil(-0.5) = -0
HTrunc(x) == IF x.k = "fin" THEN (IF x.n >= 0 THEN Fin(EvenPart(x.n)) ELSE Signed(-EvenPart(-x.n), TRUE)) ELSE x
HRound(x) == IF x.k = "fin" THEN (IF x.n % 2 = 0 THEN x ELSE IF x.n > 0 THEN Fin(x.n + 1) ELSE Fin(x.n - 1)) ELSE x   \* halves go away from zero
HAbs(x)   == CASE x.k = "fin" -> Fin(IF x.n < 0 THEN -x.n ELSE x.n) [] x.k = "nzero" -> Fin(0) [] x.k = "ninf" -> PInf [] OTHER -> x
Rounding(f, x) == IF ~IsNum(x) THEN Err
                  ELSE CASE f = "floor" -> HFloor(x) [] f = "ceil" -> HCeil(x) [] f = "trunc" -> HTrunc(x)
                         [] f = "round" -> HRound(x) [] f = "abs" -> HAbs(x)

\* ------------------------------------------------------------------ predicates on lists (identity lift)
IsTrue(v) == IsBool(v) /\ v.b
AnyOf(v) == IF ~IsList(v) THEN Err ELSE Bool(\E i \in 1..Len(v.xs) : IsTrue(v.xs[i]))
AllOf(v) == IF ~IsList(v) THEN Err ELSE Bool(\A i \in 1..Len(v.xs) : IsTrue(v.xs[i]))          \* a non-boolean element counts as false
SubSeqAt(s, t, p) == p + Len(t) - 1 <= Len(s) /\ SubSeq(s, p, p + Len(t) - 1) = t
Includes(h, x) == IF IsList(h) THEN Bool(\E i \in 1..Len(h.xs) : Equals(h.xs[i], x))
                  ELSE IF IsStr(h) THEN (IF IsStr(x) THEN Bool(\E p \in 1..(Len(h.cs) + 1) : SubSeqAt(h.cs, x.cs, p)) ELSE Err)
                  ELSE Err

\* ------------------------------------------------------------------ types and conversions
TypeName(v) == CASE v.t = "num" -> "number" [] v.t = "str" -> "string" [] v.t = "bool" -> "boolean" [] v.t = "null" -> "null"
                 [] v.t = "list" -> "list" [] v.t = "rec" -> "record" [] v.t = "bi" -> "built-in function" [] v.t = "fnsig" -> "function"
TypeOfV(v) == [t |-> "tyname", s |-> TypeName(v)]
\* a function is given by its parameter modes only: <<"req", "opt", "rest">>
FnSig(ms) == [t |-> "fnsig", ms |-> ms]
ArityOf(v) == IF v.t = "fnsig" THEN Fin(Cardinality({i \in 1..Len(v.ms) : v.ms[i] = "req"}))
              ELSE IF v.t = "bi" THEN Fin(BuiltinArity[v.name].lo) ELSE Err
ToBool(v) == IF IsBool(v) THEN v ELSE IF IsNum(v) THEN Bool(~IsZero(v)) ELSE Err          \* NaN is "not zero"
ToNumber(v) == IF IsNum(v) THEN v ELSE IF IsBool(v) THEN Fin(IF v.b THEN 1 ELSE 0) ELSE IF IsStr(v) THEN [t |-> "any"] ELSE Err   \* parsing numerals is C16's subject: a number or an error
RECURSIVE DotAcc(_, _, _, _)
DotAcc(a, b, i, acc) == IF i > Len(a) THEN acc
                        ELSE IF ~(IsNum(a[i]) /\ IsNum(b[i])) THEN Err
                        ELSE LET p == NumMul(a[i], b[i])  s == IF IsErr(acc) \/ acc.t = "unk" \/ p.t = "unk" THEN Unk ELSE NumAdd(acc, p) IN DotAcc(a, b, i + 1, s)
DotOf(v, w) == IF ~(IsList(v) /\ IsList(w)) \/ Len(v.xs) # Len(w.xs) THEN Err ELSE DotAcc(v.xs, w.xs, 1, Fin(0))

XCall(f, v, w) == [f |-> f, v |-> v, w |-> w]
XApply(c) == CASE c.f \in {"floor", "ceil", "trunc", "round", "abs"} -> Rounding(c.f, c.v)
               [] c.f = "any" -> AnyOf(c.v) [] c.f = "all" -> AllOf(c.v)
               [] c.f = "includes" -> Includes(c.v, c.w)
               [] c.f = "typeof" -> TypeOfV(c.v) [] c.f = "arity" -> ArityOf(c.v)
               [] c.f = "to_bool" -> ToBool(c.v) [] c.f = "to_number" -> ToNumber(c.v)
               [] c.f = "dot" -> DotOf(c.v, c.w)
=============================================================================
