------------------------------- MODULE MC_X01 -------------------------------
(***************************************************************************)
(* Extended conformance X01 (not one of the listed properties): one TLC    *)
(* state per call of a scalar / predicate built-in on an exhaustive small  *)
(* pool; laws as invariants; every state emitted with the expected result  *)
(* for replay into the real evaluator.                                     *)
(***************************************************************************)
EXTENDS BlotsScalar, TLC, Json

Halves == {Fin(n) : n \in -7..7} \cup {NZero, PInf, NInf, NaN}
Scal   == {Fin(0), Fin(1), Fin(-2), NZero, NaN, PInf, Bool(TRUE), Bool(FALSE), Null, Str(<<>>), Str(<<12>>), Str(<<12, 13>>), List(<<>>), List(<<Fin(1)>>), Rec(<<>>, <<>>),
           Rec(<<<<12>>>>, <<Fin(1)>>), BuiltIn("sum"), BuiltIn("map"), BuiltIn("round"), BuiltIn("slice"), FnSig(<<>>), FnSig(<<"req">>), FnSig(<<"req", "opt">>),
           FnSig(<<"opt", "rest">>), FnSig(<<"req", "req", "rest">>)}
BoolD  == {Bool(TRUE), Bool(FALSE), Null, Fin(1), Str(<<12>>)}
BLists == {List(s) : s \in UNION {[1..k -> BoolD] : k \in 0..3}}
MixD   == {Fin(1), Fin(0), NZero, NaN, Str(<<12>>), List(<<Fin(1)>>), Null, Rec(<<<<12>>>>, <<Fin(1)>>)}
MLists == {List(s) : s \in UNION {[1..k -> MixD] : k \in 0..2}}
Strs   == {Str(s) : s \in UNION {[1..k -> {12, 13, 19}] : k \in 0..3}}
NumD   == {Fin(2), Fin(-3), Fin(0), NZero, PInf, NInf, NaN}
NLists == {List(s) : s \in UNION {[1..k -> NumD] : k \in 0..2}}

Cases ==
     {XCall(f, x, Null) : f \in {"floor", "ceil", "trunc", "round", "abs"}, x \in Halves \cup {Null, Str(<<12>>), List(<<Fin(1)>>), Bool(TRUE)}}
  \cup {XCall(f, l, Null) : f \in {"any", "all"}, l \in BLists \cup {Null, Fin(1), Str(<<12>>), Bool(TRUE)}}
  \cup {XCall("includes", l, x) : l \in MLists, x \in MixD}
  \cup {XCall("includes", s, t) : s \in Strs, t \in Strs \cup {Fin(1), Null}}
  \cup {XCall("includes", x, Fin(1)) : x \in {Null, Fin(1), Rec(<<>>, <<>>)}}
  \cup {XCall(f, x, Null) : f \in {"typeof", "arity", "to_bool", "to_number"}, x \in Scal}
  \cup {XCall("dot", a, b) : a \in NLists, b \in NLists}
  \cup {XCall("dot", a, b) : a \in {Null, List(<<Str(<<12>>)>>), List(<<Fin(1)>>)}, b \in {List(<<Fin(1)>>), Fin(1)}}

VARIABLE c
Init == c \in Cases
Next == UNCHANGED c
Spec == Init /\ [][Next]_c
res == XApply(c)

\* ------------------------------------------------------------------ laws
Le(a, b) == Compare(a, b) \in {"lt", "eq"}
IsFinNum(x) == IsNum(x) /\ x.k \in {"fin", "nzero"}
RoundingLaws == (c.f \in {"floor", "ceil", "trunc", "round"} /\ IsFinNum(c.v)) =>
   LET fl == Rounding("floor", c.v)  ce == Rounding("ceil", c.v)  tr == Rounding("trunc", c.v)  ro == Rounding("round", c.v) IN
   /\ Le(fl, c.v) /\ Le(c.v, ce)                                           \* floor <= x <= ceil
   /\ NumKey(ce) - NumKey(fl) \in {0, 2}                                   \* adjacent integers (in halves)
   /\ NumKey(fl) % 2 = 0 /\ NumKey(ce) % 2 = 0                             \* results are integers
   /\ Equals(tr, IF IsNeg(c.v) THEN ce ELSE fl)                            \* trunc goes towards zero
   /\ (Equals(ro, fl) \/ Equals(ro, ce))
   /\ Equals(Rounding("floor", fl), fl) /\ Equals(Rounding("ceil", ce), ce)   \* idempotent
AbsLaw == (c.f = "abs" /\ IsNum(c.v) /\ ~IsNaN(c.v)) => (~IsNeg(res) /\ (Equals(res, c.v) \/ Equals(res, Neg(c.v))))
AnyAllLaw == (c.f \in {"any", "all"} /\ IsList(c.v)) =>
   /\ (AllOf(c.v).b /\ c.v.xs # <<>>) => AnyOf(c.v).b
   /\ AnyOf(List(<<>>)) = Bool(FALSE) /\ AllOf(List(<<>>)) = Bool(TRUE)
IncludesLaw == (c.f = "includes" /\ IsList(c.v)) => (res.b <=> \E i \in 1..Len(c.v.xs) : Equals(c.v.xs[i], c.w))
IncludesStrLaw == (c.f = "includes" /\ IsStr(c.v) /\ IsStr(c.w)) => ((c.w.cs = <<>> => res.b) /\ (res.b => Len(c.w.cs) <= Len(c.v.cs)))
DotLaw == (c.f = "dot" /\ ~IsErr(res)) => XApply(XCall("dot", c.w, c.v)) = res          \* commutative
TotalLaw == res.t \in {"num", "bool", "err", "unk", "tyname", "any"}

Emit == PrintT(<<"CASE", ToJson([c |-> c, exp |-> res])>>)
=============================================================================
