SPECIFICATION Spec
CONSTANT Big = FALSE
INVARIANT Laws2
INVARIANT Laws3
INVARIANT LawKeyOrder
INVARIANT Emit
CHECK_DEADLOCK FALSE
