------------------------------- MODULE MC_X04 -------------------------------
(* X04: every script up to MaxStmts over the statement pool of Cli.tla x a few input records, with the expected response of the WASM evaluate. *)
EXTENDS WasmEval, Json
InputRecs == {[n \in InputNames |-> Unb],
              [n \in InputNames |-> IF n = "a" THEN IntV(1) ELSE Unb],
              [n \in InputNames |-> CASE n = "a" -> IntV(2) [] n = "b" -> StrV("s") [] n = "value_1" -> ListV(<<IntV(1)>>) [] OTHER -> Unb]}
VARIABLE c
\* (the variables of the CLI machine are not used here; they are pinned to one value)
Idle == /\ mode = "inline" /\ stdin = <<>> /\ flags = <<>> /\ script = <<>> /\ phase = "done" /\ pos = 1
        /\ inputs = NoInputs /\ unnamed = 0 /\ env = NoEnv /\ outs = <<>> /\ exit = 0
XInit == Idle /\ c \in {[script |-> s, inp |-> i] : s \in UNION {[1..k -> StmtPool] : k \in 0..MaxStmts}, i \in InputRecs}
XNext == UNCHANGED <<c, vars>>
XSpec == XInit /\ [][XNext]_<<c, vars>>
R == WasmResult(c.script, c.inp)
\* the driver agrees with the CLI machine on what gets declared, whenever both succeed
DeclaredOnce == R.ok => \A i, j \in 1..Len(R.outnames) : i # j => R.outnames[i] # R.outnames[j]
DeclaredAreBound == R.ok => \A i \in 1..Len(R.outnames) : R.env[R.outnames[i]] # Unb
XEmit == PrintT(<<"CASE", ToJson([script |-> c.script, inputs |-> [n \in {m \in InputNames : c.inp[m] # Unb} |-> c.inp[n]], ok |-> R.ok,
                                  outputs |-> IF R.ok THEN R.outnames ELSE <<>>,
                                  bindings |-> IF R.ok THEN [n \in {m \in OutNames : R.env[m] # Unb} |-> R.env[n]] ELSE <<>>])>>)
=============================================================================
