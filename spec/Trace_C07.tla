------------------------------ MODULE Trace_C07 ------------------------------
(***************************************************************************)
(* Trace validation for C07 / C08.                                         *)
(*  fmtops - a random operator-fragment expression was formatted by the    *)
(*           real formatter at some width; the OUTPUT, tokenised, must     *)
(*           parse under the reference parser (the property's precedence   *)
(*           table) to the tree of the input;                              *)
(*  fmt    - a corpus program through a driver at a width: the statement   *)
(*           trees before and after are identical (C07) and the second     *)
(*           pass returned the same text (C08).                            *)
(* The verdicts for the two properties are kept apart (bad7, bad8).        *)
(***************************************************************************)
EXTENDS Syntax, TLC, Json, IOUtils

Events == ndJsonDeserialize(IOEnv.TRACE)
VARIABLES l, bad7, bad8
vars == <<l, bad7, bad8>>

RECURSIVE Norm(_)
Norm(t) == CASE t.k = "id"   -> t
             [] t.k = "bin"  -> Bin(t.o, Norm(t.l), Norm(t.r))
             [] t.k = "un"   -> Un(IF t.o = "notw" THEN "not" ELSE t.o, Norm(t.e))
             [] t.k = "post" -> Post(t.o, Norm(t.e))
             [] OTHER -> t

Ok7(e) == CASE e.ev = "fmtops" -> e.tokok /\ Norm(ParseRef(e.toks)) = e.tree
            [] e.ev = "fmt"    -> e.after_ok /\ e.after = e.before       \* (after_ok: the output was read back at all)
            [] OTHER -> FALSE
Ok8(e) == e.ev = "fmt" => e.idempotent

Init == l = 1 /\ bad7 = <<>> /\ bad8 = <<>>
Step == /\ l <= Len(Events)
        /\ bad7' = IF Ok7(Events[l]) THEN bad7 ELSE Append(bad7, l)
        /\ bad8' = IF Ok8(Events[l]) THEN bad8 ELSE Append(bad8, l)
        /\ l' = l + 1
TraceSpec == Init /\ [][Step]_vars
Final == (l = Len(Events) + 1) => PrintT(<<"TRACE_RESULT", ToJson([consumed |-> l - 1, bad |-> bad7, bad8 |-> bad8])>>)
=============================================================================
