------------------------------ MODULE BlotsOps ------------------------------
(***************************************************************************)
(* Scalar operator semantics and the broadcasting law (property C11).      *)
(*                                                                         *)
(* Numbers are exact under the identity lift: Fin(n) is the double n.      *)
(* NumOp gives the IEEE-754 result whenever it is again nameable in the    *)
(* model (exact integers, signed zeros, infinities, NaN) and Unk when it   *)
(* is some other double (e.g. 1/3): Unk means "a number the specification  *)
(* does not name", never an error.                                         *)
(***************************************************************************)
EXTENDS BlotsOrder

Err == [t |-> "err"]
Unk == [t |-> "unk"]
IsErr(v) == v.t = "err"

ArithOps == {"add", "sub", "mul", "div", "mod", "pow"}
CmpOps   == {"eq", "ne", "lt", "le", "gt", "ge"}
AndOps   == {"and", "nand"}      \* && and the word spelling
OrOps    == {"or", "nor"}        \* || and the word spelling
BroadcastOps == ArithOps \cup CmpOps \cup AndOps \cup OrOps \cup {"coalesce"}

IsInf(x)  == x.k \in {"pinf", "ninf"}
IsZero(x) == x.k = "nzero" \/ (x.k = "fin" /\ x.n = 0)
IsNeg(x)  == x.k \in {"nzero", "ninf"} \/ (x.k = "fin" /\ x.n < 0)
Val(x)    == IF x.k = "fin" THEN x.n ELSE 0
Zero(neg) == IF neg THEN NZero ELSE Fin(0)
Inf(neg)  == IF neg THEN NInf ELSE PInf
Abs(i)    == IF i < 0 THEN -i ELSE i
Xor(p, q) == p # q

Neg(x) == CASE x.k = "fin"   -> IF x.n = 0 THEN NZero ELSE Fin(-x.n)
            [] x.k = "nzero" -> Fin(0)
            [] x.k = "pinf"  -> NInf
            [] x.k = "ninf"  -> PInf
            [] OTHER         -> x

NumAdd(x, y) ==
  IF IsNaN(x) \/ IsNaN(y) THEN NaN
  ELSE IF IsInf(x) /\ IsInf(y) THEN (IF x.k = y.k THEN x ELSE NaN)
  ELSE IF IsInf(x) THEN x
  ELSE IF IsInf(y) THEN y
  ELSE LET s == Val(x) + Val(y) IN
       IF s # 0 THEN Fin(s)
       ELSE IF IsZero(x) /\ IsZero(y) THEN Zero(x.k = "nzero" /\ y.k = "nzero")
       ELSE Fin(0)

NumMul(x, y) ==
  IF IsNaN(x) \/ IsNaN(y) THEN NaN
  ELSE IF (IsInf(x) /\ IsZero(y)) \/ (IsZero(x) /\ IsInf(y)) THEN NaN
  ELSE IF IsInf(x) \/ IsInf(y) THEN Inf(Xor(IsNeg(x), IsNeg(y)))
  ELSE LET p == Val(x) * Val(y) IN IF p # 0 THEN Fin(p) ELSE Zero(Xor(IsNeg(x), IsNeg(y)))

NumDiv(x, y) ==
  IF IsNaN(x) \/ IsNaN(y) THEN NaN
  ELSE IF IsInf(x) /\ IsInf(y) THEN NaN
  ELSE IF IsInf(x) THEN Inf(Xor(IsNeg(x), IsNeg(y)))
  ELSE IF IsInf(y) THEN Zero(Xor(IsNeg(x), IsNeg(y)))
  ELSE IF IsZero(y) THEN (IF IsZero(x) THEN NaN ELSE Inf(Xor(IsNeg(x), IsNeg(y))))
  ELSE IF IsZero(x) THEN Zero(Xor(IsNeg(x), IsNeg(y)))
  ELSE IF Abs(Val(x)) % Abs(Val(y)) = 0
       THEN LET q == Abs(Val(x)) \div Abs(Val(y)) IN Fin(IF Xor(IsNeg(x), IsNeg(y)) THEN -q ELSE q)
       ELSE Unk

\* Rust's % on f64 is the truncated remainder (fmod): the sign follows the dividend
NumMod(x, y) ==
  IF IsNaN(x) \/ IsNaN(y) THEN NaN
  ELSE IF IsInf(x) \/ IsZero(y) THEN NaN
  ELSE IF IsInf(y) \/ IsZero(x) THEN x
  ELSE LET r == Abs(Val(x)) % Abs(Val(y)) IN
       IF r = 0 THEN Zero(IsNeg(x)) ELSE Fin(IF IsNeg(x) THEN -r ELSE r)

RECURSIVE IntPow(_, _)
IntPow(b, e) == IF e = 0 THEN 1 ELSE b * IntPow(b, e - 1)

NumPow(x, y) ==
  IF IsZero(y) THEN Fin(1)                      \* pow(x, +-0) = 1 for every x, NaN included
  ELSE IF x = Fin(1) THEN Fin(1)                \* pow(1, y) = 1 for every y, NaN included
  ELSE IF IsNaN(x) \/ IsNaN(y) THEN NaN
  ELSE IF x.k # "fin" \/ y.k # "fin" THEN Unk
  ELSE IF y.n > 0 THEN (IF Abs(x.n) <= 8 /\ y.n <= 8 THEN Fin(IntPow(x.n, y.n)) ELSE Unk)
  ELSE IF x.n = -1 THEN Fin(IF (-y.n) % 2 = 0 THEN 1 ELSE -1)
  ELSE IF x.n = 0 THEN PInf
  ELSE Unk

NumOp(op, x, y) == CASE op = "add" -> NumAdd(x, y)
                     [] op = "sub" -> NumAdd(x, Neg(y))
                     [] op = "mul" -> NumMul(x, y)
                     [] op = "div" -> NumDiv(x, y)
                     [] op = "mod" -> NumMod(x, y)
                     [] op = "pow" -> NumPow(x, y)

\* The element operation of broadcasting, defined on all values. On scalars it is the scalar
\* operator; on a list element arithmetic is a type error, == / != are deep equality and the
\* ordering comparisons are the dot comparisons (DESIGN.md Appendix G).
ElemOp(op, x, y) ==
  CASE op \in ArithOps ->
         IF IsNum(x) /\ IsNum(y) THEN NumOp(op, x, y)
         ELSE IF op = "add" /\ IsStr(x) /\ IsStr(y) THEN Str(x.cs \o y.cs)
         ELSE Err
    [] op = "eq" -> Bool(Equals(x, y))
    [] op = "ne" -> Bool(~Equals(x, y))
    [] op \in {"lt", "le", "gt", "ge"} ->
         LET c == Compare(x, y) IN
         IF c = "none" THEN Err
         ELSE Bool(CASE op = "lt" -> c = "lt" [] op = "le" -> c \in {"lt", "eq"}
                     [] op = "gt" -> c = "gt" [] op = "ge" -> c \in {"gt", "eq"})
    [] op \in AndOps -> IF ~IsBool(x) THEN Err ELSE IF ~x.b THEN Bool(FALSE)
                        ELSE IF ~IsBool(y) THEN Err ELSE Bool(y.b)
    [] op \in OrOps  -> IF ~IsBool(x) THEN Err ELSE IF x.b THEN Bool(TRUE)
                        ELSE IF ~IsBool(y) THEN Err ELSE Bool(y.b)
    [] op = "coalesce" -> IF IsNull(x) THEN y ELSE x

ScalarOp(op, x, y) == ElemOp(op, x, y)     \* for non-list x, y

\* first error wins, otherwise the list of results
RECURSIVE Collect(_)
Collect(rs) == IF \E i \in 1..Len(rs) : IsErr(rs[i]) THEN Err ELSE List(rs)

\* THE BROADCASTING LAW, written once.
BinOp(op, a, b) ==
  IF IsList(a) /\ IsList(b) THEN
       IF Len(a.xs) # Len(b.xs) THEN Err
       ELSE Collect([i \in 1..Len(a.xs) |-> ElemOp(op, a.xs[i], b.xs[i])])
  ELSE IF IsList(a) THEN Collect([i \in 1..Len(a.xs) |-> ElemOp(op, a.xs[i], b)])
  ELSE IF IsList(b) THEN Collect([i \in 1..Len(b.xs) |-> ElemOp(op, a, b.xs[i])])
  ELSE ScalarOp(op, a, b)

\* source spelling of each operator (for documentation; the harness has the same table)
OpSym == [add |-> "+", sub |-> "-", mul |-> "*", div |-> "/", mod |-> "%", pow |-> "^",
          eq |-> "==", ne |-> "!=", lt |-> "<", le |-> "<=", gt |-> ">", ge |-> ">=",
          and |-> "&&", nand |-> "and", or |-> "||", nor |-> "or", coalesce |-> "??"]
=============================================================================
