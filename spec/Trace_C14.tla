------------------------------ MODULE Trace_C14 ------------------------------
(***************************************************************************)
(* Trace validation for C14: every recorded call of a list / string /      *)
(* record operation on random arguments (lists up to length 40, non-ASCII  *)
(* strings, negative and out-of-range indexes) is recomputed with the      *)
(* definitional Apply of BlotsBuiltins; TLC is the oracle.  Strings over a *)
(* wider character pool than the model alphabet are covered by "strlaw"    *)
(* events (agreement of spread, index, slice, head / tail, len, join).     *)
(***************************************************************************)
EXTENDS BlotsBuiltins, TLC, Json, IOUtils

Events == ndJsonDeserialize(IOEnv.TRACE)
VARIABLES l, bad
vars == <<l, bad>>

CallOk(e) ==
  LET x == Apply(e.c) IN
  IF x = Unk THEN
       \* only "a permutation of the input" (sort of incomparable elements) / "some result" is claimed
       IF e.c.f \in {"sort", "sort_by"} THEN IsList(e.res) /\ IsPermutation(e.res.xs, e.c.v.xs)
       ELSE e.res.t \notin {"panic", "parse"}
  ELSE e.res = x

\* "strlaw" events: a string over a wide character pool (characters sharing their low byte or their low 16 bits, combining
\* marks, astral characters), examined in ONE session in which other strings were taken apart before: its spread, its
\* indexed characters, its one-character slices, head / tail and len must all describe the same character sequence, which
\* is the one the harness put in (`chars`)
StrLawOk(e) == /\ e.spread = e.chars /\ e.indexed = e.chars /\ e.sliced = e.chars
               /\ e.len = Len(e.chars) /\ e.joined /\ e.headtail
EventOk(e) == IF e.ev = "strlaw" THEN StrLawOk(e) ELSE CallOk(e)
Init == l = 1 /\ bad = <<>>
Step == /\ l <= Len(Events)
        /\ bad' = IF EventOk(Events[l]) THEN bad ELSE Append(bad, l)
        /\ l' = l + 1
TraceSpec == Init /\ [][Step]_vars
Final == (l = Len(Events) + 1) => PrintT(<<"TRACE_RESULT", ToJson([consumed |-> l - 1, bad |-> bad])>>)
=============================================================================
