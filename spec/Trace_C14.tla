------------------------------ MODULE Trace_C14 ------------------------------
(***************************************************************************)
(* Trace validation for C14: every recorded call of a list / string /      *)
(* record operation on random arguments (lists up to length 40, non-ASCII  *)
(* strings, negative and out-of-range indexes) is recomputed with the      *)
(* definitional Apply of BlotsBuiltins; TLC is the oracle.                 *)
(***************************************************************************)
EXTENDS BlotsBuiltins, TLC, Json, IOUtils

Events == ndJsonDeserialize(IOEnv.TRACE)
VARIABLES l, bad
vars == <<l, bad>>

CallOk(e) ==
  LET x == Apply(e.c) IN
  IF x = Unk THEN
       \* only "a permutation of the input" (sort of incomparable elements) / "some result" is claimed
       IF e.c.f \in {"sort", "sort_by"} THEN IsList(e.res) /\ IsPermutation(e.res.xs, e.c.v.xs)
       ELSE e.res.t \notin {"panic", "parse"}
  ELSE e.res = x

Init == l = 1 /\ bad = <<>>
Step == /\ l <= Len(Events)
        /\ bad' = IF CallOk(Events[l]) THEN bad ELSE Append(bad, l)
        /\ l' = l + 1
TraceSpec == Init /\ [][Step]_vars
Final == (l = Len(Events) + 1) => PrintT(<<"TRACE_RESULT", ToJson([consumed |-> l - 1, bad |-> bad])>>)
=============================================================================
