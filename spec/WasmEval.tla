------------------------------ MODULE WasmEval ------------------------------
(***************************************************************************)
(* The WASM binding's `evaluate(text, inputs)` over the statement          *)
(* vocabulary of Cli.tla (extended conformance X04, not a listed           *)
(* property).  The same statements mean the same as in the CLI, but the    *)
(* driver differs in what it reports:                                      *)
(*   - a parse error or the first failing statement makes the whole call   *)
(*     an error response (no partial result);                              *)
(*   - otherwise: `outputs` = the declared names, first declaration first, *)
(*     each once; `bindings` = every bound name with its value;            *)
(*   - a function output need not be self-contained (no portability check) *)
(* Inputs are given as one record (no sources to merge).                   *)
(***************************************************************************)
EXTENDS Cli

\* one run, functionally: [ok, env, outnames]
RECURSIVE WRun(_, _, _, _)
WRun(scr, e, on, inp) ==
  IF scr = <<>> THEN [ok |-> TRUE, env |-> e, outnames |-> on]
  ELSE LET st == Head(scr)
           InW(key) == IF key \in InputNames /\ inp[key] # Unb THEN inp[key] ELSE NullV
           bound(n) == e[n] # Unb
           declare(n) == IF \E i \in 1..Len(on) : on[i] = n THEN on ELSE Append(on, n)
           bindout(n, v) == IF bound(n) THEN [ok |-> FALSE] ELSE WRun(Tail(scr), [e EXCEPT ![n] = v], declare(n), inp) IN
       CASE st.k = "outin"  -> bindout(st.n, InW(st.x))
         [] st.k = "outref" -> bindout(st.n, InW(st.x))
         [] st.k = "outlit" -> bindout(st.n, IntV(st.x))
         [] st.k = "refs"   -> bindout(st.n, ListV(<<InW("a"), InW("a"), InW("zz"), InW("zz")>>))
         [] st.k \in {"refsdo", "refsfn"} -> bindout(st.n, ListV(<<IntV(9), IntV(9), NullV>>))
         [] st.k = "bind"   -> IF bound(st.n) THEN [ok |-> FALSE] ELSE WRun(Tail(scr), [e EXCEPT ![st.n] = IntV(st.x)], on, inp)
         [] st.k = "out"    -> IF bound(st.n) THEN WRun(Tail(scr), e, declare(st.n), inp) ELSE [ok |-> FALSE]
         [] st.k = "evalerr" -> [ok |-> FALSE]
         [] st.k = "nonportable" -> bindout(st.n, FnV)          \* accepted here: the check is the CLI's
         [] st.k = "plain"  -> WRun(Tail(scr), e, on, inp)
\* ------------------------------------------------------------------ evaluate_inline_expressions(texts, inputs)
(* Every text is evaluated on its own: a fresh scope in which each given input is bound under its own name as well as inside   *)
(* `inputs`; only the first statement of a text counts; the answer is that statement's value, or an error.  Nothing one text   *)
(* binds is visible to the next.  Statement kinds beyond Cli.tla's pool:                                                       *)
(*   direct(key): the text `key`        shadowin(key): `key = 5` (refused when an input of that name was given)                *)
(*   two(n):      `n = 6` newline `output n` (the second line is never looked at)     blank: only a comment                      *)
InlinePool == StmtPool \cup {S("direct", "", "a"), S("direct", "", "b"), S("direct", "", "zz"), S("shadowin", "", "a"), S("shadowin", "", "zz"),
                            S("two", "x", 0), S("blank", "", 0)}
InlineOne(st, inp) ==
  LET InW(key) == IF key \in InputNames /\ inp[key] # Unb THEN inp[key] ELSE NullV
      given(key) == key \in InputNames /\ inp[key] # Unb
      Ans(v) == [ok |-> TRUE, v |-> v]
      NoAns == [ok |-> FALSE] IN
  CASE st.k \in {"outin", "outref"} -> Ans(InW(st.x))
    [] st.k = "outlit"  -> Ans(IntV(st.x))
    [] st.k = "refs"    -> Ans(ListV(<<InW("a"), InW("a"), InW("zz"), InW("zz")>>))
    [] st.k \in {"refsdo", "refsfn"} -> Ans(ListV(<<IntV(9), IntV(9), NullV>>))
    [] st.k = "bind"    -> Ans(IntV(st.x))
    [] st.k = "out"     -> NoAns                      \* nothing is bound in a fresh scope
    [] st.k \in {"evalerr", "parseerr", "blank"} -> NoAns
    [] st.k = "nonportable" -> Ans(FnV)
    [] st.k = "plain"   -> Ans(IntV(2))
    [] st.k = "direct"  -> IF given(st.x) THEN Ans(inp[st.x]) ELSE NoAns
    [] st.k = "shadowin" -> IF given(st.x) THEN NoAns ELSE Ans(IntV(5))
    [] st.k = "two"     -> Ans(IntV(6))
InlineResult(sts, inp) == [i \in 1..Len(sts) |-> InlineOne(sts[i], inp)]

WasmResult(scr, inp) ==
  IF \E i \in 1..Len(scr) : scr[i].k = "parseerr" THEN [ok |-> FALSE]
  ELSE WRun(scr, [n \in OutNames |-> Unb], <<>>, inp)
=============================================================================
