------------------------------ MODULE WasmEval ------------------------------
(***************************************************************************)
(* The WASM binding's `evaluate(text, inputs)` over the statement          *)
(* vocabulary of Cli.tla (extended conformance X04, not a listed           *)
(* property).  The same statements mean the same as in the CLI, but the    *)
(* driver differs in what it reports:                                      *)
(*   - a parse error or the first failing statement makes the whole call   *)
(*     an error response (no partial result);                              *)
(*   - otherwise: `outputs` = the declared names, first declaration first, *)
(*     each once; `bindings` = every bound name with its value;            *)
(*   - a function output need not be self-contained (no portability check) *)
(* Inputs are given as one record (no sources to merge).                   *)
(***************************************************************************)
EXTENDS Cli

\* one run, functionally: [ok, env, outnames]
RECURSIVE WRun(_, _, _, _)
WRun(scr, e, on, inp) ==
  IF scr = <<>> THEN [ok |-> TRUE, env |-> e, outnames |-> on]
  ELSE LET st == Head(scr)
           InW(key) == IF key \in InputNames /\ inp[key] # Unb THEN inp[key] ELSE NullV
           bound(n) == e[n] # Unb
           declare(n) == IF \E i \in 1..Len(on) : on[i] = n THEN on ELSE Append(on, n)
           bindout(n, v) == IF bound(n) THEN [ok |-> FALSE] ELSE WRun(Tail(scr), [e EXCEPT ![n] = v], declare(n), inp) IN
       CASE st.k = "outin"  -> bindout(st.n, InW(st.x))
         [] st.k = "outref" -> bindout(st.n, InW(st.x))
         [] st.k = "outlit" -> bindout(st.n, IntV(st.x))
         [] st.k = "refs"   -> bindout(st.n, ListV(<<InW("a"), InW("a"), InW("zz"), InW("zz")>>))
         [] st.k \in {"refsdo", "refsfn"} -> bindout(st.n, ListV(<<IntV(9), IntV(9), NullV>>))
         [] st.k = "bind"   -> IF bound(st.n) THEN [ok |-> FALSE] ELSE WRun(Tail(scr), [e EXCEPT ![st.n] = IntV(st.x)], on, inp)
         [] st.k = "out"    -> IF bound(st.n) THEN WRun(Tail(scr), e, declare(st.n), inp) ELSE [ok |-> FALSE]
         [] st.k = "evalerr" -> [ok |-> FALSE]
         [] st.k = "nonportable" -> bindout(st.n, FnV)          \* accepted here: the check is the CLI's
         [] st.k = "plain"  -> WRun(Tail(scr), e, on, inp)
WasmResult(scr, inp) ==
  IF \E i \in 1..Len(scr) : scr[i].k = "parseerr" THEN [ok |-> FALSE]
  ELSE WRun(scr, [n \in OutNames |-> Unb], <<>>, inp)
=============================================================================
