------------------------------- MODULE MC_C18 -------------------------------
EXTENDS CallDepth, Json
EmitEnd == status # "running" => PrintT(<<"CASE", ToJson([shape |-> shape, status |-> status, level |-> level, depth |-> depth, stack |-> stack])>>)
=============================================================================
