----------------------------- MODULE BlotsOrder -----------------------------
(***************************************************************************)
(* Structural equality and the partial order of Blots values               *)
(* (values.rs: Value::equals, Value::compare), the six dot operators and   *)
(* the four unchecked comparison built-ins, plus the coherence laws of     *)
(* property C12 as checkable predicates.                                   *)
(***************************************************************************)
EXTENDS BlotsValues

RECURSIVE Equals(_, _)
Equals(a, b) ==
  IF a.t # b.t THEN FALSE
  ELSE CASE a.t = "num"  -> ~IsNaN(a) /\ ~IsNaN(b) /\ NumKey(a) = NumKey(b)
         [] a.t = "bool" -> a.b = b.b
         [] a.t = "null" -> TRUE
         [] a.t = "str"  -> a.cs = b.cs
         [] a.t = "list" -> /\ Len(a.xs) = Len(b.xs)
                            /\ \A i \in 1..Len(a.xs) : Equals(a.xs[i], b.xs[i])
         [] a.t = "rec"  -> /\ Len(a.ks) = Len(b.ks)
                            /\ \A i \in 1..Len(a.ks) :
                                  /\ HasKey(b, a.ks[i])
                                  /\ Equals(a.vs[i], Field(b, a.ks[i]))
         [] a.t = "bi"   -> a.name = b.name
         [] OTHER        -> FALSE

\* lexicographic comparison of two sequences of naturals
RECURSIVE CmpSeq(_, _)
CmpSeq(s, u) == IF s = <<>> THEN (IF u = <<>> THEN "eq" ELSE "lt")
                ELSE IF u = <<>> THEN "gt"
                ELSE IF Head(s) < Head(u) THEN "lt"
                ELSE IF Head(s) > Head(u) THEN "gt"
                ELSE CmpSeq(Tail(s), Tail(u))

CmpInt(x, y) == IF x < y THEN "lt" ELSE IF x > y THEN "gt" ELSE "eq"

\* "lt" | "eq" | "gt" | "none" (unordered)
RECURSIVE Compare(_, _)
RECURSIVE CmpLists(_, _)
CmpLists(xs, ys) ==
  IF xs = <<>> \/ ys = <<>> THEN CmpInt(Len(xs), Len(ys))
  ELSE LET c == Compare(Head(xs), Head(ys)) IN
       IF c = "eq" THEN CmpLists(Tail(xs), Tail(ys)) ELSE c
Compare(a, b) ==
  IF a.t # b.t THEN "none"
  ELSE CASE a.t = "num"  -> IF IsNaN(a) \/ IsNaN(b) THEN "none" ELSE CmpInt(NumKey(a), NumKey(b))
         [] a.t = "bool" -> CmpInt(IF a.b THEN 1 ELSE 0, IF b.b THEN 1 ELSE 0)
         [] a.t = "str"  -> CmpSeq(a.cs, b.cs)
         [] a.t = "list" -> CmpLists(a.xs, b.xs)
         [] OTHER        -> "none"

Comparable(a, b) == Compare(a, b) # "none"

\* Outcome of an operator: "true" / "false", or "err" (strings, so that outcomes are comparable)
DotOps == {"deq", "dne", "dlt", "dle", "dgt", "dge"}
UOps   == {"ugt", "ult", "ugte", "ulte"}
B(x) == IF x THEN "true" ELSE "false"

DotOp(op, a, b) ==
  LET c == Compare(a, b) IN
  CASE op = "deq" -> B(Equals(a, b))
    [] op = "dne" -> B(~Equals(a, b))
    [] op = "dlt" -> IF c = "none" THEN "err" ELSE B(c = "lt")
    [] op = "dle" -> IF c = "none" THEN "err" ELSE B(c \in {"lt", "eq"})
    [] op = "dgt" -> IF c = "none" THEN "err" ELSE B(c = "gt")
    [] op = "dge" -> IF c = "none" THEN "err" ELSE B(c \in {"gt", "eq"})

UOp(op, a, b) ==
  LET c == Compare(a, b) IN
  CASE op = "ugt"  -> B(c = "gt")
    [] op = "ult"  -> B(c = "lt")
    [] op = "ugte" -> B(c \in {"gt", "eq"})
    [] op = "ulte" -> B(c \in {"lt", "eq"})

-----------------------------------------------------------------------------
(* The coherence laws of C12, stated on the specification's own operators.  *)
(* TLC checks them over a value universe; conformance of the implementation *)
(* to DotOp/UOp on the same universe then transfers them to the code.       *)

Flip(c) == CASE c = "lt" -> "gt" [] c = "gt" -> "lt" [] OTHER -> c

LawReflexive(a)      == Equals(a, a)
LawSymmetric(a, b)   == Equals(a, b) = Equals(b, a)
LawTransitiveEq(a, b, c) == (Equals(a, b) /\ Equals(b, c)) => Equals(a, c)
LawNeIsNegation(a, b) == (DotOp("dne", a, b) = "true") = (DotOp("deq", a, b) = "false")
LawAntisym(a, b)     == Compare(b, a) = Flip(Compare(a, b))
\* exactly one of .<, .==, .> on comparable values; .== agrees with the order's "eq"
LawTrichotomy(a, b)  == Comparable(a, b) =>
                          /\ (Compare(a, b) = "eq") = Equals(a, b)
                          /\ Cardinality({o \in {"dlt", "deq", "dgt"} : DotOp(o, a, b) = "true"}) = 1
LawUnions(a, b)      == Comparable(a, b) =>
                          /\ DotOp("dle", a, b) = B(DotOp("dlt", a, b) = "true" \/ DotOp("deq", a, b) = "true")
                          /\ DotOp("dge", a, b) = B(DotOp("dgt", a, b) = "true" \/ DotOp("deq", a, b) = "true")
LawTransitiveLt(a, b, c) ==
   (Comparable(a, b) /\ Comparable(b, c) /\ Comparable(a, c)) =>
      /\ (Compare(a, b) \in {"lt", "eq"} /\ Compare(b, c) \in {"lt", "eq"}) => Compare(a, c) \in {"lt", "eq"}
      /\ (Compare(a, b) = "lt" /\ Compare(b, c) \in {"lt", "eq"}) => Compare(a, c) = "lt"
      /\ (Compare(a, b) \in {"lt", "eq"} /\ Compare(b, c) = "lt") => Compare(a, c) = "lt"
LawDifferentTypes(a, b) == a.t # b.t => (~Equals(a, b) /\ ~Comparable(a, b))
LawUnordered(a, b)   == a.t \in {"null", "rec", "bi"} => ~Comparable(a, b)
LawUAgree(a, b)      == \A p \in {<<"ugt", "dgt">>, <<"ult", "dlt">>, <<"ugte", "dge">>, <<"ulte", "dle">>} :
                           UOp(p[1], a, b) = (IF DotOp(p[2], a, b) = "err" THEN "false" ELSE DotOp(p[2], a, b))
\* a proper prefix comes first (lists and strings)
IsProperPrefix(s, u) == Len(s) < Len(u) /\ \A i \in 1..Len(s) : s[i] = u[i]
LawPrefixFirst(a, b) ==
   /\ (IsStr(a) /\ IsStr(b) /\ IsProperPrefix(a.cs, b.cs)) => Compare(a, b) = "lt"
   /\ (IsList(a) /\ IsList(b) /\ Len(a.xs) < Len(b.xs)
         /\ \A i \in 1..Len(a.xs) : Compare(a.xs[i], b.xs[i]) = "eq") => Compare(a, b) = "lt"
\* record equality ignores key order
Permuted(r, p) == Rec([i \in 1..Len(r.ks) |-> r.ks[p[i]]], [i \in 1..Len(r.ks) |-> r.vs[p[i]]])
=============================================================================
