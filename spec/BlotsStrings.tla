---------------------------- MODULE BlotsStrings ----------------------------
(***************************************************************************)
(* String built-ins outside the listed properties (extended conformance    *)
(* X05): trim, uppercase, lowercase, replace.  Strings are character-index *)
(* sequences over the harness ALPHABET; the case maps are stated for the   *)
(* characters whose images are in the alphabet again (a <-> A, z <-> Z;    *)
(* digits, blanks, quotes, backslash, underscore are their own images).    *)
(***************************************************************************)
EXTENDS BlotsValues

Err == [t |-> "err"]
Blank(c) == c \in {1, 2}                                  \* tab, space
CasePool == {1, 2, 3, 4, 5, 6, 7, 8, 9, 10, 11, 12, 15}   \* no b, c (their capitals are not in the alphabet)
UpperC(c) == CASE c = 12 -> 8 [] c = 15 -> 9 [] OTHER -> c
LowerC(c) == CASE c = 8 -> 12 [] c = 9 -> 15 [] OTHER -> c

RECURSIVE DropLead(_)
DropLead(cs) == IF cs # <<>> /\ Blank(Head(cs)) THEN DropLead(Tail(cs)) ELSE cs
RECURSIVE DropTrail(_)
DropTrail(cs) == IF cs # <<>> /\ Blank(cs[Len(cs)]) THEN DropTrail(SubSeq(cs, 1, Len(cs) - 1)) ELSE cs
Trim(cs) == DropTrail(DropLead(cs))

IsPrefix(p, s) == Len(p) <= Len(s) /\ SubSeq(s, 1, Len(p)) = p
\* every non-overlapping occurrence, leftmost first; an empty pattern matches before every character and at the end
RECURSIVE Replace(_, _, _)
Replace(s, old, new) ==
  IF old = <<>> THEN (IF s = <<>> THEN new ELSE new \o <<Head(s)>> \o Replace(Tail(s), old, new))
  ELSE IF s = <<>> THEN <<>>
  ELSE IF IsPrefix(old, s) THEN new \o Replace(SubSeq(s, Len(old) + 1, Len(s)), old, new)
  ELSE <<Head(s)>> \o Replace(Tail(s), old, new)

SCall(f, v, w, u) == [f |-> f, v |-> v, w |-> w, u |-> u]
SApply(c) ==
  CASE c.f = "trim"      -> IF IsStr(c.v) THEN Str(Trim(c.v.cs)) ELSE Err
    [] c.f = "uppercase" -> IF IsStr(c.v) THEN Str([i \in 1..Len(c.v.cs) |-> UpperC(c.v.cs[i])]) ELSE Err
    [] c.f = "lowercase" -> IF IsStr(c.v) THEN Str([i \in 1..Len(c.v.cs) |-> LowerC(c.v.cs[i])]) ELSE Err
    [] c.f = "replace"   -> IF IsStr(c.v) /\ IsStr(c.w) /\ IsStr(c.u) THEN Str(Replace(c.v.cs, c.w.cs, c.u.cs)) ELSE Err
=============================================================================
