----------------------------- MODULE TokensInd -----------------------------
(***************************************************************************)
(* The token machine of Tokens.tla typed for Apalache, with an inductive   *)
(* invariant: for every text length and every sequence of Start / End      *)
(* events the machine accepts, the open rules stay nested in opening order *)
(* and never lie beyond the current position (StackSorted), and every rule *)
(* that is closed was closed at or after the place it was opened.          *)
(* Stack depth bounded by MaxOpen (sequences need a bound in Apalache).    *)
(*   apalache-mc check --cinit=ConstInit --init=Init    --inv=IndInv --length=0 TokensInd.tla                               *)
(*   apalache-mc check --cinit=ConstInit --init=IndInit --inv=IndInv --length=1 TokensInd.tla                               *)
(***************************************************************************)
EXTENDS Integers, Sequences, Apalache

CONSTANTS
    \* @type: Int;
    TextLen

VARIABLES
    \* @type: Seq({rule: Str, at: Int});
    stack,
    \* @type: Int;
    pos,
    \* @type: Int;
    lastspan      \* length of the most recently closed rule (-1: none yet)

MaxOpen == 4
Rules == {"r1", "r2"}
ConstInit == TextLen \in 0..1000

Init == stack = <<>> /\ pos = 0 /\ lastspan = -1

Start(r, p) == /\ Len(stack) < MaxOpen /\ p >= pos /\ p <= TextLen
               /\ stack' = Append(stack, [rule |-> r, at |-> p])
               /\ pos' = p /\ UNCHANGED lastspan
End(r, p)   == /\ Len(stack) >= 1 /\ stack[Len(stack)].rule = r
               /\ p >= pos /\ p <= TextLen /\ p >= stack[Len(stack)].at
               /\ lastspan' = p - stack[Len(stack)].at
               /\ stack' = SubSeq(stack, 1, Len(stack) - 1)
               /\ pos' = p
Stutter == UNCHANGED <<stack, pos, lastspan>>
Next == \/ \E r \in Rules, p \in 0..1000 : Start(r, p) \/ End(r, p)
        \/ Stutter

StackSorted == /\ \A i, j \in DOMAIN stack : i < j => stack[i].at <= stack[j].at
               /\ \A i \in DOMAIN stack : stack[i].at <= pos /\ stack[i].at >= 0
IndInv == /\ Len(stack) <= MaxOpen
          /\ pos >= 0 /\ pos <= TextLen
          /\ StackSorted
          /\ lastspan >= -1
IndInit == /\ stack = Gen(4) /\ pos \in Int /\ lastspan \in Int
           /\ \A i \in DOMAIN stack : stack[i].rule \in Rules
           /\ IndInv
=============================================================================
