------------------------------ MODULE Trace_C15 ------------------------------
(***************************************************************************)
(* Trace validation for C15 on random number lists of length 1..50:        *)
(*  pct  - percentile over an increasing grid of p: membership,            *)
(*         monotonicity, end points (PercentileOk);                        *)
(*  agg  - min / max / median recomputed on ranks (the even-length median  *)
(*         is the double mean of the two middle ranks, supplied per pair   *)
(*         by the harness and selected here);                              *)
(*  conv - the three calling conventions give the identical result.       *)
(***************************************************************************)
EXTENDS BlotsBuiltins, TLC, Json, IOUtils

Events == ndJsonDeserialize(IOEnv.TRACE)
VARIABLES l, bad
vars == <<l, bad>>

\* p arrives in hundredths (psx); the law only distinguishes the two end points from everything in between
PAbs(x) == IF x = 0 THEN 0 ELSE IF x = 10000 THEN 100 ELSE 50
PctOk(e) == (\A i \in 1..Len(e.rs) : IsNum(e.rs[i]) /\ e.rs[i].k = "fin") /\ PercentileOk(e.xs, [i \in 1..Len(e.psx) |-> PAbs(e.psx[i])], e.rs)
AggOk(e) == LET x == Agg(e.f, e.xs) IN
            IF x.t = "mid" THEN \E i \in 1..Len(e.mids) :
                                   e.mids[i][1] = x.lo.n /\ e.mids[i][2] = x.hi.n /\ e.mids[i][3] = e.bits
            ELSE e.res = x
\* min, max and the median of an odd number of values are one of the values; the sum of a list containing an infinity of
\* one sign only (and no NaN) is that infinity whatever the order (bit patterns compared as text; `expected` computed exactly
\* by the harness from the elements)
ConvOk(e) == /\ e.list = e.separate /\ e.list = e.spread
             /\ (e.member # "n/a" => e.member = "yes")
             /\ (e.expected # "n/a" => e.expected = e.list)
EventOk(e) == CASE e.ev = "pct" -> PctOk(e) [] e.ev = "agg" -> AggOk(e) [] e.ev = "conv" -> ConvOk(e) [] OTHER -> FALSE

Init == l = 1 /\ bad = <<>>
Step == /\ l <= Len(Events)
        /\ bad' = IF EventOk(Events[l]) THEN bad ELSE Append(bad, l)
        /\ l' = l + 1
TraceSpec == Init /\ [][Step]_vars
Final == (l = Len(Events) + 1) => PrintT(<<"TRACE_RESULT", ToJson([consumed |-> l - 1, bad |-> bad])>>)
=============================================================================
