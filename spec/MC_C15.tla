------------------------------- MODULE MC_C15 -------------------------------
(***************************************************************************)
(* C15: one TLC state per (aggregate, number list); every list over the    *)
(* rank pool up to the length bound, hence every permutation of every      *)
(* multiset.  Invariants: the defining properties of min / max / median    *)
(* and permutation invariance of all six aggregates on the definitions.    *)
(* The harness evaluates each state in the three calling conventions.      *)
(***************************************************************************)
EXTENDS BlotsBuiltins, TLC, Json

CONSTANT MaxN, WithInf

Pool == {Fin(-2), Fin(-1), Fin(1), Fin(2), Fin(3)} \cup (IF WithInf THEN {PInf, NInf} ELSE {})
Seqs == UNION {[1..k -> Pool] : k \in 1..MaxN}

VARIABLES f, xs
vars == <<f, xs>>
Init == f \in OrderAggs \cup ArithAggs /\ xs \in Seqs
Next == UNCHANGED vars
Spec == Init /\ [][Next]_vars

res == Agg(f, xs)
n == Len(xs)
Swap12(s) == IF Len(s) < 2 THEN s ELSE <<s[2], s[1]>> \o SubSeq(s, 3, Len(s))
Rot(s) == IF Len(s) < 2 THEN s ELSE Tail(s) \o <<Head(s)>>

LawMinMax == /\ f = "min" => (\A i \in 1..n : NumLe(res, xs[i])) /\ (\E i \in 1..n : res = xs[i])
             /\ f = "max" => (\A i \in 1..n : NumLe(xs[i], res)) /\ (\E i \in 1..n : res = xs[i])
\* the median splits the list: at least half of the elements on either side
LawMedian == f = "median" =>
               LET lo == IF res.t = "mid" THEN res.lo ELSE res
                   hi == IF res.t = "mid" THEN res.hi ELSE res IN
               /\ 2 * Cardinality({i \in 1..n : NumLe(xs[i], lo)}) >= n
               /\ 2 * Cardinality({i \in 1..n : NumLe(hi, xs[i])}) >= n
               /\ (\E i \in 1..n : xs[i] = lo) /\ (\E i \in 1..n : xs[i] = hi)
               /\ (n % 2 = 1) => res.t = "num"
LawPermutation == Agg(f, Swap12(xs)) = res /\ Agg(f, Rot(xs)) = res
LawSumAvg == /\ (f = "avg" /\ res.t = "ratio") => (SumOf(xs) = Fin(res.num) /\ res.den = n)
             /\ (f = "sum" /\ \A i \in 1..n : xs[i].k = "fin") =>
                   res = Fin(LET RECURSIVE S(_) S(k) == IF k = 0 THEN 0 ELSE xs[k].n + S(k - 1) IN S(n))
Laws == LawMinMax /\ LawMedian /\ LawPermutation /\ LawSumAvg

Emit == PrintT(<<"CASE", ToJson([f |-> f, xs |-> xs, exp |-> res])>>)
=============================================================================
