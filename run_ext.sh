#!/bin/bash
# Extended conformance (not registered in MANIFEST.json): X01 .. X06.  Prints DIVERGENCE lines, never VIOLATION lines.
cd "$(dirname "$0")"
for x in X01 X02 X03 X04 X05 X06; do
  s=$(date +%s); out=$(./check $x --tier "${1:-quick}" 2>&1); rc=$?
  echo "$x rc=$rc $(( $(date +%s) - s ))s $(echo "$out" | tail -1)"
done
