"""X04 - extended conformance, NOT one of the listed properties and not registered in MANIFEST.json:
the WASM binding's evaluate (error / result, outputs in declaration order, bindings) against spec/WasmEval.tla over every script of up to three statements of Cli.tla's pool.  Prints DIVERGENCE lines (never VIOLATION lines) and writes build/extended/X04.json."""
import json, os
import vlib

CFG = "SPECIFICATION XSpec\nCONSTANTS MaxSources = 0\n MaxStmts = 3\nINVARIANT DeclaredOnce\nINVARIANT DeclaredAreBound\nINVARIANT XEmit\nCHECK_DEADLOCK FALSE\n"


def check(tier, seed, t0):
    vlib.build_harness()
    r = vlib.run_tlc("x04_mc", "MC_X04", CFG, workers=4, timeout=1500)
    if not r.ok:
        raise vlib.ToolError("MC_X04: a law fails on the specification itself:\n" + r.violation)
    cases = r.lines.get("CASE", [])
    if len(cases) != r.distinct or not cases:
        raise vlib.ToolError("MC_X04 emitted %d cases for %d states" % (len(cases), r.distinct))
    cpath = os.path.join(vlib.BUILD, "x04_cases.ndjson")
    opath = os.path.join(vlib.BUILD, "x04_out.ndjson")
    vlib.write_ndjson(cpath, cases)
    vlib.harness(["replay", "x04", cpath, opath])
    outs = vlib.read_ndjson(opath)
    div = []
    for c, o in zip(cases, outs):
        for m in o["mismatches"]:
            div.append(m)
    # second part: evaluate_inline_expressions
    ri = vlib.run_tlc("x04i_mc", "MC_X04I", CFG.replace("INVARIANT DeclaredOnce\nINVARIANT DeclaredAreBound\n", "INVARIANT Independent\n"), workers=4, timeout=1500)
    if not ri.ok:
        raise vlib.ToolError("MC_X04I: a law fails on the specification itself:\n" + ri.violation)
    icases = ri.lines.get("CASE", [])
    if len(icases) != ri.distinct or not icases:
        raise vlib.ToolError("MC_X04I emitted %d cases for %d states" % (len(icases), ri.distinct))
    icpath = os.path.join(vlib.BUILD, "x04i_cases.ndjson")
    iopath = os.path.join(vlib.BUILD, "x04i_out.ndjson")
    vlib.write_ndjson(icpath, icases)
    vlib.harness(["replay", "x04i", icpath, iopath])
    for c, o in zip(icases, vlib.read_ndjson(iopath)):
        for m in o["mismatches"]:
            div.append(m)
    os.makedirs(os.path.join(vlib.BUILD, "extended"), exist_ok=True)
    per_f = {}
    for c in cases:
        per_f["ok" if c["ok"] else "error"] = per_f.get("ok" if c["ok"] else "error", 0) + 1
    json.dump({"id": "X04", "states": r.distinct, "inline_calls": len(icases), "cases_per_function": per_f, "divergences": div[:50], "n_divergences": len(div)},
              open(os.path.join(vlib.BUILD, "extended", "X04.json"), "w"), indent=1)
    for m in div[:12]:
        print("DIVERGENCE extended=X04 %s inputs %s: %s" % (json.dumps(m["src"]), json.dumps(m["inputs"]), "; ".join(m["obs"])))
    print("X04: %d evaluate calls, %d evaluate_inline_expressions calls, %d divergences" % (len(cases), len(icases), len(div)))
    return 1 if div else 0


def replay(path):
    return 0
