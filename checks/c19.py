"""C19 - the CLI contract: exit status, outputs object, input merging, #name."""
import json, os
import vlib

PROP = "C19"
ACTIONS = ("MergeSource", "MergeDone", "Parse", "ExecStmt", "Finish")


def cfg(ms, mst):
    return ("SPECIFICATION Spec\nCONSTANTS MaxSources = %d\n MaxStmts = %d\nINVARIANT TypeOK\nINVARIANT ExitOnlyWhenDone\nINVARIANT ExitZeroIff\n"
            "INVARIANT OutputsFunctional\nINVARIANT MergeLaw\nINVARIANT UnnamedLaw\nINVARIANT EmitDone\nCHECK_DEADLOCK FALSE\n" % (ms, mst))


def check(tier, seed, t0):
    thorough = tier == "thorough"
    vlib.build_harness()
    vlib.build_cli()
    v = vlib.Verdict(PROP)
    r = vlib.run_tlc("c19_mc", "MC_C19", cfg(2, 2) if thorough else cfg(1, 2), workers=8, timeout=3000, coverage=True, xmx="16g")
    if not r.ok:
        raise vlib.ToolError("MC_C19: an invariant of the CLI state machine fails:\n" + r.violation)
    for a in ACTIONS:
        if r.coverage.get(a, 0) == 0:
            raise vlib.ToolError("MC_C19: action %s never taken (vacuous run)" % a)
    cases = r.lines.get("CASE", [])
    if not cases:
        raise vlib.ToolError("MC_C19 emitted no behaviours")
    # a seeded sample of the behaviours is replayed as real processes (all of them would take minutes)
    step = 12 if thorough else 5
    sample = [c for i, c in enumerate(cases) if (i + seed) % step == 0]
    cpath = os.path.join(vlib.BUILD, "c19_cases.ndjson")
    opath = os.path.join(vlib.BUILD, "c19_out.ndjson")
    vlib.write_ndjson(cpath, sample)
    vlib.harness(["replay", "c19", cpath, opath, "--cli", vlib.CLI], timeout=6000)
    outs = vlib.read_ndjson(opath)
    for c, o in zip(sample, outs):
        for m in o["mismatches"]:
            v.mismatch("C19 %s" % m["src"], {"case": c, "mismatch": m})
    modes = {}
    for c in sample:
        modes[c["mode"]] = modes.get(c["mode"], 0) + 1
    ev = {
        "property_id": PROP, "tier": tier, "seed": seed, "level": "model_checking",
        "coverage": {
            "states": r.distinct, "transitions": r.generated, "traces_validated_against_impl": len(sample),
            "behaviours_of_the_model": len(cases), "action_counts": {a: r.coverage[a] for a in ACTIONS},
            "evaluations": len(sample),
            "distinct_nontrivial": sum(1 for c in sample if len(c["script"]) >= 1 and (c["flags"] or c["stdin"])),
            "invocations_per_mode": modes, "exit_zero": sum(1 for c in sample if c["exit"] == 0), "exit_nonzero": sum(1 for c in sample if c["exit"] != 0),
            "rule": "every behaviour of the CLI state machine (Cli.tla: MergeSource / MergeDone / Parse / ExecStmt / Finish) over 4 invocation "
                    "modes x optional piped stdin x 0..%d --input flags (objects with overlapping keys, non-object values, invalid JSON) x "
                    "scripts of 0..2 statements from a 16-statement pool (both output forms, #name vs inputs.name, rebinding, evaluation "
                    "error, parse error, non-portable function output); a seeded 1-in-%d sample of the behaviours is run as real processes "
                    "(all behaviours are model-checked). Non-trivial = a script with statements and at least one input source." % (2 if thorough else 1, step),
            "exhaustive": False,
            "invariants_on_spec": ["TypeOK", "ExitOnlyWhenDone", "ExitZeroIff", "OutputsFunctional", "MergeLaw", "UnnamedLaw"],
            "samples": [sample[0], sample[len(sample) // 2], sample[-1]],
            "tlc_wall_s": round(r.wall, 1),
        },
        "assumptions": ["key order inside the merged inputs record is not claimed", "in --evaluate mode stdin carries the program",
                        "error reports are recognised by a non-empty stdout / stderr without a JSON object line"],
    }
    return v.finish(ev, t0)


def replay(path):
    print(json.dumps(json.load(open(path)), indent=1))
    return 0
