"""C09 - formatting never loses or reorders comments."""
import json, os
import vlib

PROP = "C09"
KINDS = ["list", "rec", "do", "top"]


def cfg(kind, thorough):
    return ("SPECIFICATION Spec\nCONSTANTS Kind = \"%s\"\n MaxItems = %d\n MaxSlots = %d\nINVARIANT TypeOK\nINVARIANT NoDuplication\n"
            "INVARIANT OrderKept\nINVARIANT Conservation\nINVARIANT LossOnlyWhenEmpty\nINVARIANT EmitDone\nCHECK_DEADLOCK FALSE\n"
            % (kind, 3, 7 if thorough else 6))


def gen_and_replay(thorough):
    """TLC behaviours of the comment machine, replayed; returns (cases, outs, states, transitions, coverage, wall)"""
    cases, states, trans, cov, wall = [], 0, 0, {}, 0.0
    for kind in KINDS:
        r = vlib.run_tlc("c09_mc_" + kind, "MC_C09", cfg(kind, thorough), workers=4, timeout=1500, coverage=True)
        if not r.ok:
            raise vlib.ToolError("MC_C09 (%s): an invariant of the comment state machine fails:\n%s" % (kind, r.violation))
        cs = r.lines.get("CASE", [])
        if not cs:
            raise vlib.ToolError("MC_C09 (%s) emitted no behaviours" % kind)
        for a in ("ReadComment", "ReadItem", "ReadSameLine", "Finish", "Emit"):
            if r.coverage.get(a, 0) == 0:
                raise vlib.ToolError("MC_C09 (%s): action %s never taken (vacuous run)" % (kind, a))
            cov[a] = cov.get(a, 0) + r.coverage[a]
        cases += cs
        states += r.distinct
        trans += r.transitions
        wall += r.wall
    cpath = os.path.join(vlib.BUILD, "c09_cases.ndjson")
    opath = os.path.join(vlib.BUILD, "c09_out.ndjson")
    vlib.write_ndjson(cpath, cases)
    args = ["replay", "c09", cpath, opath, "--cli", vlib.CLI] + (["--thorough"] if thorough else [])
    vlib.harness(args, timeout=6000)
    outs = vlib.read_ndjson(opath)
    return cases, outs, states, trans, cov, wall


def run(prop, tier, seed, t0):
    thorough = tier == "thorough"
    vlib.build_harness()
    vlib.build_cli()
    v = vlib.Verdict(prop)
    cases, outs, states, trans, cov, wall = gen_and_replay(thorough)
    evals = 0
    for c, o in zip(cases, outs):
        evals += o["evals"]
        for m in o["mismatches"]:
            if m["prop"] == "GEN":
                raise vlib.ToolError("generated commented program rejected by the parser: %s" % json.dumps(m)[:500])
            if m["prop"] == prop:
                # structural signature: container kind / wrapper / driver family / emptiness - not the concrete slots
                # an item-less container loses its own comments (texts "// cN"), and only those
                if "i" not in c["src"] and m.get("got") == [w for w in m.get("want", []) if not w.startswith("// c")]:
                    sig = "%s comments in an item-less %s are dropped" % (prop, c["kind"])
                else:
                    sig = "%s %s %s" % (prop, m["tag"], m["driver"].split()[0])
                v.mismatch(sig, {"case": c, "mismatch": m})
    nontrivial = sum(1 for c in cases if sum(1 for s in c["src"] if s != "i") >= 1 and "i" in c["src"])
    ev = {
        "property_id": prop, "tier": tier, "seed": seed, "level": "model_checking",
        "coverage": {
            "states": states, "transitions": trans, "traces_validated_against_impl": len(cases),
            "behaviours": len(cases), "action_counts": cov,
            "evaluations": evals, "distinct_nontrivial": nontrivial,
            "rule": "every terminated behaviour of the comment state machine (Comments.tla: ReadComment / ReadItem / ReadSameLine / Finish / "
                    "Emit) for kind in {list, record, do-block, top level}, sources up to 3 items and %d slots; each behaviour is rendered "
                    "to real programs (plain, assigned, nested in a list / record / lambda / do-block, trailing comma, comment texts with "
                    "brackets and quotes, 0-5 blank lines at top level) and run through the WASM driver, the library formatter and the CLI at "
                    "several widths; the comment sequence of output and input are compared (C09), the AST re-compared (C07) and the second "
                    "pass compared (C08). Non-trivial = at least one comment and one item." % (7 if thorough else 6),
            "exhaustive": True,
            "model_predicts_loss_for": sum(1 for c in cases if c["loses"]),
            "samples": [cases[5], cases[len(cases) // 2], cases[-1]],
            "tlc_wall_s": round(wall, 1),
        },
        "assumptions": ["comments are found by a lexical scan for // outside string literals", "only the comment kinds the property names "
                        "(standalone, end-of-line, in-list, in-record, in-do-block); comments inside call parentheses or after infix operators "
                        "are silent layout for the grammar and not claimed"],
    }
    return v.finish(ev, t0)


def check(tier, seed, t0):
    return run(PROP, tier, seed, t0)


def replay(path):
    print(json.dumps(json.load(open(path)), indent=1))
    return 0
