"""X06 - extended conformance, NOT one of the listed properties and not registered in MANIFEST.json:
the interactive session of the CLI (the REPL loop of blots/src/main.rs) against spec/Repl.tla.  TLC enumerates every session of up
to Depth typed lines over the line alphabet (complete statements, output declarations, openers / items / closers of three bracket
kinds, empty lines, parse errors, the commands, end of input) with the response the model gives to every line; each session is typed
into the real release CLI running under a pseudo-terminal (TERM=dumb: no line editing, plain prompts) and every response, every
prompt ("> " or "... ") and the final outputs and exit status are compared.  Prints DIVERGENCE lines (never VIOLATION lines) and
writes build/extended/X06.json."""
import json, os, pty, re, select, sys, time
from concurrent.futures import ProcessPoolExecutor
import vlib

ALPHABET = ["bindx", "bindx2", "refx", "bindy", "outx", "outz", "blank", "perr", "help", "quit", "exitc", "lopen", "litem", "lclose",
            "popen", "pclose", "refw", "outw", "ropen", "rclose", "outf", "outg", "outf2", "callg", "callf", "nestl", "bindc", "refu"]
SMALL = ["bindx", "refx", "outx", "outz", "perr", "quit", "lopen", "litem", "lclose", "popen", "pclose", "help", "blank", "outf", "outg", "outf2", "nestl", "bindc", "refu"]


def cfg(depth, alphabet):
    return ("SPECIFICATION MSpec\nCONSTANTS Depth = %d\n Alphabet = {%s}\nINVARIANT TypeOK\nINVARIANT OutputsAreBindings\n"
            "INVARIANT ContinuationIsOpenBracket\nINVARIANT OutputsArePortable\nINVARIANT Emit\nPROPERTY BindingsImmutable\nPROPERTY OutputsGrow\n"
            "PROPERTY ErrorsChangeNothing\nCHECK_DEADLOCK FALSE\n" % (depth, ", ".join('"%s"' % a for a in alphabet)))


ANSI = re.compile(r"\x1b\[[0-9;]*[A-Za-z]")


def session(cli, texts, lines, timeout=10.0):
    """type the lines into the CLI under a pty; returns [(response text, prompt or None when the process ended)], exit status"""
    pid, fd = pty.fork()
    if pid == 0:
        os.environ["TERM"] = "dumb"
        os.environ["NO_COLOR"] = "1"
        try:
            os.execv(cli, [cli])
        finally:
            os._exit(127)

    def read_until_prompt():
        buf = b""
        t0 = time.time()
        while time.time() - t0 < timeout:
            r, _, _ = select.select([fd], [], [], 0.2)
            if not r:
                continue
            try:
                d = os.read(fd, 65536)
            except OSError:
                return buf, True
            if not d:
                return buf, True
            buf += d
            if buf == b"> " or buf.endswith(b"\n> ") or buf.endswith(b"\n... "):
                # a prompt is the last thing written before the loop waits for input: nothing may follow it
                r2, _, _ = select.select([fd], [], [], 0.01)
                if not r2:
                    return buf, False
        return buf, False

    chunks = []
    b, dead = read_until_prompt()
    for ln, t in zip(lines, texts):
        if dead:
            break
        os.write(fd, b"\x04" if ln == "eof" else t.encode() + b"\n")
        b, dead = read_until_prompt()
        chunks.append((b, dead))
    if not dead:
        try:
            os.close(fd)        # hang up: the session under test is over
        except OSError:
            pass
        fd = -1
    status = None
    t0 = time.time()
    while time.time() - t0 < timeout:
        try:
            p, st = os.waitpid(pid, os.WNOHANG)
        except ChildProcessError:
            break
        if p == pid:
            status = os.waitstatus_to_exitcode(st)
            break
        time.sleep(0.01)
    else:
        try:
            os.kill(pid, 9)
            os.waitpid(pid, 0)
        except OSError:
            pass
    if fd >= 0:
        try:
            os.close(fd)
        except OSError:
            pass
    return chunks, status


def show(v):
    if v["t"] == "int":
        return str(v["n"])
    if v["t"] == "list":
        return "[" + ", ".join(show(x) for x in v["xs"]) + "]"
    if v["t"] == "rec":
        return "{a: 1, b: 2}"
    if v["t"] == "fn":
        return "(v) => v + 1" if v["portable"] else "(v) => v + nosuch"
    raise ValueError(v)


def classify(raw, dead, typed):
    """the response of the REPL to one line, in the vocabulary of Repl.tla"""
    text = ANSI.sub("", raw.decode("utf-8", "replace")).replace("\r", "")
    prompt = None
    if not dead:
        for p in ("\n... ", "\n> "):
            if text.endswith(p):
                prompt = p[1:]
                text = text[:-len(p) + 1]
    # the terminal echoes what was typed: first line
    first, _, body = text.partition("\n")
    body = body.strip("\n")
    if dead:
        return {"k": "exit", "json": body if body else first.replace("^D", "").strip()}, None
    if prompt is None:
        return {"k": "stuck", "text": text[-200:]}, None
    if body == "":
        return {"k": "cont" if prompt == "... " else "none"}, prompt
    if prompt == "... ":
        return {"k": "printed-while-continuing", "text": body[:200]}, prompt
    if body.startswith("Blots - A Calculator Language"):
        return {"k": "help"}, prompt
    if body.startswith("[parse error]"):
        return {"k": "perr"}, prompt
    if body.startswith("[evaluation error]"):
        return {"k": "everr"}, prompt
    if body.startswith("[output error]"):
        return {"k": "outerr"}, prompt
    m = re.fullmatch(r"= (.*)\n\[output '(\w+)' recorded\]", body, re.S)
    if m:
        return {"k": "valrec", "v": m.group(1), "n": m.group(2)}, prompt
    m = re.fullmatch(r"\[output '(\w+)' recorded\]", body)
    if m:
        return {"k": "rec", "n": m.group(1)}, prompt
    m = re.fullmatch(r"= (.*)", body, re.S)
    if m:
        return {"k": "value", "v": m.group(1)}, prompt
    return {"k": "other", "text": body[:200]}, prompt


def expected(r):
    k = r["k"]
    if k in ("value",):
        return {"k": "value", "v": show(r["v"])}
    if k == "valrec":
        return {"k": "valrec", "v": show(r["v"]), "n": r["n"]}
    if k == "rec":
        return {"k": "rec", "n": r["n"]}
    if k == "exit":
        return {"k": "exit", "outs": [[o["n"], float(o["v"]["n"]) if o["v"]["t"] == "int" else [["__blots_function", show(o["v"])]]] for o in r["outs"]]}
    return {"k": k}


def run_batch(args):
    cli, cases = args
    out = []
    for c in cases:
        chunks, status = session(cli, c["texts"], c["lines"])
        problems = []
        obs = []
        for i, (raw, dead) in enumerate(chunks):
            o, prompt = classify(raw, dead, c["texts"][i])
            obs.append(o)
            e = expected(c["resps"][i])
            if e["k"] == "exit":
                try:
                    j = json.loads(o.get("json", ""), object_pairs_hook=list)
                    got = json.loads(json.dumps([[k, v] for k, v in j]))
                except Exception:
                    got = None
                if o["k"] != "exit" or got != e["outs"]:
                    problems.append("line %d %r: expected the session to end with outputs %s, observed %s" % (i + 1, c["texts"][i], e["outs"], o))
            elif o != e:
                problems.append("line %d %r: expected %s, observed %s" % (i + 1, c["texts"][i], e, o))
        if len(chunks) != len(c["lines"]):
            problems.append("the session ended after %d of %d lines" % (len(chunks), len(c["lines"])))
        if c["done"] and status != 0:
            problems.append("exit status %s after quit / exit / end of input" % status)
        if not c["done"] and chunks:
            # still running: the prompt shows whether a statement is being continued
            raw, dead = chunks[-1]
            _, prompt = classify(raw, dead, "")
            want = "... " if c["continuing"] else "> "
            if prompt != want:
                problems.append("prompt after the last line is %r, the model says %r" % (prompt, want))
        out.append(problems)
    return out


def check(tier, seed, t0):
    vlib.build_cli()
    thorough = tier == "thorough"
    tiny = ["bindx", "refx", "outx", "quit", "lopen", "litem", "lclose", "help", "nestl", "bindc", "refu", "perr"]
    runs = [(4, ALPHABET), (5, SMALL)] if thorough else [(3, ALPHABET), (4, tiny)]
    cases = []
    states = 0
    for depth, alpha in runs:
        r = vlib.run_tlc("x06_mc", "MC_X06", cfg(depth, alpha), workers=8, timeout=3000)
        if not r.ok:
            raise vlib.ToolError("MC_X06: a law fails on the specification itself:\n" + r.violation)
        states += r.distinct
        cases.extend(c for c in r.lines.get("CASE", []) if c["lines"])
    if not cases:
        raise vlib.ToolError("MC_X06 emitted no sessions")
    # one session per distinct sequence of lines
    seen = {}
    for c in cases:
        seen.setdefault(tuple(c["lines"]), c)
    cases = list(seen.values())
    nw = 16
    batches = [cases[i::nw * 4] for i in range(nw * 4)]
    div = []
    with ProcessPoolExecutor(nw) as ex:
        for b, res in zip(batches, ex.map(run_batch, [(vlib.CLI, b) for b in batches])):
            for c, problems in zip(b, res):
                if problems:
                    div.append({"lines": c["texts"], "problems": problems})
    os.makedirs(os.path.join(vlib.BUILD, "extended"), exist_ok=True)
    json.dump({"id": "X06", "states": states, "sessions": len(cases), "lines_typed": sum(len(c["lines"]) for c in cases),
               "sessions_ending_in_a_continued_statement": sum(1 for c in cases if c["continuing"]),
               "divergences": div[:50], "n_divergences": len(div)},
              open(os.path.join(vlib.BUILD, "extended", "X06.json"), "w"), indent=1)
    for d in div[:12]:
        print("DIVERGENCE extended=X06 session %s: %s" % (json.dumps(d["lines"]), "; ".join(d["problems"])[:600]))
    print("X06: %d sessions (%d model states), %d divergences" % (len(cases), states, len(div)))
    return 1 if div else 0


def replay(path):
    return 0
