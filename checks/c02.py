"""C02 - evaluation is deterministic and free of side effects on values."""
import json, os
import vlib

PROP = "C02"
CFG = ('SPECIFICATION Spec\nCONSTANTS Names = {"g", "f", "l", "h", "x", "i", "a", "b", "t", "t0", "p", "q"}\n MaxDepth = 20\n'
       "INVARIANT LetAbstractionLaw\nINVARIANT TwiceLaw\nINVARIANT NoEffectLaw\nINVARIANT Emit\nCHECK_DEADLOCK FALSE\n")


def check(tier, seed, t0):
    thorough = tier == "thorough"
    vlib.build_harness()
    vlib.build_cli()
    v = vlib.Verdict(PROP)
    r = vlib.run_tlc("c02_mc", "MC_C02", CFG, workers=8, timeout=3000, tags=("CASE", "SETUP"))
    if not r.ok:
        raise vlib.ToolError("MC_C02: a purity law fails on the reference evaluator itself:\n" + r.violation)
    cases = r.lines.get("CASE", [])
    setup = r.lines.get("SETUP", [None])[0]
    if len(cases) != r.distinct or not cases:
        raise vlib.ToolError("MC_C02 emitted %d cases for %d states" % (len(cases), r.distinct))
    cpath = os.path.join(vlib.BUILD, "c02_cases.ndjson")
    opath = os.path.join(vlib.BUILD, "c02_out.ndjson")
    spath = os.path.join(vlib.BUILD, "c02_setup.json")
    vlib.write_ndjson(cpath, cases)
    json.dump(setup, open(spath, "w"))
    vlib.harness(["replay", "c02", cpath, opath, "--setup", spath, "--cli", vlib.CLI])
    outs = vlib.read_ndjson(opath)
    evals = 0
    for c, o in zip(cases, outs):
        evals += o["evals"]
        for m in o["mismatches"]:
            v.mismatch("C02 %s %s" % (m["what"], json.dumps(m["src"])), {"mismatch": m})
    n = 6000 if thorough else 150
    tpath = os.path.join(vlib.BUILD, "c02_trace.ndjson")
    vlib.harness(["record", "c02", tpath, "--seed", str(seed), "--n", str(n), "--cli", vlib.CLI], timeout=3000)
    events = vlib.read_ndjson(tpath)
    bad, tr = vlib.validate_trace("c02_trace", "Trace_C02", tpath, len(events), timeout=3000)
    for i in bad:
        e = events[i - 1]
        v.mismatch("C02 trace %s %s" % (e["ev"], json.dumps(e["src"])[:300]), {"event": e, "index": i, "seed": seed})
    runs = [e for e in events if e["ev"] == "runs"]
    ev = {
        "property_id": PROP, "tier": tier, "seed": seed, "level": "exploration",
        "coverage": {
            "evaluations": evals + sum(2 + len(e["procs"]) for e in runs),
            "distinct_nontrivial": len({e["src"] for e in runs if " ; " in e["src"] or "(" in e["src"]}) + sum(1 for c in cases if c["abstractable"]),
            "rule": "spec->impl: one TLC state per (program, sub-expression position) of MC_C02 (12 programs over closures, callbacks, "
                    "do-blocks, conditionals; every position), with the reference evaluator's value: the real evaluator's result, the "
                    "result of [e, e], of the let-abstracted program, of two re-runs after unrelated evaluations and of three separate CLI "
                    "processes are compared. impl->spec: seeded random programs (sessions of C03's statement grammar, built-in calls of "
                    "C14, broadcasts of C11) run twice in process and, sampled, three times as CLI processes; heap-cell digests before / "
                    "after every statement; batches of mutually independent statements (every spelling of every unit converted to the first unit "
                    "of its category, built-in calls) evaluated forwards, reversed and shuffled in one process and in separate CLI processes, and "
                    "ten definitions of heap values made in either order and then passed to every built-in - no value may depend on the order. "
                    "Distinct non-trivial = distinct multi-statement or call programs + abstractable positions.",
            "samples": [cases[0]["prog"], runs[0]["src"], runs[-1]["src"]],
            "states": r.distinct, "transitions": max(r.generated - r.distinct, 1),
            "traces_validated_against_impl": 1, "trace_events": len(events),
            "programs_run_in_several_runs": len(runs), "of_which_also_as_processes": sum(1 for e in runs if e["procs"]),
            "heap_events": sum(1 for e in events if e["ev"] == "heap"),
            "laws_checked_on_spec": ["LetAbstractionLaw", "TwiceLaw", "NoEffectLaw"],
            "tlc_wall_s": round(r.wall + tr.wall, 1),
        },
        "assumptions": ["determinism is sampled over programs, runs and processes (hash seeds differ per process); it cannot be enumerated",
                        "time_now and print are excluded, as the property says", "heap cells are compared by digests of their Debug form"],
    }
    return v.finish(ev, t0)


def replay(path):
    print(json.dumps(json.load(open(path)), indent=1))
    return 0
