"""C10 - fixed precedence table, layout insensitivity, plain names."""
import json, os
import vlib

PROP = "C10"


def cfg(thorough):
    return ("SPECIFICATION Spec\nCONSTANT Triples = %s\nINVARIANT FlatOk\nINVARIANT FlatIsMin\nINVARIANT Emit\nCHECK_DEADLOCK FALSE\n"
            % ("TRUE" if thorough else "FALSE"))


def sig(case, m):
    k = case["kind"]
    if k == "flat":
        return "C10 flat %s" % m["src"]
    if k == "name":
        return "C10 name %s" % case["name"]
    return "C10 %s %s" % (k, json.dumps(m["src"]))


def check(tier, seed, t0):
    thorough = tier == "thorough"
    vlib.build_harness()
    v = vlib.Verdict(PROP)
    r = vlib.run_tlc("c10_mc", "MC_C10", cfg(thorough), workers=8, timeout=3000, xmx="12g")
    if not r.ok:
        raise vlib.ToolError("MC_C10: the reference parser / printers disagree on the specification itself:\n" + r.violation)
    cases = r.lines.get("CASE", [])
    if len(cases) != r.distinct or not cases:
        raise vlib.ToolError("MC_C10 emitted %d cases for %d states" % (len(cases), r.distinct))
    cpath = os.path.join(vlib.BUILD, "c10_cases.ndjson")
    opath = os.path.join(vlib.BUILD, "c10_out.ndjson")
    vlib.write_ndjson(cpath, cases)
    vlib.harness(["replay", "c10", cpath, opath])
    outs = vlib.read_ndjson(opath)
    kinds = {}
    evals = 0
    for c, o in zip(cases, outs):
        kinds[c["kind"]] = kinds.get(c["kind"], 0) + 1
        evals += o["evals"]
        for m in o["mismatches"]:
            v.mismatch(sig(c, m), {"case": c if c["kind"] != "flat" else {"kind": "flat", "toks": c["toks"]}, "mismatch": m})
    nontrivial = sum(1 for c in cases if c["kind"] != "flat" or sum(1 for t in c["toks"] if t["t"] in ("op", "pre", "post")) >= 2)
    n = 30000 if thorough else 3000
    tpath = os.path.join(vlib.BUILD, "c10_trace.ndjson")
    vlib.harness(["record", "c10", tpath, "--seed", str(seed), "--n", str(n)])
    events = vlib.read_ndjson(tpath)
    bad, tr = vlib.validate_trace("c10_trace", "Trace_C10", tpath, len(events), timeout=3000)
    for i in bad:
        e = events[i - 1]
        v.mismatch("C10 trace %s" % e["src"], {"event": e, "index": i, "seed": seed})
    ev = {
        "property_id": PROP, "tier": tier, "seed": seed, "level": "model_checking",
        "coverage": {
            "states": r.distinct, "transitions": max(r.generated - r.distinct, 1),
            "traces_validated_against_impl": 1, "trace_events": len(events),
            "evaluations": evals + len(events), "case_kinds": kinds,
            "distinct_nontrivial": nontrivial + len({e["src"] for e in events if len(e["toks"]) >= 5}),
            "rule": "spec->impl: one TLC state per case: flat token strings (all operator pairs, triples (thorough: all 26^3), all "
                    "prefix/postfix decorations) parsed by the real parser flat and fully parenthesised and compared with ParseRef's tree; "
                    "layout templates x every admitted decoration of every gap and gap pair; redundant-parenthesis / trailing-comma "
                    "variants; reserved words extended by suffix/prefix bound and referenced in 19 positions. Non-trivial = at least two "
                    "operators (or a non-flat case). impl->spec: random deep token strings parsed for real, tree validated by TLC.",
            "exhaustive": True,
            "invariants_on_spec": ["ParseRef(PrintFull(t)) = t", "ParseRef(PrintMin(t)) = t", "a flat string is its own minimal print"],
            "samples": [cases[0], next(c for c in cases if c["kind"] == "layout"), next(c for c in cases if c["kind"] == "name"),
                        {"src": events[0]["src"], "tree": events[0]["tree"]}],
            "tlc_wall_s": round(r.wall + tr.wall, 1),
        },
        "assumptions": ["the precedence table of Syntax.tla is the one the property states", "layout admissibility table (Syntax.tla Admit) "
                        "is a subset of what grammar.pest admits", "TLC 1.8, Json community module"],
    }
    return v.finish(ev, t0)


def replay(path):
    print(json.dumps(json.load(open(path)), indent=1))
    return 0
