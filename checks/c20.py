"""C20 - displayed numbers are well-formed and accurate to 15 significant digits."""
import json, os
import vlib

PROP = "C20"
CFG = "SPECIFICATION Spec\nINVARIANT Recognised\nINVARIANT Emit\nCHECK_DEADLOCK FALSE\n"


def check(tier, seed, t0):
    thorough = tier == "thorough"
    vlib.build_harness()
    v = vlib.Verdict(PROP)
    r = vlib.run_tlc("c20_mc", "MC_C20", CFG, workers=8, timeout=1500)
    if not r.ok:
        raise vlib.ToolError("MC_C20: the display printer and recogniser of the specification disagree:\n" + r.violation)
    cases = r.lines.get("CASE", [])
    cpath = os.path.join(vlib.BUILD, "c20_cases.ndjson")
    opath = os.path.join(vlib.BUILD, "c20_out.ndjson")
    vlib.write_ndjson(cpath, cases)
    vlib.harness(["replay", "c20", cpath, opath])
    outs = vlib.read_ndjson(opath)
    for c, o in zip(cases, outs):
        for m in o["mismatches"]:
            v.mismatch("C20 %s" % m["src"], {"case": c, "mismatch": m})
    n = 40000 if thorough else 4000
    tpath = os.path.join(vlib.BUILD, "c20_trace.ndjson")
    vlib.harness(["record", "c20", tpath, "--seed", str(seed), "--n", str(n)])
    events = vlib.read_ndjson(tpath)
    bad, tr = vlib.validate_trace("c20_trace", "Trace_C20", tpath, len(events), timeout=3000)
    for i in bad:
        e = events[i - 1]
        v.mismatch("C20 display of %s" % e["bits"], {"event": e, "index": i, "seed": seed})
    kinds = {}
    for e in events:
        kinds[e["kind"]] = kinds.get(e["kind"], 0) + 1
    ev = {
        "property_id": PROP, "tier": tier, "seed": seed, "level": "exploration",
        "coverage": {
            "evaluations": 2 * len(cases) + 2 * len(events),
            "distinct_nontrivial": len({e["bits"] for e in events if e["kind"] == "finite"}) + len(cases),
            "rule": "exhaustive part: sign x 17 digit patterns (1..15 digits, carries, 15 nines) x decimal exponents -9..19: the specification "
                    "builds the display text (DispText) and the recogniser automaton must read it back (Recognised); the real "
                    "format_display_number and format(\"{}\", x) must print exactly that text. Sampled part: doubles over bit patterns, "
                    "+-3 ulps around every power of ten, 15-digit carry values, integers below 2^53, subnormals, huge values, NaN, "
                    "infinities, zeros; TLC runs the automaton over every displayed string and checks the digit relation against the "
                    "true value truncated to 15 digits. Distinct non-trivial = distinct finite doubles + cases.",
            "samples": [cases[3], events[0], events[1]],
            "states": r.distinct, "transitions": max(r.generated - r.distinct, 1), "traces_validated_against_impl": 1,
            "display_kinds": kinds,
            "tlc_wall_s": round(r.wall + tr.wall, 1),
        },
        "assumptions": ["the exact decimal expansion of a double comes from Rust's exact {:.60e} formatting", "values whose digits 16..61 are all 9 "
                        "are skipped as undecided (none expected)", "doubles are sampled"],
    }
    return v.finish(ev, t0)


def replay(path):
    print(json.dumps(json.load(open(path)), indent=1))
    return 0
