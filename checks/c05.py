"""C05 - function outputs are portable."""
import json, os, re
import vlib

PROP = "C05"
CFG = ('SPECIFICATION Spec\nCONSTANTS Names = {"f", "g", "h", "k", "x", "y", "z", "a"}\n MaxDepth = 12\n'
       "INVARIANT Portable\nINVARIANT ReEmitStable\nINVARIANT Emit\nCHECK_DEADLOCK FALSE\n")
VIA_BODY = re.compile(r"=> [^()]*\b(via|into|where)\b")


def flat_has_pipe(t):
    L1 = ("and", "nand", "or", "nor", "via", "into", "where")
    return isinstance(t, dict) and t.get("k") == "bin" and t.get("o") in L1 and (t["o"] in ("via", "into", "where") or flat_has_pipe(t.get("l")))


def lambda_body_rooted_at_pipe(tree):
    """does the tree contain a lambda whose body has via / into / where at its flat top level? (structural class of the pinned defect)"""
    if isinstance(tree, dict):
        if tree.get("k") == "lam" and flat_has_pipe(tree.get("b")):
            return True
        return any(lambda_body_rooted_at_pipe(v) for v in tree.values())
    if isinstance(tree, list):
        return any(lambda_body_rooted_at_pipe(v) for v in tree)
    return False


def check(tier, seed, t0):
    thorough = tier == "thorough"
    vlib.build_harness()
    vlib.build_cli()
    v = vlib.Verdict(PROP)
    r = vlib.run_tlc("c05_mc", "MC_C05", CFG, workers=8, timeout=3000)
    if not r.ok:
        raise vlib.ToolError("MC_C05: portability fails on the reference evaluator itself:\n" + r.violation)
    core = r.lines.get("CASE", [])
    import c07
    r2 = vlib.run_tlc("c05_trees", "MC_C07", c07.cfg(3 if thorough else 2), workers=8, timeout=3000, xmx="12g")
    if not r2.ok:
        raise vlib.ToolError("MC_C07 (tree generator) failed:\n" + r2.violation)
    rich = r2.lines.get("CASE", [])
    if thorough:
        rich = rich[::4]
    cases = core + rich
    cpath = os.path.join(vlib.BUILD, "c05_cases.ndjson")
    opath = os.path.join(vlib.BUILD, "c05_out.ndjson")
    vlib.write_ndjson(cpath, cases)
    vlib.harness(["replay", "c05", cpath, opath, "--cli", vlib.CLI] + (["--thorough"] if thorough else []), timeout=6000)
    outs = vlib.read_ndjson(opath)
    evals = 0
    for c, o in zip(cases, outs):
        evals += o["evals"]
        for m in o["mismatches"]:
            pipe = lambda_body_rooted_at_pipe(c.get("tree")) or lambda_body_rooted_at_pipe({"k": "lam", "b": c.get("tree")}) \
                if "tree" in c else (c.get("def") == "uses-builtin-callback")
            if pipe and m["problem"]["what"] in ("reload", "cli-pipe", "reloaded", "re-emitted", "re-emitted reload"):
                sig = "C05 lambda body with via/into/where at its flat top level is emitted without parentheses"
            else:
                sig = "C05 %s %s :: %s" % (m["class"], json.dumps(m["src"]), m["problem"]["what"])
            v.mismatch(sig, {"class": m["class"], "src": m["src"], "problem": m["problem"]})
    ev = {
        "property_id": PROP, "tier": tier, "seed": seed, "level": "model_checking",
        "coverage": {
            "states": r.distinct + r2.distinct, "transitions": max(r.generated - r.distinct, 1) + max(r2.generated - r2.distinct, 1),
            "traces_validated_against_impl": len(cases),
            "evaluations": evals, "distinct_nontrivial": len(core) + sum(1 for c in rich if c["full"].count("(") >= 2),
            "core_cases_with_model_values": len(core), "rich_bodies": len(rich),
            "rule": "core: one TLC state per (definition, argument tuple) of MC_C05 with the reference evaluator's value; Portable and "
                    "ReEmitStable are checked on the model (capture-avoiding substitution of captured values). rich: every chain-complete "
                    "tree of SyntaxRich (depth %d) as the body of fn = (x) => BODY under captured-value pools (numbers; negative / fraction; "
                    "strings with quotes and backslashes; NaN / infinities / nested closures; records with keys needing quotes). Each function "
                    "goes through the real emitter -> JSON text -> real loader into a fresh heap, is applied to 5 argument tuples and compared "
                    "with the original (result or failure alike), re-emitted and reloaded again; sampled through `blots | blots`. "
                    "Non-trivial = core case, or a body with at least two parenthesised sub-terms." % (3 if thorough else 2),
            "exhaustive": True,
            "invariants_on_spec": ["Portable", "ReEmitStable"],
            "samples": [{"def": core[0]["def"], "args": core[0]["args"]}, rich[10]["full"], rich[len(rich) // 2]["full"]],
            "tlc_wall_s": round(r.wall + r2.wall, 1),
        },
        "assumptions": ["functions nested inside results are compared as functions (top-level function results are applied once more)",
                        "recursive functions are not closed after capture and are not claimed", "errors compared as failure, not by message"],
    }
    return v.finish(ev, t0)


def replay(path):
    print(json.dumps(json.load(open(path)), indent=1))
    return 0
