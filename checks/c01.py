"""C01 - no input crashes the parse / evaluate / serialise / format pipeline."""
import json, os, subprocess, concurrent.futures
import vlib

PROP = "C01"
MACHINE_CFG = "SPECIFICATION Spec\nINVARIANT TotalOutcomes\nINVARIANT ChainOrder\nINVARIANT TypeOK\nCHECK_DEADLOCK FALSE\n"


def cases_cfg(pool, small, maxtok):
    return "SPECIFICATION CSpec\nCONSTANTS PoolSize = %d\n SmallPool = %d\n MaxTok = %d\nINVARIANT Emit\nCHECK_DEADLOCK FALSE\n" % (pool, small, maxtok)


def run_worker_slice(tag, cases):
    """run one slice of cases in worker processes (address-space limit, timeout); restart after a crash"""
    cpath = os.path.join(vlib.BUILD, "c01_cases_%s.ndjson" % tag)
    opath = os.path.join(vlib.BUILD, "c01_out_%s.ndjson" % tag)
    vlib.write_ndjson(cpath, cases)
    if os.path.exists(opath):
        os.remove(opath)
    done = 0
    crashes = {}
    while done < len(cases):
        cmd = "ulimit -v 6291456; exec timeout 600 %s worker c01 %s %s --from %d" % (vlib.HARNESS, cpath, opath, done)
        p = subprocess.run(["sh", "-c", cmd], stdin=subprocess.DEVNULL, stdout=subprocess.DEVNULL, stderr=subprocess.PIPE, env=vlib.env_offline())
        n = sum(1 for _ in open(opath)) if os.path.exists(opath) else 0
        if n >= len(cases):
            break
        # the worker died while processing case n
        if p.returncode == 98:
            # the 20 s watchdog: heavy but finite work is not a hang - run the case alone with a 10 min limit before saying so
            spath, rpath = cpath + ".slow", opath + ".slow"
            vlib.write_ndjson(spath, [cases[n]])
            if os.path.exists(rpath):
                os.remove(rpath)
            p2 = subprocess.run(["sh", "-c", "ulimit -v 6291456; exec timeout 700 %s worker c01 %s %s --from 0" % (vlib.HARNESS, spath, rpath)], stdin=subprocess.DEVNULL,
                                stdout=subprocess.DEVNULL, stderr=subprocess.PIPE, env=dict(vlib.env_offline(), BVH_WATCHDOG_MS="600000"))
            got = vlib.read_ndjson(rpath) if os.path.exists(rpath) else []
            if got:
                got[0]["i"] = n
                got[0]["slow"] = True
                with open(opath, "a") as f:
                    f.write(json.dumps(got[0]) + "\n")
                done = n + 1
                continue
            p = p2
        if b"memory allocation of" in p.stderr:
            # the allocator gave up under the 6 GiB address-space limit of the worker: resource exhaustion, not a crash of the pipeline
            with open(opath, "a") as f:
                f.write(json.dumps({"i": n, "src": ["<see case>"], "arity_problem": None, "out_of_memory": True, "events": [{"ev": "reset"}]}) + "\n")
            done = n + 1
            continue
        crashes[n] = "worker exit status %s: %s" % (p.returncode, p.stderr.decode(errors="replace")[-300:].strip())
        with open(opath, "a") as f:
            f.write(json.dumps({"i": n, "src": ["<see case>"], "arity_problem": None, "events": [
                {"ev": "reset"}, {"ev": "stage", "stage": "process", "outcome": "abort", "located": False, "start": 0, "end": 0,
                                  "textlen": 0, "boundary_ok": True, "msg": crashes[n]}]}) + "\n")
        done = n + 1
    return vlib.read_ndjson(opath), crashes


def describe_case(c):
    if c["kind"] == "call":
        return "%s(%s)" % (c["name"], ", ".join("pool[%d]" % a for a in c["args"]))
    if c["kind"] == "tokens":
        return "tokens %s" % json.dumps(c["toks"])
    return "text %s inputs %s" % (json.dumps(c["text"])[:200], json.dumps(c.get("inputs")))


def check(tier, seed, t0):
    thorough = tier == "thorough"
    vlib.build_harness()
    v = vlib.Verdict(PROP)
    # 1. the machine itself
    rm = vlib.run_tlc("c01_machine", "Pipeline", MACHINE_CFG, workers=4, timeout=600, coverage=True)
    if not rm.ok:
        raise vlib.ToolError("Pipeline machine violates its own invariants:\n" + rm.violation)
    for a in ("RunChain", "RunErrLocated", "RunSide"):
        if rm.coverage.get(a, 0) == 0:
            raise vlib.ToolError("Pipeline: action %s never taken" % a)
    # 2. enumerated cases + random texts
    rc = vlib.run_tlc("c01_cases", "MC_C01", cases_cfg(20, 8, 3) if thorough else cases_cfg(12, 6, 2), workers=8, timeout=3000, xmx="12g")
    if not rc.ok:
        raise vlib.ToolError("MC_C01 failed:\n" + rc.violation)
    cases = rc.lines.get("CASE", [])
    gpath = os.path.join(vlib.BUILD, "c01_texts.ndjson")
    vlib.harness(["gen", "c01", gpath, "--seed", str(seed), "--n", str(60000 if thorough else 5000)])
    texts = vlib.read_ndjson(gpath)
    allc = cases + texts
    nslices = 12
    slices = [allc[i::nslices] for i in range(nslices)]
    results, crashes = [], {}
    with concurrent.futures.ThreadPoolExecutor(max_workers=nslices) as ex:
        futs = [ex.submit(run_worker_slice, str(i), s) for i, s in enumerate(slices)]
        for i, f in enumerate(futs):
            outs, cr = f.result()
            for o, c in zip(outs, slices[i]):
                results.append((c, o))
    # 3. every recorded run against the machine
    events, owner = [], []
    for k, (c, o) in enumerate(results):
        for e in o["events"]:
            events.append(e)
            owner.append(k)
        if o.get("arity_problem"):
            v.mismatch("C01 %s: %s" % (describe_case(c), o["arity_problem"]), {"case": c, "src": o["src"]})
    tpath = os.path.join(vlib.BUILD, "c01_trace.ndjson")
    vlib.write_ndjson(tpath, events)
    bad, tr = vlib.validate_trace("c01_trace", "Trace_C01", tpath, len(events), timeout=3000, xmx="8g")
    for i in bad:
        c, o = results[owner[i - 1]]
        e = events[i - 1]
        what = "%s %s" % (e["stage"], e["outcome"])
        if e.get("located") and e["outcome"] == "err":
            what = "%s error location %d..%d outside its text (length %d) or off a character boundary" % (e["stage"], e["start"], e["end"], e["textlen"])
        v.mismatch("C01 %s :: %s" % (describe_case(c), what), {"case": c, "src": o["src"], "event": e})
    kinds = {}
    for c in allc:
        kinds[c["kind"]] = kinds.get(c["kind"], 0) + 1
    stages = {}
    for e in events:
        if e["ev"] == "stage":
            key = "%s/%s" % (e["stage"], e["outcome"])
            stages[key] = stages.get(key, 0) + 1
    ev = {
        "property_id": PROP, "tier": tier, "seed": seed, "level": "exploration",
        "coverage": {
            "evaluations": len(allc), "distinct_nontrivial": len({json.dumps(c, sort_keys=True) for c in allc if c["kind"] != "call" or len(c["args"]) >= 1}),
            "rule": "enumerated by TLC: every built-in (arity table of BuiltinTable.tla) x every argument tuple from a boundary pool (NaN, +-inf, -0, "
                    "2^53, 1e30, negatives, fractions, empty / non-ASCII strings, empty / nested / heterogeneous / long NaN-bearing lists, records, "
                    "lambdas incl. (a?, b), built-ins) of length 0 .. max arity + 1, with the arity-error prediction; every token string up to "
                    "length %d over a 38-token alphabet (joined with and without spaces). Sampled: grammar-directed whole programs over the full expression language (proggen.rs: assignments as sub-expressions, "
                    "immediately invoked / parameterless lambdas, inputs and #name references, spreads, optional / rest parameters, do-blocks, built-in calls) "
                    "with JSON inputs, numbers at the display boundaries (powers of ten and runs of nines +-3 ulps) as literals / to_string / format / JSON input, corpus-mutated sources (examples/, benches/, "
                    "README snippets), token soups, raw random UTF-8, nesting to 64, with JSON input documents incl. function objects. Every case "
                    "runs the whole pipeline (parse, convert, evaluate, render, validate, serialise, JSON text and back, error display, library and "
                    "WASM formatter, tokenizer, WASM evaluate and inline evaluator, also with the text as the body of a serialised function input) in worker processes under an address-space limit and a timeout; each stage event is "
                    "validated by TLC against the Pipeline machine. Distinct non-trivial = distinct cases other than nullary calls." % (3 if thorough else 2),
            "samples": [cases[0], cases[len(cases) // 2], texts[0], texts[1]],
            "states": rm.distinct + rc.distinct, "transitions": rm.generated, "traces_validated_against_impl": len(allc),
            "cases_per_kind": kinds, "stage_events": stages, "worker_crashes": len(crashes) if crashes else sum(1 for e in events if e.get("stage") == "process"),
            "machine_action_counts": rm.coverage, "slow_cases_rerun_alone": sum(1 for _, o in results if o.get("slow")),
            "cases_ending_in_allocation_failure_under_the_worker_limit": sum(1 for _, o in results if o.get("out_of_memory")),
            "tlc_wall_s": round(rm.wall + rc.wall + tr.wall, 1),
        },
        "assumptions": ["'all UTF-8 strings' is sampled; only the token-level fragment is exhaustive", "a worker killed by the address-space limit "
                        "(6 GiB) counts as an abort; a case over 20 s is re-run alone and counts as a hang when it exceeds 10 min there", "the release CLI itself is exercised by "
                        "C18 / C19 / C06; here the library, the WASM driver (natively) and the formatter are driven in process"],
    }
    return v.finish(ev, t0)


def replay(path):
    print(json.dumps(json.load(open(path)), indent=1))
    return 0
