"""X03 - extended conformance, NOT one of the listed properties and not registered in MANIFEST.json:
how values are shown as text (to_string of every value of a small universe, format over every piece sequence) against spec/Display.tla.  Prints DIVERGENCE lines (never VIOLATION lines) and writes build/extended/X03.json."""
import json, os
import vlib

CFG = "SPECIFICATION Spec\nINVARIANT ShowString\nINVARIANT NoHoleNoArgs\nINVARIANT Emit\nCHECK_DEADLOCK FALSE\n"


def check(tier, seed, t0):
    vlib.build_harness()
    r = vlib.run_tlc("x03_mc", "MC_X03", CFG, workers=4, timeout=1500)
    if not r.ok:
        raise vlib.ToolError("MC_X03: a law fails on the specification itself:\n" + r.violation)
    cases = r.lines.get("CASE", [])
    if len(cases) != r.distinct or not cases:
        raise vlib.ToolError("MC_X03 emitted %d cases for %d states" % (len(cases), r.distinct))
    cpath = os.path.join(vlib.BUILD, "x03_cases.ndjson")
    opath = os.path.join(vlib.BUILD, "x03_out.ndjson")
    vlib.write_ndjson(cpath, cases)
    vlib.harness(["replay", "x03", cpath, opath])
    outs = vlib.read_ndjson(opath)
    div = []
    for c, o in zip(cases, outs):
        for m in o["mismatches"]:
            div.append(m)
    os.makedirs(os.path.join(vlib.BUILD, "extended"), exist_ok=True)
    per_f = {}
    for c in cases:
        per_f[c["fam"]] = per_f.get(c["fam"], 0) + 1
    json.dump({"id": "X03", "states": r.distinct, "cases_per_function": per_f, "divergences": div[:50], "n_divergences": len(div)},
              open(os.path.join(vlib.BUILD, "extended", "X03.json"), "w"), indent=1)
    for m in div[:12]:
        print("DIVERGENCE extended=X03 %s expected %s observed %s" % (m["src"], json.dumps(m["exp"]), json.dumps(m["obs"])))
    print("X03: %d calls, %d divergences" % (len(cases), len(div)))
    return 1 if div else 0


def replay(path):
    return 0
