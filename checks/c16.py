"""C16 - numbers keep their exact value through every textual path; literals are correctly rounded."""
import json, os, struct
from fractions import Fraction
import vlib

PROP = "C16"


def cfg(maxlen):
    return ("SPECIFICATION Spec\nCONSTANT MaxLen = %d\nINVARIANT DeadIsFinal\nINVARIANT AcceptingHasDigits\nINVARIANT RunAgrees\n"
            "INVARIANT FracCounts\nINVARIANT Emit\nCHECK_DEADLOCK FALSE\n" % maxlen)


def exact_value(mant, scale, radix):
    m = 0
    for d in mant:
        m = m * radix + d
    return Fraction(m) * (Fraction(10) ** scale)


def nearest_double_bits(v):
    """bits of the double nearest to the non-negative rational v (ties to even), by exact integer arithmetic"""
    if v == 0:
        return 0
    big = Fraction(2) ** 1024
    if v >= big - Fraction(2) ** 970:       # >= MAX + half ulp -> infinity
        return 0x7ff0000000000000
    try:
        x = v.numerator / v.denominator     # Python's int / int is correctly rounded
    except OverflowError:
        return 0x7ff0000000000000
    return struct.unpack("<Q", struct.pack("<d", x))[0]


def check(tier, seed, t0):
    thorough = tier == "thorough"
    vlib.build_harness()
    vlib.build_cli()
    v = vlib.Verdict(PROP)
    r = vlib.run_tlc("c16_mc", "MC_C16", cfg(5 if thorough else 4), workers=8, timeout=3000, xmx="12g")
    if not r.ok:
        raise vlib.ToolError("MC_C16: the literal automaton violates one of its own invariants:\n" + r.violation)
    cases = r.lines.get("CASE", [])
    cpath = os.path.join(vlib.BUILD, "c16_cases.ndjson")
    opath = os.path.join(vlib.BUILD, "c16_out.ndjson")
    vlib.write_ndjson(cpath, cases)
    vlib.harness(["replay", "c16", cpath, opath])
    outs = vlib.read_ndjson(opath)

    def judge(text, mant, scale, radix, parsed, evaluated=None):
        neg = text.startswith("-")
        want = nearest_double_bits(exact_value(mant, scale, radix))
        if neg:
            want |= 1 << 63
        want = "%016x" % want
        for how, got in (("parsed", parsed), ("evaluated", evaluated)):
            if got is not None and got != want:
                v.mismatch("C16 literal %s" % text, {"text": text, "exact_value": {"mant": mant, "scale": scale, "radix": radix},
                                                     "nearest_double": want, how: got})
                return
    for c, o in zip(cases, outs):
        judge(o["text"], c["mant"], c["scale"], c["radix"], o["parsed"], o["evaluated"])
    n = 9000 if thorough else 900
    tpath = os.path.join(vlib.BUILD, "c16_trace.ndjson")
    vlib.harness(["record", "c16", tpath, "--seed", str(seed), "--n", str(n), "--cli", vlib.CLI], timeout=3000)
    events = vlib.read_ndjson(tpath)
    cfgx = ""
    cfg_t = "SPECIFICATION TraceSpec\nINVARIANT Final\nCHECK_DEADLOCK FALSE\n"
    tr = vlib.run_tlc("c16_trace", "Trace_C16", cfg_t, workers=1, timeout=3000, env_extra={"TRACE": tpath},
                      java_opts=vlib.TRACE_JAVA_OPTS, tags=("TRACE_RESULT", "VALUE"), xmx="4g")
    if not tr.ok or not tr.lines.get("TRACE_RESULT"):
        raise vlib.ToolError("Trace_C16 failed inside TLC:\n%s" % tr.violation)
    res = tr.lines["TRACE_RESULT"][-1]
    if res["consumed"] != len(events):
        raise vlib.ToolError("Trace_C16 consumed %d of %d events" % (res["consumed"], len(events)))
    for i in res["bad"]:
        e = events[i - 1]
        if e["ev"] == "rt":
            v.mismatch("C16 path=%s value=%s" % (e["path"], e["in"]), {"event": e, "index": i, "seed": seed})
        else:
            v.mismatch("C16 literal %s" % e["text"], {"event": e, "index": i, "seed": seed, "obs": "documented literal rejected by the automaton or the parser"})
    values = {x["i"]: x for x in tr.lines.get("VALUE", [])}
    for i, e in enumerate(events, 1):
        if e["ev"] == "lit" and i in values:
            x = values[i]
            judge(e["text"], x["mant"], x["scale"], x["radix"], e["parsed"])
    paths = {}
    for e in events:
        if e["ev"] == "rt":
            paths[e["path"]] = paths.get(e["path"], 0) + 1
    ev = {
        "property_id": PROP, "tier": tier, "seed": seed, "level": "exploration",
        "coverage": {
            "evaluations": 2 * len(cases) + len(events),
            "distinct_nontrivial": len({o["text"] for o in outs if len(o["text"]) >= 3}) + len({(e.get("path"), e.get("in"), e.get("text")) for e in events}),
            "rule": "literals: every string up to %d characters over the alphabet {0 1 7 9 a f _ . e E + - x b} is a path of the literal "
                    "automaton (one character per step); each accepted one is parsed and evaluated by the real code and the double must be "
                    "the nearest one to the automaton's exact value (exact rational arithmetic). Random long literals likewise (Trace_C16 "
                    "gives the exact value). Round trips: doubles sampled over bit patterns and boundaries (powers of 2 and 10 +- ulps, 2^53, "
                    "subnormals, MAX, -0) through to_string/to_number, JSON out/in, function-source emission, the formatter and two real CLI "
                    "processes; TLC requires identity of the bit pattern and lexer acceptance of the emitted text. Non-trivial = literal of "
                    ">= 3 characters / distinct (path, value)." % (5 if thorough else 4),
            "samples": [outs[10]["text"], outs[len(outs) // 2]["text"], events[0], events[-1]],
            "states": r.distinct, "transitions": r.generated, "traces_validated_against_impl": 1,
            "literal_states_accepting": len(cases), "round_trips_per_path": paths,
            "random_literals": sum(1 for e in events if e["ev"] == "lit"),
            "tlc_wall_s": round(r.wall + tr.wall, 1),
        },
        "assumptions": ["nearest-double judgement uses Python's exact integers / Fractions (TLC has no floating point)",
                        "doubles are sampled, not enumerated", "shortest-round-trip printing and strtod are not modelled; only their results are judged"],
    }
    return v.finish(ev, t0)


def replay(path):
    print(json.dumps(json.load(open(path)), indent=1))
    return 0
