"""C03 - bindings are immutable and scoped."""
import json, os
import vlib

PROP = "C03"


def cfg(vars_, depth, alphabet="full"):
    names = ", ".join('"%s"' % n for n in vars_ + ["x"])
    vs = ", ".join('"%s"' % n for n in vars_)
    return ("SPECIFICATION Spec\nCONSTANTS Names = {%s}\n Vars = {%s}\n MaxDepth = 6\n SDepth = %d\n Alphabet = \"%s\"\n"
            "PROPERTY Immutable\nPROPERTY OutputsAppendOnly\nPROPERTY FailedStmtFrame\nINVARIANT EmitDone\nCHECK_DEADLOCK FALSE\n"
            % (names, vs, depth, alphabet))


TRACE_CFG = 'CONSTANTS Names = {"a", "b", "c", "d", "e", "f", "g", "h", "x"}\n MaxDepth = 6\n'


def check(tier, seed, t0):
    thorough = tier == "thorough"
    vlib.build_harness()
    v = vlib.Verdict(PROP)
    runs = [("d2", ["a", "b", "c"], 2, "full"), ("fn4", ["a", "b"], 4, "fn"), ("data2", ["a", "b", "c"], 2, "data")]
    if thorough:
        runs.append(("d3", ["a", "b"], 3, "full"))
        runs.append(("data3", ["a", "b"], 3, "data"))
        runs.append(("fn5", ["a", "b"], 5, "fn"))
    # one run at a time, the behaviours streamed from TLC's output to the harness (hundreds of thousands in the thorough tier:
    # nothing but counters and two samples is kept in memory)
    states, trans, wall, n_cases, evals, nontrivial, sample_steps = 0, 0, 0.0, 0, 0, 0, None
    for tag, vs, depth, alpha in runs:
        cpath = os.path.join(vlib.BUILD, "c03_cases_%s.ndjson" % tag)
        opath = os.path.join(vlib.BUILD, "c03_out_%s.ndjson" % tag)
        r = vlib.run_tlc("c03_mc_" + tag, "MC_C03", cfg(vs, depth, alpha), workers=8, timeout=3000, xmx="12g", stream_to={"CASE": cpath})
        if not r.ok:
            raise vlib.ToolError("MC_C03: a C03 property fails on the Session specification itself:\n" + r.violation)
        if not r.streamed["CASE"]:
            raise vlib.ToolError("MC_C03 emitted no behaviours")
        n_cases += r.streamed["CASE"]
        states += r.distinct
        trans += r.generated
        wall += r.wall
        vlib.harness(["replay", "c03", cpath, opath], timeout=6000)
        with open(cpath) as fc, open(opath) as fo:
            for lc, lo in zip(fc, fo):
                o = json.loads(lo)
                evals += o["evals"]
                if o["mismatches"] or sample_steps is None or tag == "d2":
                    c = json.loads(lc)
                    if sample_steps is None:
                        sample_steps = [s["st"] for s in c["steps"]]
                    if tag == "d2" and (any(not s["ok"] for s in c["steps"]) or sum(1 for k, x in c["steps"][-1]["env"].items() if x["t"] != "unb") >= 2):
                        nontrivial += 1
                    for m in o["mismatches"]:
                        v.mismatch("C03 %s" % json.dumps(m["script"]), {"mismatch": m})
        os.remove(cpath)
        os.remove(opath)
    n = 20000 if thorough else 1500
    tpath = os.path.join(vlib.BUILD, "c03_trace.ndjson")
    vlib.harness(["record", "c03", tpath, "--seed", str(seed), "--n", str(n)])
    events = vlib.read_ndjson(tpath)
    bad, tr = vlib.validate_trace("c03_trace", "Trace_C03", tpath, len(events), extra_cfg=TRACE_CFG, timeout=3000)
    for i in bad:
        # the session prefix since the last reset identifies the failing history
        j = i - 1
        while j > 0 and events[j - 1]["ev"] != "reset":
            j -= 1
        script = [e["src"] for e in events[j:i] if e["ev"] == "stmt"]
        v.mismatch("C03 trace %s" % json.dumps(script[-3:]), {"script": script, "event": events[i - 1], "index": i, "seed": seed})
    stmts = [e for e in events if e["ev"] == "stmt"]
    ev = {
        "property_id": PROP, "tier": tier, "seed": seed, "level": "model_checking",
        "coverage": {
            "states": states, "transitions": trans, "traces_validated_against_impl": sum(1 for e in events if e["ev"] == "reset"),
            "behaviours_replayed": n_cases, "trace_events": len(stmts),
            "trace_statements_failing": sum(1 for e in stmts if not e["ok"]),
            "trace_root_insertions": sum(len(e["inserts"]) for e in stmts),
            "evaluations": evals + len(stmts),
            "distinct_nontrivial": nontrivial + len({e["src"] for e in stmts}),
            "rule": "spec->impl: every behaviour of Session.tla of length 2 over the 96-statement alphabet on names {a,b,c} (thorough: also "
                    "length 3 on {a,b}); after every statement the success flag, the value and the whole root scope (Environment::iter) are "
                    "compared with the model. Non-trivial = a failing statement occurs or at least two names end up bound. impl->spec: "
                    "seeded random sessions of 25 statements over 8 names with the insertion hook; TLC re-executes each statement with Exec "
                    "and checks Immutable / NoDoubleInsert / NoLeak / InsertsExplainChange on the observed states.",
            "exhaustive": True,
            "properties_checked_on_spec": ["Immutable", "OutputsAppendOnly", "FailedStmtFrame"],
            "samples": [sample_steps, [core_src for core_src in [e["src"] for e in stmts[:6]]]],
            "tlc_wall_s": round(wall + tr.wall, 1),
        },
        "assumptions": ["closures are compared by kind in scope snapshots; their behaviour is observed through later call statements",
                        "hook H1 (Environment::insert) reports root insertions", "TLC 1.8, Json community module"],
    }
    return v.finish(ev, t0)


def replay(path):
    print(json.dumps(json.load(open(path)), indent=1))
    return 0
