"""X02 - extended conformance, NOT one of the listed properties and not registered in MANIFEST.json:
the token stream of `tokenize` against the pushdown machine spec/Tokens.tla (model-checked on its own, then trace validation)."""
import json, os
import vlib


def check(tier, seed, t0):
    vlib.build_harness()
    r = vlib.run_tlc("x02_mc", "MC_X02", "SPECIFICATION Spec\nCONSTANTS MaxPos = 3\n MaxOpen = 3\nINVARIANT TypeOK\nINVARIANT StackSorted\nCONSTRAINT Bounded\nCHECK_DEADLOCK FALSE\n",
                     workers=4, timeout=600)
    if not r.ok:
        raise vlib.ToolError("MC_X02: the token machine violates its own invariant:\n" + r.violation)
    # the unbounded argument: Apalache discharges the inductive invariant of the typed machine (spec/TokensInd.tla)
    adir = os.path.join(vlib.BUILD, "apalache_x02")
    os.makedirs(adir, exist_ok=True)
    for label, args in (("Init => IndInv", ["--init=Init", "--inv=IndInv", "--length=0"]), ("IndInv /\\ Next => IndInv'", ["--init=IndInit", "--inv=IndInv", "--length=1"])):
        p = vlib.run(["timeout", "300", "apalache-mc", "check", "--cinit=ConstInit", "--out-dir=" + adir] + args + [os.path.join(vlib.SPEC, "TokensInd.tla")], cwd=adir, timeout=400)
        if b"EXITCODE: OK" not in p.stdout:
            raise vlib.ToolError("Apalache could not discharge '%s' of TokensInd:\n%s" % (label, p.stdout.decode(errors="replace")[-1200:]))
    tpath = os.path.join(vlib.BUILD, "x02_trace.ndjson")
    vlib.harness(["record", "x02", tpath, "--seed", str(seed), "--n", str(3000 if tier == "thorough" else 300)])
    events = vlib.read_ndjson(tpath)
    bad, tr = vlib.validate_trace("x02_trace", "Trace_X02", tpath, len(events), timeout=1500)
    texts = sum(1 for e in events if e["ev"] == "reset")
    os.makedirs(os.path.join(vlib.BUILD, "extended"), exist_ok=True)
    json.dump({"id": "X02", "machine_states": r.distinct, "texts": texts, "token_events": sum(1 for e in events if e["ev"] == "tok"), "rejected_at": bad[:20]},
              open(os.path.join(vlib.BUILD, "extended", "X02.json"), "w"), indent=1)
    for i in bad[:10]:
        j = i - 1
        while events[j]["ev"] != "reset":
            j -= 1
        print("DIVERGENCE extended=X02 token stream of %s rejected at event %s" % (json.dumps(events[j]["src"]), json.dumps(events[i - 1])))
    print("X02: %d texts, %d token events, %d rejected; machine: %d states" % (texts, sum(1 for e in events if e["ev"] == "tok"), len(bad), r.distinct))
    return 1 if bad else 0


def replay(path):
    return 0
