"""C11 - scalar operator semantics and the broadcasting law."""
import json, os
import vlib

PROP = "C11"


def cfg(big):
    return ("SPECIFICATION Spec\nCONSTANT Big = %s\nINVARIANT LawShape\nINVARIANT LawScalar\nINVARIANT LawSpelling\n"
            "INVARIANT Emit\nCHECK_DEADLOCK FALSE\n" % ("TRUE" if big else "FALSE"))


def shape(c):
    la, lb = c["a"]["t"] == "list", c["b"]["t"] == "list"
    return "ll" if la and lb else "ls" if la else "sl" if lb else "ss"


def check(tier, seed, t0):
    thorough = tier == "thorough"
    vlib.build_harness()
    v = vlib.Verdict(PROP)
    r = vlib.run_tlc("c11_mc", "MC_C11", cfg(thorough), workers=8, timeout=3000, xmx="12g")
    if not r.ok:
        raise vlib.ToolError("MC_C11: the broadcasting law fails on the specification itself:\n" + r.violation)
    cases = r.lines.get("CASE", [])
    if len(cases) != r.distinct or not cases:
        raise vlib.ToolError("MC_C11 emitted %d cases for %d states" % (len(cases), r.distinct))
    cpath = os.path.join(vlib.BUILD, "c11_cases.ndjson")
    opath = os.path.join(vlib.BUILD, "c11_out.ndjson")
    vlib.write_ndjson(cpath, cases)
    vlib.harness(["replay", "c11", cpath, opath])
    outs = vlib.read_ndjson(opath)
    shapes = {}
    for c, o in zip(cases, outs):
        shapes[shape(c)] = shapes.get(shape(c), 0) + 1
        for m in o["mismatches"]:
            v.mismatch("C11 %s" % m["src"], {"case": c, "mismatch": m})
    nontrivial = sum(1 for c in cases if shape(c) != "ss" and (len(c["a"].get("xs", [])) + len(c["b"].get("xs", []))) > 0)
    n = 40000 if thorough else 3000
    tpath = os.path.join(vlib.BUILD, "c11_trace.ndjson")
    vlib.harness(["record", "c11", tpath, "--seed", str(seed), "--n", str(n)])
    events = vlib.read_ndjson(tpath)
    bad, tr = vlib.validate_trace("c11_trace", "Trace_C11", tpath, len(events), timeout=3000)
    for i in bad:
        e = events[i - 1]
        v.mismatch("C11 trace %s %s" % (e["ev"], e["src"]), {"event": e, "index": i, "seed": seed})
    kinds = {}
    for e in events:
        kinds[e["ev"]] = kinds.get(e["ev"], 0) + 1
    distinct_events = len({e["src"] for e in events})
    ev = {
        "property_id": PROP, "tier": tier, "seed": seed, "level": "model_checking",
        "coverage": {
            "states": r.distinct, "transitions": max(r.generated - r.distinct, 1),
            "traces_validated_against_impl": 1, "trace_events": len(events), "trace_event_kinds": kinds,
            "evaluations": len(cases) + sum(1 + len(e.get("elems", [])) for e in events),
            "distinct_nontrivial": nontrivial + distinct_events,
            "shapes": shapes,
            "rule": "spec->impl: every (operator, left, right) state of MC_C11: 17 operators x {scalar-scalar, list-scalar, scalar-list, "
                    "list-list incl. unequal lengths} over the element pools (lists of length 0..2); non-trivial = a broadcast with at "
                    "least one element. impl->spec: seeded random broadcasts (length 0..8, arbitrary doubles as opaque bits) with "
                    "per-element results from the real evaluator, scalar operations recomputed by ElemOp, algebraic identities; "
                    "distinct by source text.",
            "exhaustive": True,
            "samples": [cases[0], cases[len(cases) // 3], cases[-1], events[0], events[1], events[3]],
            "tlc_wall_s": round(r.wall + tr.wall, 1),
        },
        "assumptions": ["identity lift: Fin(n) is the double n", "correct rounding of + - * / % ^ on general doubles is delegated to the "
                        "hardware/libm and only checked through exact-integer, special-value and algebraic cases",
                        "TLC 1.8, Json community module"],
    }
    return v.finish(ev, t0)


def replay(path):
    print(json.dumps(json.load(open(path)), indent=1))
    return 0
