"""C12 - equality and ordering are coherent."""
import json, os, time
import vlib

PROP = "C12"


def cfg(big):
    return ("SPECIFICATION Spec\nCONSTANT Big = %s\nINVARIANT Laws2\nINVARIANT Laws3\nINVARIANT LawKeyOrder\n"
            "INVARIANT Emit\nCHECK_DEADLOCK FALSE\n" % ("TRUE" if big else "FALSE"))


def signature(case, m):
    return "C12 %s a=%s b=%s" % (m["op"], json.dumps(case["a"], sort_keys=True), json.dumps(case["b"], sort_keys=True))


def check(tier, seed, t0):
    thorough = tier == "thorough"
    vlib.build_harness()
    v = vlib.Verdict(PROP)
    # 1. the laws on the specification + enumeration of cases
    r = vlib.run_tlc("c12_mc", "MC_C12", cfg(thorough), workers=8, timeout=1500)
    if not r.ok:
        # a law fails on the specification itself: the model is wrong, not the code
        raise vlib.ToolError("MC_C12: a coherence law fails on the specification:\n" + r.violation)
    cases = r.lines.get("CASE", [])
    if len(cases) != r.distinct or not cases:
        raise vlib.ToolError("MC_C12 emitted %d cases for %d states" % (len(cases), r.distinct))
    # 2. spec -> impl
    cpath = os.path.join(vlib.BUILD, "c12_cases.ndjson")
    opath = os.path.join(vlib.BUILD, "c12_out.ndjson")
    vlib.write_ndjson(cpath, cases)
    lifts = "id,half,ulp,huge,tiny,third" if thorough else "id,ulp,tiny"
    vlib.harness(["replay", "c12", cpath, opath, "--lifts", lifts])
    outs = vlib.read_ndjson(opath)
    evals = 0
    for c, o in zip(cases, outs):
        evals += o["evals"]
        for m in o["mismatches"]:
            v.mismatch(signature(c, m), {"case": c, "mismatch": m})
    nontrivial = sum(1 for c in cases if c["a"] != c["b"] and c["a"]["t"] == c["b"]["t"])
    # 3. impl -> spec
    n = 20000 if thorough else 1500
    tpath = os.path.join(vlib.BUILD, "c12_trace.ndjson")
    vlib.harness(["record", "c12", tpath, "--seed", str(seed), "--n", str(n)])
    events = vlib.read_ndjson(tpath)
    bad, tr = vlib.validate_trace("c12_trace", "Trace_C12", tpath, len(events), timeout=1500)
    for i in bad:
        e = events[i - 1]
        sig = "C12 trace %s a=%s b=%s" % (e["ev"], json.dumps(e["a"], sort_keys=True), json.dumps(e["b"], sort_keys=True))
        v.mismatch(sig, {"event": e, "index": i, "seed": seed})
    distinct_events = len({vlib.case_hash([e["a"], e["b"], e.get("c")]) for e in events})
    ev = {
        "property_id": PROP, "tier": tier, "seed": seed, "level": "model_checking",
        "coverage": {
            "states": r.distinct, "transitions": max(r.transitions, r.generated - r.distinct, 1),
            "traces_validated_against_impl": 1,
            "trace_events": len(events), "trace_events_distinct": distinct_events,
            "evaluations": evals + len(events) * 10,
            "distinct_nontrivial": nontrivial + distinct_events,
            "rule": "spec->impl: every ordered pair of the value universe of MC_C12 (one TLC state each) x 10 operators "
                    "x number lifts; non-trivial = the two values differ but have the same type. impl->spec: seeded random "
                    "pairs/triples (60% near-equal mutations), distinct by value hash.",
            "exhaustive": True,
            "laws_checked_on_spec": ["LawReflexive", "LawSymmetric", "LawTransitiveEq", "LawNeIsNegation", "LawAntisym",
                                     "LawTrichotomy", "LawUnions", "LawTransitiveLt", "LawDifferentTypes", "LawUnordered",
                                     "LawUAgree", "LawPrefixFirst", "LawKeyOrder"],
            "lifts": lifts.split(","),
            "samples": [cases[0], cases[len(cases) // 2], events[0], events[-1]],
            "tlc_wall_s": round(r.wall + tr.wall, 1),
        },
        "assumptions": ["number lifts are strictly increasing and zero preserving (harness/src/mv.rs)",
                        "ALPHABET is sorted by code point", "NaN excluded as the property states",
                        "TLC 1.8, Json community module"],
    }
    return v.finish(ev, t0)


def replay(path):
    d = json.load(open(path))
    print(json.dumps(d, indent=1))
    return 0
