"""X05 - extended conformance, NOT one of the listed properties and not registered in MANIFEST.json:
trim / uppercase / lowercase / replace against spec/BlotsStrings.tla.  Prints DIVERGENCE lines (never VIOLATION lines) and writes build/extended/X05.json."""
import json, os
import vlib

CFG = "SPECIFICATION Spec\nINVARIANT TrimLaws\nINVARIANT CaseLaws\nINVARIANT ReplaceLaws\nINVARIANT Emit\nCHECK_DEADLOCK FALSE\n"


def check(tier, seed, t0):
    vlib.build_harness()
    r = vlib.run_tlc("x05_mc", "MC_X05", CFG, workers=4, timeout=1500)
    if not r.ok:
        raise vlib.ToolError("MC_X05: a law fails on the specification itself:\n" + r.violation)
    cases = r.lines.get("CASE", [])
    if len(cases) != r.distinct or not cases:
        raise vlib.ToolError("MC_X05 emitted %d cases for %d states" % (len(cases), r.distinct))
    cpath = os.path.join(vlib.BUILD, "x05_cases.ndjson")
    opath = os.path.join(vlib.BUILD, "x05_out.ndjson")
    vlib.write_ndjson(cpath, cases)
    vlib.harness(["replay", "x05", cpath, opath])
    outs = vlib.read_ndjson(opath)
    div = []
    for c, o in zip(cases, outs):
        for m in o["mismatches"]:
            div.append(m)
    os.makedirs(os.path.join(vlib.BUILD, "extended"), exist_ok=True)
    per_f = {}
    for c in cases:
        per_f[c["c"]["f"]] = per_f.get(c["c"]["f"], 0) + 1
    json.dump({"id": "X05", "states": r.distinct, "cases_per_function": per_f, "divergences": div[:50], "n_divergences": len(div)},
              open(os.path.join(vlib.BUILD, "extended", "X05.json"), "w"), indent=1)
    for m in div[:12]:
        print("DIVERGENCE extended=X05 %s expected %s observed %s" % (m["src"], json.dumps(m["exp"]), json.dumps(m["obs"])))
    print("X05: %d calls, %d divergences" % (len(cases), len(div)))
    return 1 if div else 0


def replay(path):
    return 0
