"""C13 - via / where / into agree with map / filter / application for every function."""
import json, os
import vlib

PROP = "C13"
NAMES = ('{"g", "inc", "withidx", "optidx", "restall", "restafter", "closure", "fact", "isev", "isod", "small", "first", "notbool", '
         '"failing", "acc2", "acc3", "two", "allocp", "accl", "cnt", "nullp", "x", "i", "j", "r", "a", "cb", "ys"}')


def cfg(maxl):
    return ("SPECIFICATION Spec\nCONSTANTS Names = %s\n MaxDepth = 40\n MaxL = %d\nINVARIANT FormsAgree\nINVARIANT CallbackProtocol\n"
            "INVARIANT EverySome\nINVARIANT ReduceIsLeftFold\nINVARIANT SiteIndependent\nINVARIANT Emit\nCHECK_DEADLOCK FALSE\n" % (NAMES, maxl))


def check(tier, seed, t0):
    thorough = tier == "thorough"
    vlib.build_harness()
    v = vlib.Verdict(PROP)
    r = vlib.run_tlc("c13_mc", "MC_C13", cfg(3 if thorough else 2), workers=8, timeout=3000, tags=("CASE", "SETUP"))
    if not r.ok:
        raise vlib.ToolError("MC_C13: an equivalence / protocol law fails on the reference evaluator itself:\n" + r.violation)
    cases = r.lines.get("CASE", [])
    setup = r.lines.get("SETUP", [None])[0]
    if len(cases) != r.distinct or not cases or setup is None:
        raise vlib.ToolError("MC_C13 emitted %d cases for %d states" % (len(cases), r.distinct))
    cpath = os.path.join(vlib.BUILD, "c13_cases.ndjson")
    opath = os.path.join(vlib.BUILD, "c13_out.ndjson")
    spath = os.path.join(vlib.BUILD, "c13_setup.json")
    vlib.write_ndjson(cpath, cases)
    json.dump(setup, open(spath, "w"))
    vlib.harness(["replay", "c13", cpath, opath, "--setup", spath])
    outs = vlib.read_ndjson(opath)
    evals, calls = 0, 0
    forms = {}
    for c, o in zip(cases, outs):
        evals += o["evals"]
        calls += o["calls"]
        forms[c["form"]] = forms.get(c["form"], 0) + 1
        for m in o["mismatches"]:
            v.mismatch("C13 form=%s f=%s :: %s" % (c["form"], c["f"], m["src"]), {"case": {"form": c["form"], "f": c["f"]}, "mismatch": m})
    nontrivial = sum(1 for c in cases if len(c["a"].get("l", c["a"].get("args", [{}])[0] if c["a"].get("args") else {}).get("xs", [])) >= 1)
    ev = {
        "property_id": PROP, "tier": tier, "seed": seed, "level": "model_checking",
        "coverage": {
            "states": r.distinct, "transitions": max(r.generated - r.distinct, 1),
            "traces_validated_against_impl": len(cases), "callback_calls_observed_by_hook": calls,
            "evaluations": evals, "distinct_nontrivial": nontrivial, "forms": forms,
            "rule": "one TLC state per (form, list, function): lists over {0,1,2,3} up to length %d; mappers / predicates / reducers: lambdas "
                    "of arity 1, 2, 3, optional and rest parameters, a closure, self-recursive (fact) and mutually recursive (isev/isod) "
                    "named functions, built-ins sum / max / len, a non-function, a failing and a non-boolean callback. Both equivalent "
                    "programs are run in the real evaluator with the call hook on: values compared with the model and with each other, "
                    "callback argument counts compared between the forms. Non-trivial = non-empty list." % (3 if thorough else 2),
            "exhaustive": True,
            "invariants_on_spec": ["FormsAgree", "CallbackProtocol", "EverySome", "ReduceIsLeftFold"],
            "samples": [{"form": c["form"], "f": c["f"], "a": c["a"]} for c in (cases[0], cases[len(cases) // 2], cases[-1])],
            "tlc_wall_s": round(r.wall, 1),
        },
        "assumptions": ["x via f with a scalar x is f(x); map demands a list: the claim is stated for lists",
                        "hook H2 (FunctionDef::call) reports callback calls", "errors compared as failure, not by message"],
    }
    return v.finish(ev, t0)


def replay(path):
    print(json.dumps(json.load(open(path)), indent=1))
    return 0
