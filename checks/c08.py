"""C08 - formatting is idempotent (same cases, drivers and widths as C07; second pass compared as text)."""
import json
import c07


def check(tier, seed, t0):
    return c07.run("C08", tier, seed, t0)


def replay(path):
    print(json.dumps(json.load(open(path)), indent=1))
    return 0
