"""C18 - runaway recursion ends in a call-depth error, never in a crash."""
import json, os, re
import vlib

PROP = "C18"


def evaluator_stack_kib():
    """native stack available to the CLI's evaluator: the declared evaluator-thread size, else the 8 MiB main thread"""
    try:
        src = open(os.path.join(vlib.REPO, "blots", "src", "main.rs")).read()
        m = re.search(r"EVALUATOR_STACK_BYTES: usize = ([0-9 *]+);", src)
        if m and ".stack_size(EVALUATOR_STACK_BYTES)" in src:
            v = 1
            for f in m.group(1).split("*"):
                v *= int(f.strip())
            return v // 1024
    except Exception:
        pass
    return 8192


def check(tier, seed, t0):
    thorough = tier == "thorough"
    vlib.build_harness()
    vlib.build_cli()
    v = vlib.Verdict(PROP)
    tpath = os.path.join(vlib.BUILD, "c18_trace.ndjson")
    vlib.harness(["record", "c18", tpath, "--cli", vlib.CLI] + (["--thorough"] if thorough else []), timeout=1500)
    events = vlib.read_ndjson(tpath)
    # 1. the CallDepth machine with the measured per-level stack costs
    shapes = [e["shape"] for e in events]
    q = lambda s: '"%s"' % s
    inc = " @@ ".join("%s :> %d" % (q(e["shape"]), e["inc"]) for e in events)
    cost = " @@ ".join("%s :> %d" % (q(e["shape"]), (e["measure"]["bytes_per_level"] + 1023) // 1024 + 1) for e in events)
    stack = evaluator_stack_kib()
    mc = ("---- MODULE MC_C18_gen ----\nEXTENDS MC_C18\nShapesC == {%s}\nIncC == %s\nCostC == %s\n====\n"
          % (", ".join(q(s) for s in shapes), inc, cost))
    cfg = ("SPECIFICATION Spec\nCONSTANTS Shapes <- ShapesC\n Inc <- IncC\n Cost <- CostC\n Base = 64\n Limit = 1000\n StackKiB = %d\n"
           "INVARIANT TypeOK\nINVARIANT DepthIsLevels\nINVARIANT GuardAtLimit\nINVARIANT Completes\nINVARIANT IndInv\nINVARIANT EmitEnd\n"
           "CHECK_DEADLOCK FALSE\n" % stack)
    r = vlib.run_tlc("c18_mc", "MC_C18_gen", cfg, workers=4, timeout=1500, coverage=True, generated_module=mc)
    if not r.ok:
        raise vlib.ToolError("MC_C18: an invariant of the CallDepth machine fails:\n" + r.violation)
    ends = {c["shape"]: c for c in r.lines.get("CASE", [])}
    # 1b. unbounded argument with Apalache: the inductive invariant of the typed single-shape machine (spec/CallDepthInd.tla)
    apalache = []
    adir = os.path.join(vlib.BUILD, "apalache_c18")
    os.makedirs(adir, exist_ok=True)
    for label, args in (("Init => IndInv", ["--init=Init", "--inv=IndInv", "--length=0"]),
                        ("IndInv /\\ Next => IndInv'", ["--init=IndInit", "--inv=IndInv", "--length=1"]),
                        ("IndInv => GuardBeforeOverflow", ["--init=IndInit", "--inv=Safe", "--length=0"])):
        p = vlib.run(["timeout", "300", "apalache-mc", "check", "--cinit=ConstInit", "--out-dir=" + adir] + args + [os.path.join(vlib.SPEC, "CallDepthInd.tla")],
                     cwd=adir, timeout=400)
        ok = b"EXITCODE: OK" in p.stdout
        apalache.append({"obligation": label, "discharged": ok})
        if not ok:
            raise vlib.ToolError("Apalache could not discharge '%s' of CallDepthInd:\n%s" % (label, p.stdout.decode(errors="replace")[-1500:]))
    # 2. the recorded runs against the machine
    bad, tr = vlib.validate_trace("c18_trace", "Trace_C18", tpath, len(events), timeout=600)
    for i in bad:
        e = events[i - 1]
        what = []
        if not (e["runaway"]["exit"] == 1 and e["runaway"]["depth_error"]):
            what.append("runaway program ended with exit status %s instead of the call-depth error" % e["runaway"]["exit"])
        sm = e.get("stdin_mode", {})
        if sm and not (sm["runaway_exit"] == 1 and sm["runaway_depth_error"]):
            what.append("runaway program given on standard input (blots -e) ended with exit status %s instead of the call-depth error" % sm["runaway_exit"])
        if sm and not sm["finite_ok"]:
            what.append("recursion a few hundred calls deep given on standard input did not complete (exit %s)" % sm["finite_exit"])
        if not e["finite"]["ok"]:
            what.append("recursion a few hundred calls deep did not complete (exit %s)" % e["finite"]["exit"])
        if not what:
            what.append("call-depth protocol: entry depths %s.. (inc %d), guard=%s" % (e["measure"]["depths"][:5], e["inc"], e["measure"]["guard"]))
        v.mismatch("C18 shape=%s: %s" % (e["shape"], "; ".join(what)), {"event": {k: e[k] for k in e if k != "measure"}, "depths_head": e["measure"]["depths"][:8]})
    # the model's own prediction with the measured costs (reported, and a violation only if the real CLI agrees)
    predicted_overflow = [s for s, c in ends.items() if c["status"] == "overflow"]
    for s in predicted_overflow:
        e = next(x for x in events if x["shape"] == s)
        if e["runaway"]["exit"] != 1:
            v.mismatch("C18 shape=%s: stack exhausted before the guard (model and CLI agree)" % s, {"model": ends[s], "cli": e["runaway"]})
    ev = {
        "property_id": PROP, "tier": tier, "seed": seed, "level": "model_checking",
        "coverage": {
            "states": r.distinct, "transitions": r.generated, "traces_validated_against_impl": len(events),
            "shapes": len(events), "evaluations": 3 * len(events),
            "distinct_nontrivial": len(events),
            "evaluator_stack_KiB": stack,
            "measured_KiB_per_level": {e["shape"]: (e["measure"]["bytes_per_level"] + 1023) // 1024 for e in events},
            "model_end_states": {s: ends[s]["status"] for s in ends},
            "apalache_inductive_obligations": apalache,
            "model_predicts_overflow_but_cli_survives": [s for s in predicted_overflow if next(x for x in events if x["shape"] == s)["runaway"]["exit"] == 1],
            "action_counts": r.coverage,
            "rule": "one recursion shape per event: self, mutual, conditional+operator, do-block, via / where / into callbacks, map / filter / "
                    "reduce / every / some / group_by callbacks, list / record literal, argument position, and bodies with 2..32 nested "
                    "operators / list literals / conditionals. Each shape: (a) the runaway program in process with the call hook - entry "
                    "depths validated by TLC against the CallDepth machine (depth = level * Inc, guard at the limit); (b) the runaway and "
                    "the 200/300-level programs in the release CLI under `ulimit -s 8192` - exit status 1 with 'maximum call depth', and "
                    "normal completion; (c) the machine model-checked with the measured per-level stack cost.",
            "exhaustive": False,
            "samples": [{"shape": e["shape"], "runaway": e["runaway_src"], "cli": e["runaway"]} for e in (events[0], events[len(events) // 2], events[-1])],
            "tlc_wall_s": round(r.wall + tr.wall, 1),
        },
        "assumptions": ["per-level stack costs are measured on the harness' release build (hooks on) and only feed the model; the verdict comes "
                        "from the real release CLI", "the CLI is run with the default 8 MiB main-thread stack limit (ulimit -s 8192)"],
    }
    return v.finish(ev, t0)


def replay(path):
    print(json.dumps(json.load(open(path)), indent=1))
    return 0
