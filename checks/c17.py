"""C17 - unit conversion is consistent across the whole unit table."""
import json, os
import vlib

PROP = "C17"


def tla_str(s):
    return '"' + s.replace("\\", "\\\\").replace('"', '\\"') + '"'


def check(tier, seed, t0):
    thorough = tier == "thorough"
    vlib.build_harness()
    v = vlib.Verdict(PROP)
    upath = os.path.join(vlib.BUILD, "units.json")
    vlib.harness(["export", "units", upath])
    d = json.load(open(upath))
    units = d["units"]
    tdir = os.path.join(vlib.BUILD, "c17_data")
    os.makedirs(tdir, exist_ok=True)
    vlib.write_ndjson(os.path.join(tdir, "units.ndjson"), units)
    vlib.write_ndjson(os.path.join(tdir, "variants.ndjson"), [{"v": x, "lv": d["lower"][x]} for x in d["variants"]])
    vlib.write_ndjson(os.path.join(tdir, "triples.ndjson"), [{"u": t[0], "b": t[1], "k": t[2]} for t in d["triples"]])
    cfg = "SPECIFICATION Spec\nINVARIANT ResolveTotal\nINVARIANT Emit\nCHECK_DEADLOCK FALSE\n"
    r = vlib.run_tlc("c17_mc", "MC_C17", cfg, workers=8, timeout=900, xmx="8g",
                     env_extra={"UNITS": os.path.join(tdir, "units.ndjson"), "VARIANTS": os.path.join(tdir, "variants.ndjson"),
                                "TRIPLES": os.path.join(tdir, "triples.ndjson")})
    if not r.ok:
        raise vlib.ToolError("MC_C17 failed:\n" + r.violation)
    cases = r.lines.get("CASE", [])
    # laws evaluated by TLC on the real table
    for c in cases:
        if not c["ok"]:
            if c["fam"] == "listed":
                v.mismatch("C17 identifier %s listed for unit %s (%s) does not resolve to it" % (json.dumps(c["id"]), c["unit"], units[c["unit"] - 1]["ids"][0]),
                           {"case": c, "resolves_to": c["resolves"]})
            else:
                v.mismatch("C17 %s law fails: %s" % (c["fam"], json.dumps(c)), {"case": c})
    # the real resolver / convert against the model's verdicts
    cpath = os.path.join(vlib.BUILD, "c17_cases.ndjson")
    opath = os.path.join(vlib.BUILD, "c17_out.ndjson")
    vlib.write_ndjson(cpath, cases)
    vlib.harness(["replay", "c17", cpath, opath])
    outs = vlib.read_ndjson(opath)
    for c, o in zip(cases, outs):
        for m in o["mismatches"]:
            v.mismatch("C17 %s" % m["src"], {"case": c, "mismatch": m})
    tpath = os.path.join(vlib.BUILD, "c17_trace.ndjson")
    vlib.harness(["record", "c17", tpath, "--seed", str(seed)] + (["--thorough"] if thorough else []))
    events = vlib.read_ndjson(tpath)
    bad, tr = vlib.validate_trace("c17_trace", "Trace_C17", tpath, len(events), timeout=3000)
    for i in bad:
        e = events[i - 1]
        v.mismatch("C17 %s %s" % (e["law"], e["src"]), {"event": e, "index": i})
    fams, laws = {}, {}
    for c in cases:
        fams[c["fam"]] = fams.get(c["fam"], 0) + 1
    for e in events:
        laws[e["law"]] = laws.get(e["law"], 0) + 1
    ev = {
        "property_id": PROP, "tier": tier, "seed": seed, "level": "model_checking",
        "coverage": {
            "states": r.distinct, "transitions": max(r.generated - r.distinct, 1), "traces_validated_against_impl": 1,
            "units_in_table": len(units), "identifiers": sum(len(u["ids"]) for u in units), "cases_per_family": fams, "numeric_events_per_law": laws,
            "evaluations": len(cases) + len(events), "distinct_nontrivial": len(cases) + len({e["src"] for e in events}),
            "rule": "the unit table is exported from the working tree and is the constant of Units.tla. One TLC state per listed identifier "
                    "(resolves to its own unit; aliases agree), per case variant (upper / lower / capitalised of every identifier, plus "
                    "non-identifiers: resolves iff unambiguous), per (prefixed unit, base, prefix) triple (same digits, exponent shifted) and "
                    "per ordered pair of units (convertible iff same category); each verdict is replayed against units::resolve_unit / "
                    "units::convert and the convert built-in. Numeric laws over every same-category ordered pair x 12 magnitudes%s are "
                    "validated by TLC (ulp distances)." % ("" if thorough else " (one third of the grid)"),
            "exhaustive": True,
            "samples": [cases[0], cases[len(cases) // 2], events[0], events[-1]],
            "tlc_wall_s": round(r.wall + tr.wall, 1),
        },
        "assumptions": ["lower-casing and the decimal decomposition of coefficients are done by the harness (Rust to_lowercase, {:e})",
                        "absolute values of non-prefixed coefficients have no oracle offline", "within rounding = 4 ulps there-and-back, 6 ulps "
                        "triangle; temperatures at the scale of 1000"],
    }
    return v.finish(ev, t0)


def replay(path):
    print(json.dumps(json.load(open(path)), indent=1))
    return 0
