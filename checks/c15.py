"""C15 - aggregates equal their definitions in both calling conventions."""
import json, os
import vlib

PROP = "C15"


def cfg(thorough):
    return ("SPECIFICATION Spec\nCONSTANTS MaxN = %d\n WithInf = TRUE\nINVARIANT Laws\nINVARIANT Emit\nCHECK_DEADLOCK FALSE\n"
            % (5 if thorough else 4))


def check(tier, seed, t0):
    thorough = tier == "thorough"
    vlib.build_harness()
    v = vlib.Verdict(PROP)
    r = vlib.run_tlc("c15_mc", "MC_C15", cfg(thorough), workers=8, timeout=3000, xmx="12g")
    if not r.ok:
        raise vlib.ToolError("MC_C15: a law fails on the definitions themselves:\n" + r.violation)
    cases = r.lines.get("CASE", [])
    if len(cases) != r.distinct or not cases:
        raise vlib.ToolError("MC_C15 emitted %d cases for %d states" % (len(cases), r.distinct))
    cpath = os.path.join(vlib.BUILD, "c15_cases.ndjson")
    opath = os.path.join(vlib.BUILD, "c15_out.ndjson")
    vlib.write_ndjson(cpath, cases)
    lifts = "id,half,ulp,huge,tiny,third" if thorough else "id,ulp,huge"
    vlib.harness(["replay", "c15", cpath, opath, "--lifts", lifts])
    outs = vlib.read_ndjson(opath)
    evals = 0
    for c, o in zip(cases, outs):
        evals += o["evals"]
        for m in o["mismatches"]:
            v.mismatch("C15 %s" % m["src"], {"case": c, "mismatch": m})
    nontrivial = sum(1 for c in cases if len(c["xs"]) >= 2)
    n = 20000 if thorough else 2400
    tpath = os.path.join(vlib.BUILD, "c15_trace.ndjson")
    vlib.harness(["record", "c15", tpath, "--seed", str(seed), "--n", str(n)])
    events = vlib.read_ndjson(tpath)
    bad, tr = vlib.validate_trace("c15_trace", "Trace_C15", tpath, len(events), timeout=3000)
    for i in bad:
        e = events[i - 1]
        v.mismatch("C15 trace %s %s" % (e["ev"], e["src"]), {"event": e, "index": i, "seed": seed})
    kinds = {}
    for e in events:
        kinds[e["ev"]] = kinds.get(e["ev"], 0) + 1
    ev = {
        "property_id": PROP, "tier": tier, "seed": seed, "level": "model_checking",
        "coverage": {
            "states": r.distinct, "transitions": max(r.generated - r.distinct, 1),
            "traces_validated_against_impl": 1, "trace_events": len(events), "trace_event_kinds": kinds,
            "evaluations": evals + sum(len(e.get("psx", [1, 2, 3])) for e in events),
            "distinct_nontrivial": nontrivial + len({e["src"] for e in events}),
            "rule": "spec->impl: every (aggregate, list) state of MC_C15 - all lists (hence all permutations) of length 1..MaxN over the "
                    "rank pool incl. +-inf - in three calling conventions (one list / separate / spread) under each number lift; "
                    "non-trivial = at least 2 elements. impl->spec: seeded random lists of length 1..50 (percentile grids, order "
                    "statistics, convention identity on arbitrary doubles), distinct by source text.",
            "exhaustive": True, "lifts": lifts.split(","),
            "laws_checked_on_spec": ["LawMinMax", "LawMedian", "LawPermutation", "LawSumAvg"],
            "samples": [cases[0], cases[len(cases) // 2], cases[-1], events[0], events[1], events[2]],
            "tlc_wall_s": round(r.wall + tr.wall, 1),
        },
        "assumptions": ["order statistics commute with strictly increasing lifts", "sum/prod/avg checked exactly on small integers and IEEE "
                        "specials only; rounding on general doubles is not decided by the specification (only convention identity is)",
                        "the even-length median is (lo + hi) / 2 evaluated in doubles by the harness", "NaN excluded (property: lists of numbers)"],
    }
    return v.finish(ev, t0)


def replay(path):
    print(json.dumps(json.load(open(path)), indent=1))
    return 0
