"""C04 - closures capture definition-time values; call-site independence; argument binding."""
import json, os
import vlib

PROP = "C04"
NAMES = '{"f", "g", "h", "k", "x", "y", "z", "q", "acc", "hh", "inputs", "p1", "p2", "q1", "q2", "rs", "a"}'
CFG = ("SPECIFICATION Spec\nCONSTANTS Names = %s\n MaxDepth = 12\n Deep = DEEP\nINVARIANT CallSiteIndependent\nINVARIANT ArgsLaw\n"
       "INVARIANT Emit\nCHECK_DEADLOCK FALSE\n" % NAMES)
TRACE_CFG = "CONSTANTS Names = %s\n MaxDepth = 12\n" % NAMES


def check(tier, seed, t0):
    thorough = tier == "thorough"
    vlib.build_harness()
    v = vlib.Verdict(PROP)
    r = vlib.run_tlc("c04_mc", "MC_C04", CFG.replace("DEEP", "TRUE" if thorough else "FALSE"), workers=8, timeout=3000, xmx="12g")
    if not r.ok:
        raise vlib.ToolError("MC_C04: call-site independence / argument binding fails on the reference evaluator itself:\n" + r.violation)
    cases = r.lines.get("CASE", [])
    if len(cases) != r.distinct or not cases:
        raise vlib.ToolError("MC_C04 emitted %d cases for %d states" % (len(cases), r.distinct))
    cpath = os.path.join(vlib.BUILD, "c04_cases.ndjson")
    opath = os.path.join(vlib.BUILD, "c04_out.ndjson")
    vlib.write_ndjson(cpath, cases)
    vlib.harness(["replay", "c04", cpath, opath])
    outs = vlib.read_ndjson(opath)
    evals = 0
    for c, o in zip(cases, outs):
        evals += o["evals"]
        for m in o["mismatches"]:
            if c["fam"] == "ctx":
                sig = "C04 closure=%s context=%s (%s)" % (c["def"], c["ctx"], m["where"])
            else:
                sig = "C04 args %s" % m["src"]
            v.mismatch(sig, {"case": {k: c[k] for k in c if k in ("fam", "def", "ctx", "n")}, "mismatch": m})
    n = 20000 if thorough else 2000
    tpath = os.path.join(vlib.BUILD, "c04_trace.ndjson")
    vlib.harness(["record", "c04", tpath, "--seed", str(seed), "--n", str(n)])
    events = vlib.read_ndjson(tpath)
    bad, tr = vlib.validate_trace("c04_trace", "Trace_C04", tpath, len(events), extra_cfg=TRACE_CFG, timeout=3000)
    for i in bad:
        e = events[i - 1]
        v.mismatch("C04 trace %s" % json.dumps(e["src"]), {"event": e, "index": i, "seed": seed})
    closed = sum(1 for c in cases if c["fam"] == "ctx" and c["closed"])
    ev = {
        "property_id": PROP, "tier": tier, "seed": seed, "level": "model_checking",
        "coverage": {
            "states": r.distinct, "transitions": max(r.generated - r.distinct, 1),
            "traces_validated_against_impl": 1, "trace_events": len(events),
            "evaluations": evals + len(events),
            "distinct_nontrivial": sum(1 for c in cases if c["fam"] == "args" or c["ctx"] != "top") + len({e["src"] for e in events}),
            "closure_context_cases": sum(1 for c in cases if c["fam"] == "ctx"), "of_which_closed_after_capture": closed,
            "argument_binding_cases": sum(1 for c in cases if c["fam"] == "args"),
            "rule": "spec->impl: one TLC state per (closure definition, calling context [, nested inner context]) and per (parameter list, "
                    "argument count 0..7); the model's value at top level and in the context are both compared with the real evaluator "
                    "(fresh session each), and for closed-after-capture functions the two real results must agree. Non-trivial = a "
                    "context other than top or an args case. impl->spec: seeded random parameter lists x argument tuples and a captured "
                    "closure called through random towers of shadowing contexts, re-evaluated by TLC with the reference evaluator.",
            "exhaustive": True,
            "invariants_on_spec": ["CallSiteIndependent", "ArgsLaw"],
            "samples": [{k: cases[0][k] for k in ("def", "ctx")}, {k: cases[len(cases) // 2][k] for k in ("def", "ctx")},
                        events[0]["src"], events[1]["src"]],
            "tlc_wall_s": round(r.wall + tr.wall, 1),
        },
        "assumptions": ["the documented parameter shape (required, then optional, then at most one rest)", "errors are compared as "
                        "success / failure, not by message", "TLC 1.8, Json community module"],
    }
    return v.finish(ev, t0)


def replay(path):
    print(json.dumps(json.load(open(path)), indent=1))
    return 0
