"""C07 - the formatter preserves program meaning (shares its machinery with C08)."""
import json, os
import vlib

PROP = "C07"


def cfg(deep):
    return "SPECIFICATION Spec\nCONSTANTS Deep = %d\n SpineLen = %d\nINVARIANT MinShorter\nINVARIANT Emit\nCHECK_DEADLOCK FALSE\n" % (deep, 3)


def classify(m):
    """structural signature of a mismatch: the driver-independent class, computed from the case"""
    return "%s %s :: %s" % (m["prop"], json.dumps(m["src"]), m["obs"][:60])


def run(prop, tier, seed, t0):
    thorough = tier == "thorough"
    vlib.build_harness()
    vlib.build_cli()
    v = vlib.Verdict(prop)
    r = vlib.run_tlc("c07_mc", "MC_C07", cfg(3 if thorough else 2), workers=8, timeout=3000, xmx="12g")
    if not r.ok:
        raise vlib.ToolError("MC_C07 failed on the specification itself:\n" + r.violation)
    cases = r.lines.get("CASE", [])
    if len(cases) != r.distinct or not cases:
        raise vlib.ToolError("MC_C07 emitted %d cases for %d states" % (len(cases), r.distinct))
    cpath = os.path.join(vlib.BUILD, "c07_cases.ndjson")
    opath = os.path.join(vlib.BUILD, "c07_out.ndjson")
    vlib.write_ndjson(cpath, cases)
    args = ["replay", "c07", cpath, opath, "--cli", vlib.CLI]
    if thorough:
        args.append("--thorough")
    vlib.harness(args, timeout=6000)
    outs = vlib.read_ndjson(opath)
    evals = 0
    ref_problems = []
    for c, o in zip(cases, outs):
        evals += o["evals"]
        for m in o["mismatches"]:
            if m["prop"] == "REF":
                ref_problems.append(m)
            elif m["prop"] == prop:
                v.mismatch(classify(m), {"tree": c["tree"], "mismatch": m})
    if ref_problems and not v.violations:
        # the specification's own minimal printer is read differently by the real parser although the formatter's output
        # shows nothing wrong: the reference rule (or the grammar) is off - a tool error, not a violation.  (When the formatter's
        # own output is misread too, the violations below are reported: parser and printer no longer agree on the table.)
        raise vlib.ToolError("reference-minimal text of SyntaxRich does not parse like the full text, e.g. %s" % json.dumps(ref_problems[0])[:400])
    # commented programs from the comment state machine (C09's cases) also count for C07 / C08
    import c09
    ccases, couts, cstates, ctrans, _, _ = c09.gen_and_replay(thorough)
    for c, o in zip(ccases, couts):
        evals += o["evals"]
        for m in o["mismatches"]:
            if m["prop"] == prop:
                v.mismatch("%s commented %s %s :: %s" % (prop, m["tag"], m["driver"].split()[0], m["obs"][:40]), {"case": c, "mismatch": m})
    n = 6000 if thorough else 800
    tpath = os.path.join(vlib.BUILD, "c07_trace.ndjson")
    vlib.harness(["record", "c07", tpath, "--seed", str(seed), "--n", str(n), "--cli", vlib.CLI], timeout=3000)
    events = vlib.read_ndjson(tpath)
    cfgx = ""
    bad, tr = vlib.validate_trace("c07_trace", "Trace_C07", tpath, len(events), timeout=3000)
    res = tr.lines["TRACE_RESULT"][-1]
    badlist = res["bad"] if prop == "C07" else res["bad8"]
    for i in badlist:
        e = events[i - 1]
        v.mismatch("%s trace %s %s w=%s %s" % (prop, e["ev"], json.dumps(e["src"]), e["width"], e.get("driver", "")),
                   {"event": {k: e[k] for k in e if k not in ("before", "after")}, "index": i, "seed": seed})

    def depth(t):
        if isinstance(t, dict):
            return 1 + max([depth(x) for x in t.values()] + [0]) if "k" in t else max([depth(x) for x in t.values()] + [0])
        if isinstance(t, list):
            return max([depth(x) for x in t] + [0])
        return 0
    nontrivial = sum(1 for c in cases if depth(c["tree"]) >= 3)
    kinds = {}
    for e in events:
        kinds[e["ev"]] = kinds.get(e["ev"], 0) + 1
    ev = {
        "property_id": prop, "tier": tier, "seed": seed, "level": "model_checking",
        "coverage": {
            "states": r.distinct + cstates, "transitions": max(r.generated - r.distinct, 1) + ctrans,
            "commented_programs_from_comment_machine": len(ccases),
            "traces_validated_against_impl": 1, "trace_events": len(events), "trace_event_kinds": kinds,
            "evaluations": evals + len(events),
            "distinct_nontrivial": nontrivial + len({(e["src"], e["width"], e.get("driver")) for e in events}),
            "rule": "spec->impl: one TLC state per chain-complete tree (every node kind as child of every node kind at every operand "
                    "position, depth %d); each is formatted by the library, the WASM driver and (sampled) the CLI at widths "
                    "{1,20,40,default} (thorough: 10 widths), as an expression, as an output declaration and inside a multi-statement "
                    "program, re-parsed and compared (C07), and formatted a second time (C08). Non-trivial = tree depth >= 3. "
                    "impl->spec: random operator expressions formatted for real, output tokens judged by ParseRef; corpus programs "
                    "(examples/, benches/) through every driver and width." % (3 if thorough else 2),
            "exhaustive": True,
            "samples": [{"full": cases[0]["full"], "min": cases[0]["min"]}, {"full": cases[len(cases) // 2]["full"]},
                        {k: events[0][k] for k in ("src", "width", "out")}, {k: events[-1][k] for k in ("src", "driver", "width", "idempotent")}],
            "tlc_wall_s": round(r.wall + tr.wall, 1),
        },
        "assumptions": ["AST equality is PartialEq of the repository's AST, which ignores source positions", "comments are covered by C09",
                        "the harness' tokenizer for the operator fragment", "TLC 1.8, Json community module"],
    }
    return v.finish(ev, t0)


def check(tier, seed, t0):
    return run(PROP, tier, seed, t0)


def replay(path):
    print(json.dumps(json.load(open(path)), indent=1))
    return 0
