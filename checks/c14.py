"""C14 - indexing, spreading and list/string/record built-in laws."""
import json, os
import vlib

PROP = "C14"


def cfg(thorough):
    return ("SPECIFICATION Spec\nCONSTANTS NL = %d\n ML = %d\nINVARIANT Laws\nINVARIANT Emit\nCHECK_DEADLOCK FALSE\n"
            % ((5, 4) if thorough else (3, 3)))


def sig(src):
    return "C14 %s" % src


def check(tier, seed, t0):
    thorough = tier == "thorough"
    vlib.build_harness()
    v = vlib.Verdict(PROP)
    r = vlib.run_tlc("c14_mc", "MC_C14", cfg(thorough), workers=8, timeout=3000, xmx="12g")
    if not r.ok:
        raise vlib.ToolError("MC_C14: a law fails on the definitions themselves:\n" + r.violation)
    cases = r.lines.get("CASE", [])
    if len(cases) != r.distinct or not cases:
        raise vlib.ToolError("MC_C14 emitted %d cases for %d states" % (len(cases), r.distinct))
    cpath = os.path.join(vlib.BUILD, "c14_cases.ndjson")
    opath = os.path.join(vlib.BUILD, "c14_out.ndjson")
    vlib.write_ndjson(cpath, cases)
    vlib.harness(["replay", "c14", cpath, opath])
    outs = vlib.read_ndjson(opath)
    per_f = {}
    for c, o in zip(cases, outs):
        per_f[c["c"]["f"]] = per_f.get(c["c"]["f"], 0) + 1
        for m in o["mismatches"]:
            v.mismatch(sig(m["src"]), {"case": c, "mismatch": m})

    def size(c):
        return len(c["c"]["v"].get("xs", c["c"]["v"].get("cs", c["c"]["v"].get("ks", []))))
    nontrivial = sum(1 for c in cases if size(c) >= 2 or c["c"]["f"] in ("range", "range1"))
    n = 20000 if thorough else 2500
    tpath = os.path.join(vlib.BUILD, "c14_trace.ndjson")
    vlib.harness(["record", "c14", tpath, "--seed", str(seed), "--n", str(n)])
    events = vlib.read_ndjson(tpath)
    bad, tr = vlib.validate_trace("c14_trace", "Trace_C14", tpath, len(events), timeout=3000)
    for i in bad:
        e = events[i - 1]
        v.mismatch(sig(e["src"]), {"event": e, "index": i, "seed": seed})
    ev = {
        "property_id": PROP, "tier": tier, "seed": seed, "level": "model_checking",
        "coverage": {
            "states": r.distinct, "transitions": max(r.generated - r.distinct, 1),
            "traces_validated_against_impl": 1, "trace_events": len(events),
            "evaluations": len(cases) + len(events),
            "distinct_nontrivial": nontrivial + len({e["src"] for e in events}),
            "calls_per_operation": per_f,
            "rule": "spec->impl: every call state of MC_C14 (all lists up to the length bound over the numeric / mixed / pair / string "
                    "domains, all strings over {a, b, e-acute, emoji}, every index -4..4, slice bounds, chunk sizes, key functions); "
                    "non-trivial = argument with >= 2 elements (or a range). impl->spec: seeded random calls (lists to length 40), "
                    "recomputed by TLC with the definitional Apply; distinct by source text.",
            "exhaustive": True,
            "laws_checked_on_spec": ["LawSort (permutation, order, stability)", "LawUnique", "LawReverse", "LawChunk", "LawHeadTail", "LawRange",
                                     "LawRecord", "LawGroup", "LawSplitJoin", "LawSpread", "LawIndex", "LawStringsAreCharSeqs"],
            "samples": [cases[0], cases[len(cases) // 2], cases[-1], events[0], events[1]],
            "tlc_wall_s": round(r.wall + tr.wall, 1),
        },
        "assumptions": ["identity number lift", "sort order asserted only for mutually comparable elements/keys (else: permutation)",
                        "slice / chunk / range laws for non-negative integer arguments", "TLC 1.8, Json community module"],
    }
    return v.finish(ev, t0)


def replay(path):
    print(json.dumps(json.load(open(path)), indent=1))
    return 0
