"""C06 - data survives output -> JSON -> input unchanged."""
import json, os
import vlib

PROP = "C06"


def cfg(deep):
    return ("SPECIFICATION Spec\nCONSTANTS Deep = %s\n ReservedKey <- ReservedKeyC\nINVARIANT RoundTripValue\nINVARIANT RoundTripJson\n"
            "INVARIANT KeysSorted\nINVARIANT Emit\nCHECK_DEADLOCK FALSE\n" % ("TRUE" if deep else "FALSE"))


def check(tier, seed, t0):
    thorough = tier == "thorough"
    vlib.build_harness()
    vlib.build_cli()
    v = vlib.Verdict(PROP)
    r = vlib.run_tlc("c06_mc", "MC_C06", cfg(thorough), workers=8, timeout=3000, xmx="12g")
    if not r.ok:
        raise vlib.ToolError("MC_C06: the JSON mapping of the specification does not round-trip:\n" + r.violation)
    cases = r.lines.get("CASE", [])
    cpath = os.path.join(vlib.BUILD, "c06_cases.ndjson")
    opath = os.path.join(vlib.BUILD, "c06_out.ndjson")
    vlib.write_ndjson(cpath, cases)
    vlib.harness(["replay", "c06", cpath, opath, "--cli", vlib.CLI], timeout=3000)
    outs = vlib.read_ndjson(opath)
    for c, o in zip(cases, outs):
        for m in o["mismatches"]:
            v.mismatch("C06 %s" % m["src"], {"case": c, "mismatch": m})
    reserved = sum(1 for c in cases if c["reserved"])
    n = 60000 if thorough else 600
    tpath = os.path.join(vlib.BUILD, "c06_trace.ndjson")
    vlib.harness(["record", "c06", tpath, "--seed", str(seed), "--n", str(n), "--cli", vlib.CLI], timeout=3000)
    events = vlib.read_ndjson(tpath)
    bad, tr = vlib.validate_trace("c06_trace", "Trace_C06", tpath, len(events), timeout=1500)
    for i in bad:
        e = events[i - 1]
        v.mismatch("C06 %s" % e["src"], {"event": e, "index": i, "seed": seed})
    ev = {
        "property_id": PROP, "tier": tier, "seed": seed, "level": "exploration",
        "coverage": {
            "evaluations": 2 * len(cases) + 2 * len(events),
            "distinct_nontrivial": sum(1 for c in cases if c["v"]["t"] in ("list", "rec")) + len({e["src"] for e in events if len(e["src"]) > 6}),
            "rule": "exhaustive part: one TLC state per data value of the universe of MC_C06 (leaves: 0, -1, 7, -0, strings with both quote "
                    "characters, backslash, tab, non-ASCII, numeric-looking; keys: empty, \"0\", with space, a quote, non-ASCII, the "
                    "reserved key; lists and records to depth 2, thorough depth 3) and per JSON document; RoundTripValue / RoundTripJson hold "
                    "on the specification's mapping. Each value is written by a real `blots` process and read by a second one, which must find "
                    "it .== the original and print identical JSON; each document is supplied with -i in non-canonical style and must come back "
                    "equal as a JSON value. Sampled part: random values to depth 6 with arbitrary finite doubles and the full Unicode range. "
                    "Non-trivial = composite value / source longer than 6 characters.",
            "samples": [cases[20], cases[len(cases) // 2], events[0]["src"], events[1]["src"]],
            "states": r.distinct, "transitions": max(r.generated - r.distinct, 1), "traces_validated_against_impl": 1,
            "values_with_the_reserved_record_form_not_claimed": reserved,
            "tlc_wall_s": round(r.wall + tr.wall, 1),
        },
        "assumptions": ["a record that is exactly {\"__blots_function\": <string>} is the reserved function form on input and is not claimed",
                        "JSON number tokens are compared as text after the second process; documents are compared with numbers as doubles",
                        "non-finite numbers are outside the property (they serialise to 0)"],
    }
    return v.finish(ev, t0)


def replay(path):
    print(json.dumps(json.load(open(path)), indent=1))
    return 0
